import json,os,sys
strength={
"C03":"generator now also emits 以-method chains of two or more calls in expression position with a trailing 得到, and calls with yields inside operands/arguments; the tree comparison places YieldResult on the chain node",
"C07":"history generator now issues constant declarations (恒为) from existing names, multi-name declarations from one literal, and in-place updates (自增/自减, 后增, element writes) through one name followed by reads through the others",
"C08":"new family obj/in-place-default-update: an in-place built-in (自增/自减) applied to a scalar default property of one object, then reads through other existing and later-created objects",
"C09":"new family c09Extra: a handler that itself raises, caught by the handler of an enclosing method, after which the caller reads 其/its locals and the call-stack depth hook is compared",
"C10":"every positional argument of every positional method is now drawn relative to the live length, from -2 to length+2 (and fractional neighbours), not only from fixed small numbers",
"C11":"documents now contain arrays whose items are multi-key objects (c19Rich); order is observed through iteration, 所有索引, display and generated JSON",
"C12":"合并 calls now include the receiver itself as the 2nd or later argument (self-merge) with non-empty earlier arguments; the sequence model uses snapshot semantics",
"C16":"polluter/probe pairs now also run through the varinput entry point and the playground handler (pg op), including mutation of predefined 数值 through an input block",
"C18":"new family c18HandlerFault: a fault one call level below a handler, whose handler block then faults itself; the report must cite the line of the second fault and only live frames (containment)",
"C20":"scenario mixes hang2/hang3 (several workers hanging in the same timeout window) and kill bursts; the pool floor (--init-procs restored after exits, within a bounded number of samples after faults stop) is monitored next to the --max-procs ceiling",
}
first_missed=set(strength)
strength3={
"C02":"(same change as C12-r3; C02 caught it as it stood)",
"C03":"the renderer writes line breaks inside text values as real line breaks of the file (multi-line literals in any position)",
"C04":"names may begin with 注 (my generators had excluded them)",
"C05":"cross-check in the worker: a text the parser accepts must tokenise to its very end with the lexer alone",
"C06":"caught by C15 (specials sibling-readonly: a method of an imported module assigns to a sibling's name); C06 itself has no multi-module programs",
"C08":"C08 family obj/failed-ctor-handled (a failing 新建 handled inside a call, then 其 in the calling method); C09 got raise kinds ctor-arity / ctor-throw / ctor-fault",
"C10":"C10 API driver: dup / twin steps and scripted histories alternating structural updates between a collection and its copy (sizes 0..9)",
"C11":"srvharness headers mode: five request / response shapes incl. names that differ only in letter case",
"C12":"C12 observers iterate with 继续循环 / 结束循环 and read 集#{序+0} in every pass",
"C15":"C15 variant lib-everywhere: every module of the graph imports the same library",
"C16":"not confirmed: on the current tree the demonstration passes with the change (its trigger needs a type defined inside a method body to sit in the module's export table, which fix 563e80b removed)",
"C20":"not a violation on the current tree: the read deadline of fix dadc504 also bounds the body read, the worker is no longer pinned (the demonstration now fails without the change because it expects the worker to be replaced rather than to answer with an error); C20 got the mix 'stall' for such requests",
}
strength2={
"C06":"C06 fixed families now leave a body through its handler in 12 ways (抛出, ÷0, undefined name, index, type error, arity errors of method / object method / constructor, rejected assignment / declaration) x {directly, in nested blocks, in a loop, one call deeper} and probe callee names, redeclaration in the caller's block and names of blocks that end afterwards (C09's quiescent scope-depth invariant caught it unchanged)",
"C10":"C10 got an input-variable driver (texts without any statement: line breaks, comments, imports only; every right-hand-side kind); the same texts were added to C05's corpus",
"C11":"written against 89a707f, where the unchanged tree itself had a related order dependence in the same loop (found through the agent's remark, repaired by 2ad8df6). On the repaired tree the change is deterministic (entries are visited in key order), so it no longer breaks C11 but C01 (structural equality); C01 got family (d): equality of container literals sharing 空 with one leaf changed",
"C13":"the encoder now zero-pads `U+hex` escapes to any width up to the documented eight digits (8-digit, 9-digit and out-of-range spellings added to the reverse direction)",
"C14":"shadow-slice relation: every 取样 position pair (negative and out-of-range included) is repeated on a text of equally many distinct one-byte characters and must select the same positions with the same outcome kind",
"C16":"the worker's synthetic library now also exports the repository's HTTP响应 / HTTP请求 types; polluters mutate the headers of a freshly constructed response in place, probes construct responses of each content kind",
"C18":"the renderer now also emits comments spanning several physical lines with 0..3 empty lines inside (/* */, 注：“”, 注：「」)",
"C20":"pmharness workers now end with status 0 when Start returns an error, as cmd/zinc-playground does; new request mix 'garbage' (connections that carry no HTTP request) with the pool-floor monitor",
}
root='/verif/seeded'
for d in sorted(os.listdir(root)):
    p=os.path.join(root,d)
    if not os.path.isdir(p) or not os.path.exists(p+'/agent_meta.json'): continue
    prop=d.split('-')[0]
    rnd=int(d.split('-r')[1]) if '-r' in d else 1
    a=json.load(open(p+'/agent_meta.json'))
    v={}
    for t in ('quick','thorough'):
        if os.path.exists(p+'/verify-%s.json'%t): v[t]=json.load(open(p+'/verify-%s.json'%t))
    # latest recheck logs
    rechecks={}
    for f in sorted(os.listdir(p)):
        if f.startswith('check-') and f.endswith('.log') and f.count('-')==2:
            chk,tier=f[6:-4].split('-')
            txt=open(p+'/'+f,errors='replace').read()
            nv=sum(1 for l in txt.splitlines() if l.startswith('VIOLATION property='+chk))
            summ=[l for l in txt.splitlines() if l.startswith(chk+' '+tier)]
            rechecks[chk+'-'+tier]={'violation_lines':nv,'detected':nv>0,'summary':summ[-1] if summ else ''}
    extra={}
    if os.path.exists(p+'/notes.json'): extra=json.load(open(p+'/notes.json'))
    m={
     'property':prop,'round':rnd,
     'change':a.get('summary',''),
     'needs_to_manifest':a.get('needs_to_manifest',''),
     'files':[l.split(' b/')[1] for l in open(p+'/patch.diff') if l.startswith('diff --git')],
     'demonstration':'demo/ (files listed in demo_files.txt); go test -run TestSeedDemo in the package(s) of the demo',
     'what_i_ran':[
       'fresh worktree of /repo HEAD under /tmp, git apply patch.diff (seed_eval.sh)',
       'go build -tags verif ./pkg/... ./stdlib/json ./stdlib/file : '+v.get('quick',{}).get('build','?'),
       'pinned tests with the change, demo moved away (go test ./pkg/... minus pkg/server): exit %s'%v.get('quick',{}).get('pinned_tests_exit','?'),
       'demonstration with the change: %s; without the change (git apply -R): %s'%(v.get('quick',{}).get('demo_with_change','?'),v.get('quick',{}).get('demo_without_change','?')),
       'VERIF_REPO=<worktree> ./check.sh %s quick (never applied to /repo HEAD, nothing committed there); worktree removed afterwards'%prop],
     'first_evaluation':{t:{'check_exit':v[t]['check_exit'],'result':v[t]['check_result'],'violation_lines':v[t]['violation_lines']} for t in v},
     'current_result':rechecks,
    }
    if rnd==1 and prop in first_missed:
        m['missed_by_first_version']=True
        m['strengthening']=strength[prop]
    elif rnd==1:
        m['missed_by_first_version']=False
    elif rnd==2 and prop in strength2:
        m['missed_by_first_version']=True
        m['strengthening']=strength2[prop]
    elif rnd==2:
        m['missed_by_first_version']=False
    elif rnd==3 and prop in strength3:
        m['missed_by_first_version']=prop not in ('C02',)
        m['strengthening']=strength3[prop]
    elif rnd==3:
        m['missed_by_first_version']=False
    if rnd>=4:
        sx=json.load(open('/verif/seeded/strengthening_r4_r6.json')).get(d)
        if sx:
            m['missed_by_first_version']=sx['missed_by_first_version']
            m['first_result']=sx['first']; m['result_now']=sx['now']
            if sx['strengthening']: m['strengthening']=sx['strengthening']
    if os.path.exists(p+'/hunt_findings.json'):
        m['hunt_findings_file']='hunt_findings.json (candidates reported by the same sub-agent for the unchanged tree; see DESIGN 12.8 for what became of each)'
    if os.path.exists(p+'/patch_as_written.diff'):
        m['note_patch']='patch.diff is the change ported to the current HEAD (a later fix rewrote its context); patch_as_written.diff is the sub-agent\'s original'
    m.update(extra)
    json.dump(m,open(p+'/meta.json','w'),ensure_ascii=False,indent=1)
    print(d, {k:(x['detected']) for k,x in rechecks.items()})
