#!/usr/bin/env python3
# usage: add_fixed.py <property> <commit-ish in /repo> <what failed>
import json,sys,subprocess
prop,commit,what=sys.argv[1],sys.argv[2],sys.argv[3]
full=subprocess.run(['git','-C','/repo','rev-parse',commit],capture_output=True,text=True).stdout.strip()
d=json.load(open('/verif/known_findings.json'))
d.append({'status':'fixed','property':prop,'key':'','commit':full,'what':what,'line':'fixed: property=%s %s %s'%(prop,full[:12],what)})
json.dump(d,open('/verif/known_findings.json','w'),indent=1,ensure_ascii=False)
