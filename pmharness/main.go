//go:build verif

// pmharness: the real prefork server (pkg/server.ZnPMServer) around the real playground
// handler. Started plainly it becomes the master; the master re-executes this binary with
// --child-worker for every worker. The handler is wrapped so that every request is logged
// at the boundary: "S <pid> <token> <unix-nano>" before and "E …" after delegating.
package main

import (
	"strconv"
	"bytes"
	"flag"
	"fmt"
	"io"
	"net/http"
	"os"
	"strings"
	"time"

	"github.com/DemoHn/Zn/pkg/exec"
	"github.com/DemoHn/Zn/pkg/server"
)

type logHandler struct {
	inner http.Handler
	log   *os.File
}

func (h *logHandler) ServeHTTP(w http.ResponseWriter, r *http.Request) {
	body, _ := io.ReadAll(r.Body)
	r.Body = io.NopCloser(bytes.NewReader(body))
	token := r.URL.Query().Get("t")
	fmt.Fprintf(h.log, "S %d %s %d\n", os.Getpid(), token, time.Now().UnixNano())
	if ms, err := strconv.Atoi(r.URL.Query().Get("sleep")); err == nil && ms > 0 {
		// a handler that takes a known time (scenario "slowhead"): harness-side, not Zn code
		time.Sleep(time.Duration(ms) * time.Millisecond)
	}
	h.inner.ServeHTTP(w, r)
	fmt.Fprintf(h.log, "E %d %s %d\n", os.Getpid(), token, time.Now().UnixNano())
}

func main() {
	// flags are passed through the environment as well, because the master re-executes
	// os.Args[0] with only "--child-worker"
	isChild := false
	for _, a := range os.Args[1:] {
		if a == "--child-worker" {
			isChild = true
		}
	}
	var addr, logPath string
	var initP, maxP, timeout, workerDelay int
	if isChild {
		addr = os.Getenv("PMH_ADDR")
		logPath = os.Getenv("PMH_LOG")
		fmt.Sscan(os.Getenv("PMH_INIT"), &initP)
		fmt.Sscan(os.Getenv("PMH_MAX"), &maxP)
		fmt.Sscan(os.Getenv("PMH_TIMEOUT"), &timeout)
		fmt.Sscan(os.Getenv("PMH_WORKERDELAY"), &workerDelay)
	} else {
		fs := flag.NewFlagSet("pmharness", flag.ExitOnError)
		fs.StringVar(&addr, "addr", "tcp://127.0.0.1:0", "connection url")
		fs.StringVar(&logPath, "log", "", "event log")
		fs.IntVar(&initP, "init", 2, "init procs")
		fs.IntVar(&maxP, "max", 4, "max procs")
		fs.IntVar(&timeout, "timeout", 2, "exec timeout (s)")
		fs.IntVar(&workerDelay, "workerdelay", 0, "delay before a worker starts serving (ms)")
		pidFile := fs.String("pidfile", "", "write master pid here")
		fs.Parse(os.Args[1:])
		os.Setenv("PMH_ADDR", addr)
		os.Setenv("PMH_LOG", logPath)
		os.Setenv("PMH_INIT", fmt.Sprint(initP))
		os.Setenv("PMH_MAX", fmt.Sprint(maxP))
		os.Setenv("PMH_TIMEOUT", fmt.Sprint(timeout))
		os.Setenv("PMH_WORKERDELAY", fmt.Sprint(workerDelay))
		if *pidFile != "" {
			os.WriteFile(*pidFile, []byte(fmt.Sprint(os.Getpid())), 0o644)
		}
	}
	logf, err := os.OpenFile(logPath, os.O_APPEND|os.O_CREATE|os.O_WRONLY, 0o644)
	if err != nil {
		fmt.Fprintln(os.Stderr, "pmharness: cannot open log:", err)
		os.Exit(3)
	}
	if isChild {
		fmt.Fprintf(logf, "W %d start %d\n", os.Getpid(), time.Now().UnixNano())
		if workerDelay > 0 {
			time.Sleep(time.Duration(workerDelay) * time.Millisecond)
		}
	} else {
		fmt.Fprintf(logf, "M %d start %d\n", os.Getpid(), time.Now().UnixNano())
	}
	ip := exec.NewInterpreter("pmharness")
	srv := server.NewZnPMServer(server.ZnPMServerConfig{InitProcs: initP, MaxProcs: maxP, Timeout: timeout})
	srv.SetHandler(&logHandler{inner: server.NewZnPlaygroundHandler(ip), log: logf})
	if err := srv.Start(addr); err != nil {
		if !strings.Contains(err.Error(), "use of closed") {
			fmt.Fprintln(os.Stderr, "pmharness:", err)
		}
		if isChild {
			// as cmd/zinc-playground/root.go does: the error is printed, Run returns and the
			// process ends with status 0 (e.g. a worker whose connection carried no HTTP request)
			fmt.Fprintf(logf, "W %d exit0 %d\n", os.Getpid(), time.Now().UnixNano())
			os.Exit(0)
		}
		os.Exit(1)
	}
}
