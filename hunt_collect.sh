#!/bin/bash
# usage: hunt_collect.sh <round> <ID>   stores the result of a hunting sub-agent (/tmp/hunt<round>-<ID>) under seeded/hunt<round>/<ID> and removes its worktree
R=$1; ID=$2; SRC=/tmp/hunt$R-$ID; OUT=/verif/seeded/hunt$R/$ID
mkdir -p $OUT
cp $SRC/HUNT_findings.json $OUT/ 2>/dev/null
cp /verif/seeded/prompts/hunt$R/$ID.txt $OUT/prompt.txt 2>/dev/null
( cd $SRC && git status --porcelain | grep '^??' | awk '{print $2}' | grep '_test.go$' | while read f; do mkdir -p $OUT/$(dirname $f); cp $f $OUT/$f; done )
git -C /repo worktree remove --force $SRC
python3 -c "
import json,sys
try:
    d=json.load(open('$OUT/HUNT_findings.json'))
    print('$ID', len(d), 'findings')
    for x in d: print('  -', x.get('confidence'), '|', x.get('title'))
except Exception as e: print('$ID no findings file', e)
"
