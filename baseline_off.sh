#!/bin/sh
# Runs the repository's pinned test suite with the verif guard OFF and compares the set of
# passing tests with /root/.vp/BASELINE.json (stable_pass). Exit 0 iff every baseline test passes.
export GOFLAGS=-mod=mod GOPROXY=off GOSUMDB=off GOTOOLCHAIN=local
# the suite leaves temporary directories behind: give it a TMPDIR of its own and remove it
T=$(mktemp -d /tmp/verif-baseline-tmp.XXXXXX)
cd /repo && TMPDIR=$T go test -mod=mod -json -vet=off -count=1 -timeout 25m ./... 2>/dev/null > /tmp/verif-baseline-$$.json
rm -rf "$T"
python3 - /tmp/verif-baseline-$$.json <<'PY'
import json,sys
passed=set()
for line in open(sys.argv[1]):
    try: e=json.loads(line)
    except Exception: continue
    if e.get('Action')=='pass' and e.get('Test'):
        passed.add(e['Package']+'::'+e['Test'])
try:
    base=set(json.load(open('/root/.vp/BASELINE.json'))['stable_pass'])
except Exception as ex:
    print('no baseline file:',ex); base=set()
missing=sorted(base-passed)
print('baseline tests: %d, passing now: %d, missing: %d'%(len(base),len(passed&base),len(missing)))
for m in missing[:20]: print('  MISSING',m)
sys.exit(1 if missing else 0)
PY
rc=$?
rm -f /tmp/verif-baseline-$$.json
exit $rc
