#!/bin/sh
# developer aid: run every registered check at one tier (default quick); prints one line per check
cd "$(dirname "$0")"
tier=${1:-quick}
mkdir -p scratch
for c in $(python3 -c "import json; print(' '.join(x['property_id'] for x in json.load(open('MANIFEST.json'))['checks']))"); do
  ./check.sh $c $tier > scratch/last-$c.log 2>&1; rc=$?
  echo "$c rc=$rc $(grep "^$c $tier" scratch/last-$c.log | tail -1) $(grep -c '^VIOLATION' scratch/last-$c.log) violations $(grep -c '^KNOWN-FINDING' scratch/last-$c.log) known"
done
