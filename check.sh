#!/bin/sh
# usage: ./check.sh <ID> <quick|thorough>   |   ./check.sh <ID> --replay <file>
cd "$(dirname "$0")"
export GOFLAGS=-mod=mod GOPROXY=off GOSUMDB=off GOTOOLCHAIN=local
mkdir -p bin evidence replays scratch
go build -o bin/zncheck ./cmd/zncheck || { echo "INCONCLUSIVE: judge build failed"; exit 2; }
exec ./bin/zncheck "$@"
