#!/bin/bash
# usage: seed_recheck.sh <ID> [tier] [check-id]  - re-run a check against the stored seeded change
set -u
ID=$1; TIER=${2:-quick}; CHK=${3:-${ID%%-*}}
EV=/tmp/rc-$ID-$$
OUT=/verif/seeded/$ID
# a change written against an older commit whose context a later fix: commit rewrote is
# re-checked on the commit it was written for (file base_commit)
BASE=HEAD; [ -f $OUT/base_commit ] && BASE=$(cat $OUT/base_commit)
git -C /repo worktree add -q --detach $EV $BASE || exit 2
# an older base lacks the hooks the worker needs now (H3b evaluation depth, H7 report delay): bring
# them in (hook commits only add tagged files / no-op call sites)
for H in 6c7d26c 664dc0c; do
  if ! git -C /repo merge-base --is-ancestor $H $BASE 2>/dev/null; then
    ( cd $EV && git cherry-pick -n $H >/dev/null 2>&1 ) || { ( cd $EV && git cherry-pick --abort 2>/dev/null; git reset -q --hard $BASE ); echo "hook $H cannot be brought onto $BASE"; }
  fi
done
( cd $EV && git apply $OUT/patch.diff ) || { echo "patch does not apply"; git -C /repo worktree remove --force $EV; exit 2; }
cd /verif
# JUDGE=<frozen zncheck binary> avoids rebuilding the judge (use it in long loops, so that edits
# to cmd/zncheck made meanwhile do not change or break the run)
if [ -n "${JUDGE:-}" ]; then
  GOFLAGS=-mod=mod GOPROXY=off GOSUMDB=off GOTOOLCHAIN=local VERIF_REPO=$EV $JUDGE $CHK $TIER > $OUT/check-$CHK-$TIER.log 2>&1; RC=$?
else
  VERIF_REPO=$EV ./check.sh $CHK $TIER > $OUT/check-$CHK-$TIER.log 2>&1; RC=$?
fi
RES=MISSED; [ $RC -eq 1 ] && grep -aq "^VIOLATION property=$CHK" $OUT/check-$CHK-$TIER.log && RES=DETECTED
[ $RC -eq 2 ] && RES=INCONCLUSIVE
echo "$ID by $CHK $TIER: $RES (exit $RC, $(grep -ac "^VIOLATION" $OUT/check-$CHK-$TIER.log) violation lines) $(grep -a "^$CHK $TIER" $OUT/check-$CHK-$TIER.log | tail -1)"
git -C /repo worktree remove --force $EV
