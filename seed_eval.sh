#!/bin/bash
# usage: seed_eval.sh <ID> [tier] [round]   e.g. seed_eval.sh C14 quick 2
# (round 2 reads /tmp/seed2-<ID> and stores under seeded/<ID>-r2)
# Takes the sub-agent result in /tmp/seed-<ID> (SEED_patch.diff, SEED_meta.json, untracked demo test),
# confirms it in a fresh scratch worktree (compiles, pinned tests pass, demo fails with / passes
# without the change), runs the property's check against the patched worktree (VERIF_REPO) and
# stores everything under /verif/seeded/<ID>/.
set -u
ID=$1; TIER=${2:-quick}; ROUND=${3:-1}
if [ "$ROUND" = 1 ]; then SRC=/tmp/seed-$ID; OUT=/verif/seeded/$ID; else SRC=/tmp/seed$ROUND-$ID; OUT=/verif/seeded/$ID-r$ROUND; fi
EV=/tmp/ev$ROUND-$ID
export GOFLAGS=-mod=mod GOPROXY=off GOSUMDB=off GOTOOLCHAIN=local
[ -f $SRC/SEED_patch.diff ] || { echo "$ID: no SEED_patch.diff"; exit 2; }
mkdir -p $OUT
git -C /repo worktree remove --force $EV 2>/dev/null
git -C /repo worktree add -q --detach $EV HEAD || exit 2
cp $SRC/SEED_patch.diff $OUT/patch.diff
cp $SRC/SEED_meta.json $OUT/agent_meta.json 2>/dev/null
cp $SRC/HUNT_findings.json $OUT/hunt_findings.json 2>/dev/null
# demo files: untracked files in the agent's worktree (tests or small programs)
( cd $SRC && git status --porcelain | grep '^??' | awk '{print $2}' | grep -v '^SEED_\|FOREIGN' ) > $OUT/demo_files.txt
mkdir -p $OUT/demo
while read -r f; do
  [ -e "$SRC/$f" ] || continue
  mkdir -p "$OUT/demo/$(dirname $f)" "$EV/$(dirname $f)"
  cp -r "$SRC/$f" "$OUT/demo/$f"; cp -r "$SRC/$f" "$EV/$f"
done < $OUT/demo_files.txt
cd $EV
if ! git apply --check $OUT/patch.diff 2>/dev/null; then echo "$ID: patch does not apply to HEAD"; echo '{"status":"patch does not apply"}' > $OUT/verify.json; git -C /repo worktree remove --force $EV; exit 2; fi
git apply $OUT/patch.diff
BUILD=ok; go build -tags verif ./pkg/... ./stdlib/json ./stdlib/file >/dev/null 2>$OUT/build.log || BUILD=fail
go test -vet=off -count=1 $(go list ./pkg/... 2>/dev/null | grep -v pkg/server) > $OUT/tests_with_change.log 2>&1; T1=$?
# exclude the demo itself from the "pinned tests pass" verdict: run demo separately
DEMO_PKGS=$(grep '_test.go$' $OUT/demo_files.txt | xargs -r -n1 dirname | sort -u | sed 's#^#./#')
TAGS=""; grep -q "pkg/server" $OUT/demo_files.txt && TAGS="-tags verif"
RACE=""; grep -qi "race" $OUT/agent_meta.json 2>/dev/null && RACE="-race"
D1=skip; D0=skip
if [ -n "$DEMO_PKGS" ]; then
  go test $TAGS $RACE -vet=off -count=1 -run TestSeedDemo $DEMO_PKGS > $OUT/demo_with_change.log 2>&1 && D1=pass || D1=fail
  git apply -R $OUT/patch.diff
  go test $TAGS $RACE -vet=off -count=1 -run TestSeedDemo $DEMO_PKGS > $OUT/demo_without_change.log 2>&1 && D0=pass || D0=fail
  git apply $OUT/patch.diff
fi
# pinned suite verdict: every non-demo test must pass with the change. Temporarily move demo tests away.
while read -r f; do case "$f" in *_test.go) mv "$EV/$f" "$EV/$f.off";; esac; done < $OUT/demo_files.txt
go test -vet=off -count=1 $(go list ./pkg/... 2>/dev/null | grep -v pkg/server) > $OUT/tests_with_change.log 2>&1; T1=$?
while read -r f; do case "$f" in *_test.go) mv "$EV/$f.off" "$EV/$f";; esac; done < $OUT/demo_files.txt
# remove demo files before running the checks (they are not part of the change)
while read -r f; do rm -rf "$EV/$f"; done < $OUT/demo_files.txt
cd /verif
if [ -n "${JUDGE:-}" ]; then
  VERIF_REPO=$EV $JUDGE $ID $TIER > $OUT/check-$TIER.log 2>&1; RC=$?
else
  VERIF_REPO=$EV ./check.sh $ID $TIER > $OUT/check-$TIER.log 2>&1; RC=$?
fi
RES=MISSED; [ $RC -eq 1 ] && grep -aq "^VIOLATION property=$ID" $OUT/check-$TIER.log && RES=DETECTED
[ $RC -eq 2 ] && RES=INCONCLUSIVE
echo "{\"id\":\"$ID\",\"build\":\"$BUILD\",\"pinned_tests_exit\":$T1,\"demo_with_change\":\"$D1\",\"demo_without_change\":\"$D0\",\"check_tier\":\"$TIER\",\"check_exit\":$RC,\"check_result\":\"$RES\",\"violation_lines\":$(grep -ac "^VIOLATION" $OUT/check-$TIER.log)}" > $OUT/verify-$TIER.json
cat $OUT/verify-$TIER.json
git -C /repo worktree remove --force $EV
