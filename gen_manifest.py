#!/usr/bin/env python3
# Regenerates MANIFEST.json from the table below (kept next to the checks so that the
# manifest is always in step with what is actually registered).
import json, subprocess

hooks_commits = subprocess.run(['git','-C','/repo','log','--format=%H %s','--grep=^verif hook'],capture_output=True,text=True).stdout.strip().splitlines()

CHECKS = {
 # id: (level, technique, level text, note, design_ref)
 'C05': ('exploration','runtime monitoring: parser/printer run on truncations, mutations and bounded-exhaustive short inputs under a logical tick budget; oracle on the returned tree/error/rendering',
         'Every generated input is parsed by the real front end inside a child process; the monitor decides termination by a parser tick budget (hook H5), tree completeness by a nil-safe dump, error type/code/position by inspection and the rendered message by comparing the quoted line with the physical lines of the input. Held on the inputs explored, not a proof over all character sequences.',
         'Trusts: the tick hook placement (token reads + block loops), the line splitter of the judge, Go runtime. Inputs the generators never produce are not covered.', '§6 C05'),
}
CHECKS['C10'] = ('exploration','runtime monitoring: child-process crash monitor over an enumerated member x receiver x argument space (Go API driver and one-call Zn programs); panic / nil-result / process-exit detector',
  'Every built-in member name found in the working tree is applied to every receiver of a pool covering all value types with boundary-value argument tuples, both directly on the Go element API and through generated Zn programs, inside recover() in a child process whose death is attributed through an on-disk journal. Held on the enumerated calls; exhaustive for arity<=1 (quick) / <=2 (thorough) over the pools.',
  'Trusts: string-literal scan finds all member names; pools represent the boundary classes. stdlib/http does not compile on this platform and is out of reach.', '§6 C10')
CHECKS['C17'] = ('fault_enumeration','runtime monitoring with fault enumeration: every block-boundary straddle, BOM variant and single-byte corruption fed to the real decoders; oracle = unicode/utf8',
  'The real FileStream/ByteStream decoders and LoadFile+Execute are driven over an enumerated fault space (every split offset at three block boundaries, every single-byte corruption of small programs, chunk sizes 1..17) and judged by the standard library decoder; marker programs make a silently truncated execution observable.',
  'Trusts: Go unicode/utf8 as the reference; files larger than 3 blocks sampled only.', '§6 C17')
NOT_YET = {}

def main():
    props=[json.loads(l) for l in open('properties.jsonl')]
    checks=[]; na=[]
    for p in props:
        i=p['id']
        if i in CHECKS:
            lvl,tech,text,note,ref=CHECKS[i]
            checks.append({
              'property_id':i,
              'quick_cmd':'./check.sh %s quick'%i,
              'thorough_cmd':'./check.sh %s thorough'%i,
              'evidence_file':'evidence/%s.json'%i,
              'replay_cmd_template':'./check.sh %s --replay {path}'%i,
              'engine':'zncheck',
              'level_claimed':{'category':lvl,'text':text,'design_ref':ref},
              'level_note':note,
              'technique':tech})
        else:
            na.append({'property_id':i,'reason':NOT_YET.get(i,'check not built yet in this round (runtime-monitoring design in DESIGN.md §6); will be claimed once its monitor is silent on the unchanged tree')})
    m={'version':1,
       'setup_cmd':'./setup.sh',
       'hooks':{'guard':'verif','enable':'go build -tags verif (the worker/harness binaries are rebuilt from /repo on every check)',
                'baseline_off_cmd':'/verif/baseline_off.sh',
                'source_commits':[l.split()[0] for l in hooks_commits],
                'add_only':True},
       'engines':[{'name':'zncheck','path':'cmd/zncheck','serves_properties':sorted(CHECKS),'kind_free_text':'judge: generators, reference models, oracles, evidence; never imports /repo'},
                  {'name':'znworker','path':'worker','serves_properties':sorted(CHECKS),'kind_free_text':'child process linking /repo with -tags verif; executes commands and reports observations'}],
       'checks':checks,
       'not_applicable':na,
       'notes':'Technique family: runtime monitoring. See DESIGN.md. known_findings.json lists genuine defects recorded rather than repaired and the fix: commits.'}
    json.dump(m,open('MANIFEST.json','w'),indent=1,ensure_ascii=False)
    print('checks:',len(checks),'not_applicable:',len(na))
main()
