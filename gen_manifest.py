#!/usr/bin/env python3
# Regenerates MANIFEST.json from the table below (kept next to the checks so that the
# manifest is always in step with what is actually registered).
import json, subprocess

hooks_commits = subprocess.run(['git','-C','/repo','log','--format=%H %s','--grep=^verif hook'],capture_output=True,text=True).stdout.strip().splitlines()

CHECKS = {
 # id: (level, technique, level text, note, design_ref)
 'C05': ('exploration','runtime monitoring: parser/printer run on truncations, mutations and bounded-exhaustive short inputs under a logical tick budget; oracle on the returned tree/error/rendering',
         'Every generated input is parsed by the real front end inside a child process; the monitor decides termination by a parser tick budget (hook H5), tree completeness by a nil-safe dump, error type/code/position by inspection and the rendered message by comparing the quoted line with the physical lines of the input. Held on the inputs explored, not a proof over all character sequences.',
         'Trusts: the tick hook placement (token reads + block loops), the line splitter of the judge, Go runtime. Inputs the generators never produce are not covered.', '§6 C05'),
}
CHECKS['C10'] = ('exploration','runtime monitoring: child-process crash monitor over an enumerated member x receiver x argument space (Go API driver and one-call Zn programs); panic / nil-result / process-exit detector',
  'Every built-in member name found in the working tree is applied to every receiver of a pool covering all value types with boundary-value argument tuples, both directly on the Go element API and through generated Zn programs, inside recover() in a child process whose death is attributed through an on-disk journal. Held on the enumerated calls; exhaustive for arity<=1 (quick) / <=2 (thorough) over the pools.',
  'Trusts: string-literal scan finds all member names; pools represent the boundary classes. stdlib/http does not compile on this platform and is out of reach.', '§6 C10')
CHECKS['C17'] = ('fault_enumeration','runtime monitoring with fault enumeration: every block-boundary straddle, BOM variant and single-byte corruption fed to the real decoders; oracle = unicode/utf8',
  'The real FileStream/ByteStream decoders and LoadFile+Execute are driven over an enumerated fault space (every split offset at three block boundaries, every single-byte corruption of small programs, chunk sizes 1..17) and judged by the standard library decoder; marker programs make a silently truncated execution observable.',
  'Trusts: Go unicode/utf8 as the reference; files larger than 3 blocks sampled only.', '§6 C17')
REF=('exploration','Generated programs run on the real interpreter in a child process; result, ordered display trace and error class/code are compared with an independent reference evaluator (znref) that implements the manual/property semantics and refuses to judge what they leave open; non-termination is decided by an evaluator tick budget (hook H4). Held on the generated cases (counts in the evidence), not a proof over all programs.',
     'Trusts: the reference evaluator and renderer in /verif/internal/znref (validated by mutation drills, DESIGN §9); cases marked unspecified are skipped and counted; display compared atom-wise.')
CHECKS['C01'] = (REF[0],'runtime monitoring: differential execution against an independent reference evaluator over bounded-exhaustive operator x boundary-value pairs, unbraced operator sequences and random expression trees with order probes', REF[1], REF[2], '§6 C01')
CHECKS['C02'] = (REF[0],'runtime monitoring: differential execution (result + display trace) against the reference evaluator over exhaustive transfer-statement placements and random control-flow programs; logical tick budget for termination', REF[1], REF[2], '§6 C02')
CHECKS['C06'] = (REF[0],'runtime monitoring: symbol-table history checker against a stack-of-maps model (bounded exhaustive + random), probe-program families and random programs against the reference evaluator, quiescent-point invariant on scope depth / call stack via hooks', REF[1], REF[2]+' Hook H3 exposes scope depth and call-stack length read-only.', '§6 C06')
CHECKS['C07'] = (REF[0],'runtime monitoring: generated copy/mutation histories with the state of every variable displayed after each step, judged by a reference heap model', REF[1], REF[2], '§6 C07')
CHECKS['C08'] = (REF[0],'runtime monitoring: differential execution against the reference evaluator over arity x argument-count families with evaluation-order probes, object families, deep recursion and random method/type programs', REF[1], REF[2], '§6 C08')
CHECKS['C09'] = (REF[0],'runtime monitoring: differential execution against the reference evaluator over raise-kind x call-depth x handler-placement families and random programs, plus quiescent-point invariants (call stack empty, scope depth 0) observed through hooks', REF[1], REF[2], '§6 C09')
CHECKS['C12'] = ('exploration','runtime monitoring: history checker over the element API (returned value, whole state and key-order invariant after every step, against a sequence / ordered-map model; bounded-exhaustive + random) and the same histories as Zn programs against the reference evaluator', 'List and dictionary operation histories are applied to the real value objects and through the evaluator; after every step the observable state is compared with a small executable model. Exhaustive for histories up to length 3/4 over the operation alphabet, random beyond.', 'Trusts: the sequence/ordered-map model in c12.go and znref; operations the documentation leaves open are not judged (listed in the evidence rule).', '§6 C12')
CHECKS['C14'] = ('exploration','runtime monitoring: text operations over all index pairs against a code-point model; % formatting against an independent reference formatter (Python % operator)', 'Every index pair of 取样 around the valid range is applied to texts with multi-byte, astral and combining characters and compared with a code-point model; templates mixing literal text and the documented directives are formatted by the interpreter and compared with Python; malformed templates must be errors.', 'Trusts: Python 3 % formatting and Go unicode/utf8; undocumented directive combinations and non-finite numbers are exercised for crash-freedom only.', '§6 C14')
CHECKS['C19'] = ('exploration','runtime monitoring: differential testing of 生成JSON / 解析JSON against Python json (independent RFC 8259 implementation), including every single-character corruption of small documents', 'Generated JSON text is parsed by Python and compared structurally; documents encoded by Python are parsed by the interpreter and compared including key order; corrupt documents must raise an exception that a 拦截 handler catches exactly when Python rejects them.', 'Trusts: Python 3 json module; overflowing literals, lone surrogates and non-object top levels are not judged.', '§6 C19')
CHECKS['C04'] = ('exploration','runtime monitoring: exhaustive code-point sweep of the identifier alphabet against the table, bounded-exhaustive enumeration of numeric-looking strings against the documented form with math/big values, generate-and-recover token sequences and a greedy reference segmenter for the lexer', 'Alphabet membership is exhaustive over all code points; the numeric recogniser is enumerated over all strings up to length 5/7 of an 11-symbol alphabet (beyond its 12 states) plus prefix x suffix products; segmentation is explored with generated token sequences rendered with minimal separators.', 'Trusts: keyword spellings/type codes transcribed from the manual and public constants; math/big for decimal to double; the separator rules of the generator (DESIGN Appendix B).', '§6 C04')
CHECKS['C13'] = ('exploration','runtime monitoring: round-trip oracle (encoder with free choice among rule-conformant spellings -> lexer -> same text) and a three-valued reference decoder over a bounded-exhaustive critical alphabet', 'Forward: random texts are written as literals in all five quote spellings with randomly chosen conformant escapes and must read back exactly (token level and through 输出). Reverse: all strings up to length 3/4 over 28 critical symbols are decoded by a reference decoder that declares a case unspecified when defensible readings of the rules differ.', 'Trusts: the reference decoder in c13.go (four readings of the catch-all backtick rule must agree for a case to be judged).', '§6 C13')
CHECKS['C11'] = ('exploration','runtime monitoring: repetition monitor (same program executed N times in one process, outcomes compared) over a corpus aimed at every hash-map iteration site, with a canary that shows map-order randomisation was live', 'Each program is executed 40 (quick) / 300 (thorough) times in one process and every repetition must give the identical result, display trace and error text; the corpus has one family per range-over-map site of the interpreter (dictionary equality, JSON decode, import-all, input expressions, request headers) plus samples of the generated corpora.', 'Trusts: Go map iteration order is re-randomised per range statement (canary in evidence). Sites not reached by the corpus are not decided.', '§6 C11')
CHECKS['C16'] = ('exploration','runtime monitoring: (a) sequential pollution monitor - probe outcomes after polluter sequences compared with outcomes in pristine processes; (b) Go race detector plus response/token matching while goroutines drive the real HTTP handlers concurrently', 'All single polluters x all probes and random polluter sequences are run in fresh processes with shared and separate Interpreter objects; concurrent executions are driven through the real handlers under the race detector with each request returning its own token.', 'Trusts: the Go race detector (reports only executed interleavings); the synthetic library registered through SetExternalLibs stands in for library types because stdlib/http does not compile on this platform.', '§6 C16')
CHECKS['C15'] = (REF[0],'runtime monitoring: bounded-exhaustive enumeration of module dependency digraphs materialised as real .zn directories, outcome (marker trace, result, error code) compared with the module model of the reference evaluator; tick budget for hangs', REF[1], REF[2]+' Exhaustive over all digraphs on main+2 (quick) / main+3 (thorough) modules; larger graphs sampled.', '§6 C15')
CHECKS['C18'] = (REF[0],'runtime monitoring: fault-planting generator with renderer-recorded physical lines; the rendered error text is parsed and compared with the reference call stack at the fault (runtime) and with the planted offset (syntax, incl. caret column)', REF[1], REF[2]+' Display widths: ASCII 1, CJK/full-width 2; other characters before the caret make the column unjudged.', '§6 C18')
CHECKS['C03'] = ('exploration','runtime monitoring: generate-and-recover oracle for the parser (tree -> licensed layouts -> parse -> canonical dump == prescribed tree), metamorphic comparison across layouts, and completeness check of trees accepted after token-level corruption', 'Random syntax trees over every statement kind and expression form are rendered under the canonical and several random layout vectors; the real parser must return exactly the prescribed tree for each and the same tree for all layouts; corrupted renderings that are accepted must yield complete trees.', 'Trusts: the renderer (which layouts are licensed: DESIGN Appendix B) and the expected-dump mapping in znref/dump.go; empty statements produced by ； are not compared (the BNF lists ； both as statement and separator).', '§6 C03')
NOT_YET = {'C20': 'check not built yet in this round (prefork master monitored at the process boundary with exec-delay injection: DESIGN §6 C20)'}

def main():
    props=[json.loads(l) for l in open('properties.jsonl')]
    checks=[]; na=[]
    for p in props:
        i=p['id']
        if i in CHECKS:
            lvl,tech,text,note,ref=CHECKS[i]
            checks.append({
              'property_id':i,
              'quick_cmd':'./check.sh %s quick'%i,
              'thorough_cmd':'./check.sh %s thorough'%i,
              'evidence_file':'evidence/%s.json'%i,
              'replay_cmd_template':'./check.sh %s --replay {path}'%i,
              'engine':'zncheck',
              'level_claimed':{'category':lvl,'text':text,'design_ref':ref},
              'level_note':note,
              'technique':tech})
        else:
            na.append({'property_id':i,'reason':NOT_YET.get(i,'check not built yet in this round (runtime-monitoring design in DESIGN.md §6); will be claimed once its monitor is silent on the unchanged tree')})
    m={'version':1,
       'setup_cmd':'./setup.sh',
       'hooks':{'guard':'verif','enable':'go build -tags verif (the worker/harness binaries are rebuilt from /repo on every check)',
                'baseline_off_cmd':'/verif/baseline_off.sh',
                'source_commits':[l.split()[0] for l in hooks_commits],
                'add_only':True},
       'engines':[{'name':'zncheck','path':'cmd/zncheck','serves_properties':sorted(CHECKS),'kind_free_text':'judge: generators, reference models, oracles, evidence; never imports /repo'},
                  {'name':'znworker','path':'worker','serves_properties':sorted(CHECKS),'kind_free_text':'child process linking /repo with -tags verif; executes commands and reports observations'}],
       'checks':checks,
       'not_applicable':na,
       'notes':'Technique family: runtime monitoring. See DESIGN.md. known_findings.json lists genuine defects recorded rather than repaired and the fix: commits.'}
    json.dump(m,open('MANIFEST.json','w'),indent=1,ensure_ascii=False)
    print('checks:',len(checks),'not_applicable:',len(na))
main()
