#!/usr/bin/env python3
"""Independent oracle used by the judge: Python's json module (RFC 8259 reference) and
Python's % formatting. Protocol: one JSON request per line on stdin, one JSON reply per line.
Values travel in a tagged form that does not involve a JSON encoder for the payload itself:
  {"t":"num","bits":<uint64>} {"t":"text","r":[bytes]} {"t":"bool","b":..} {"t":"null"}
  {"t":"list","items":[..]} {"t":"dict","keysr":[[bytes]..],"items":[..]}
"""
import sys, json, struct, math, unicodedata

def f2bits(f):
    return struct.unpack('<Q', struct.pack('<d', f))[0]

def bits2f(b):
    return struct.unpack('<d', struct.pack('<Q', b))[0]

def enc(v):
    if v is None:
        return {"t": "null"}
    if isinstance(v, bool):
        return {"t": "bool", "b": v}
    if isinstance(v, (int, float)):
        return {"t": "num", "bits": f2bits(float(v))}
    if isinstance(v, str):
        return {"t": "text", "r": list(v.encode('utf-8', 'surrogatepass'))}
    if isinstance(v, list):
        return {"t": "list", "items": [enc(x) for x in v]}
    if isinstance(v, dict):
        return {"t": "dict", "keysr": [list(k.encode('utf-8', 'surrogatepass')) for k in v], "items": [enc(x) for x in v.values()]}
    raise ValueError(type(v))

def dec(t):
    k = t["t"]
    if k == "null":
        return None
    if k == "bool":
        return bool(t.get("b", False))
    if k == "num":
        return bits2f(t.get("bits", 0))
    if k == "text":
        return bytes(t.get("r") or []).decode('utf-8')
    if k == "list":
        return [dec(x) for x in (t.get("items") or [])]
    if k == "dict":
        d = {}
        for kk, vv in zip(t.get("keysr") or [], t.get("items") or []):
            d[bytes(kk).decode('utf-8')] = dec(vv)
        return d
    raise ValueError(k)

def flags(v):
    """properties of a parsed value that make the comparison unspecified"""
    out = set()
    def walk(x):
        if isinstance(x, float):
            if math.isinf(x) or math.isnan(x):
                out.add("nonfinite")
        elif isinstance(x, int) and not isinstance(x, bool):
            if abs(x) > 2**53:
                out.add("bigint")
        elif isinstance(x, str):
            if any(0xD800 <= ord(c) <= 0xDFFF for c in x):
                out.add("surrogate")
        elif isinstance(x, list):
            for y in x: walk(y)
        elif isinstance(x, dict):
            for k, y in x.items():
                walk(k); walk(y)
    walk(v)
    return sorted(out)

def reject_constant(c):
    raise ValueError("constant " + c)

def handle(req):
    op = req["op"]
    if op == "ping":
        return {"ok": True, "version": sys.version}
    if op == "json_loads":
        out = []
        for raw in req["docs"]:
            try:
                text = bytes(raw).decode('utf-8')
            except UnicodeDecodeError:
                out.append({"ok": False, "why": "not utf-8", "skip": True})
                continue
            try:
                dups = []
                def hook(pairs):
                    d = {}
                    for k, v in pairs:
                        if k in d: dups.append(k)
                        d[k] = v
                    return d
                v = json.loads(text, parse_constant=reject_constant, parse_int=float, object_pairs_hook=hook)
                out.append({"ok": True, "top": type(v).__name__, "flags": flags(v) + (["dupkeys"] if dups else []), "value": enc(v)})
            except (ValueError, RecursionError) as e:
                out.append({"ok": False, "why": str(e)[:80]})
        return {"results": out}
    if op == "json_dumps":
        out = []
        for item in req["items"]:
            v = dec(item["value"])
            kw = item.get("opts", {})
            text = json.dumps(v, ensure_ascii=kw.get("ascii", True), indent=kw.get("indent"), separators=tuple(kw["seps"]) if kw.get("seps") else None, allow_nan=False)
            out.append(list(text.encode('utf-8')))
        return {"docs": out}
    if op == "fmt":
        out = []
        for item in req["items"]:
            x = bits2f(item["bits"])
            try:
                out.append(item["spec"] % x)
            except Exception as e:
                out.append(None)
        return {"strs": out}
    if op == "width":
        out = []
        for s in req["strs"]:
            w = 0
            amb = False
            for ch in s:
                ea = unicodedata.east_asian_width(ch)
                if ea in ('W', 'F'): w += 2
                elif ea == 'A': amb = True; w += 1
                elif unicodedata.combining(ch) or unicodedata.category(ch) in ('Mn', 'Me', 'Cf'): amb = True
                else: w += 1
            out.append([w, amb])
        return {"widths": out}
    return {"error": "unknown op"}

def main():
    for line in sys.stdin:
        line = line.strip()
        if not line:
            continue
        try:
            rep = handle(json.loads(line))
        except Exception as e:
            rep = {"error": repr(e)}
        sys.stdout.write(json.dumps(rep) + "\n")
        sys.stdout.flush()

if __name__ == '__main__':
    main()
