// maprange lists every `for … range m` in the given package directories of the repository whose
// operand is a Go map. It is an aiming aid for C11 (which sites could make an execution depend
// on map order); the deciding step remains the repetition monitor. Standard library only.
// usage: maprange <repo root> <pkg dir>...   (run with the repo root as working directory)
package main

import (
	"fmt"
	"go/ast"
	"go/build"
	"go/importer"
	"go/parser"
	"go/token"
	"go/types"
	"os"
	"path/filepath"
	"sort"
	"strings"
)

func main() {
	root := os.Args[1]
	os.Chdir(root)
	fset := token.NewFileSet()
	ctx := build.Default
	ctx.BuildTags = []string{"verif"}
	imp := importer.ForCompiler(fset, "source", nil)
	out := []string{}
	for _, dir := range os.Args[2:] {
		bp, err := ctx.ImportDir(filepath.Join(root, dir), 0)
		if err != nil {
			fmt.Fprintln(os.Stderr, "skip", dir, err)
			continue
		}
		files := []*ast.File{}
		for _, name := range bp.GoFiles {
			f, err := parser.ParseFile(fset, filepath.Join(root, dir, name), nil, 0)
			if err != nil {
				fmt.Fprintln(os.Stderr, err)
				os.Exit(2)
			}
			files = append(files, f)
		}
		info := &types.Info{Types: map[ast.Expr]types.TypeAndValue{}}
		conf := types.Config{Importer: imp, Error: func(error) {}}
		conf.Check(bp.ImportPath, fset, files, info)
		for _, f := range files {
			fn := ""
			ast.Inspect(f, func(n ast.Node) bool {
				switch x := n.(type) {
				case *ast.FuncDecl:
					fn = x.Name.Name
				case *ast.RangeStmt:
					t := info.TypeOf(x.X)
					if t == nil {
						return true
					}
					if _, ok := t.Underlying().(*types.Map); ok {
						pos := fset.Position(x.Pos())
						out = append(out, fmt.Sprintf("%s:%d %s range %s", strings.TrimPrefix(pos.Filename, root+"/"), pos.Line, fn, types.ExprString(x.X)))
					}
				}
				return true
			})
		}
	}
	sort.Strings(out)
	for _, l := range out {
		fmt.Println(l)
	}
}
