package main

import (
	"fmt"
	"strings"

	. "verif/internal/proto"
)

func init() { register("C16", "exploration", checkC16) }

type c16Prog struct {
	name string
	src  string
	libs bool
	kind string // "" = Execute, "pg" = through the playground handler, "varinput" = ExecVarInputText only
	varInput string
}

func c16Polluters() []c16Prog {
	ps := []c16Prog{}
	add := func(n, s string) { ps = append(ps, c16Prog{name: n, src: s, libs: true}) }
	add("数值-自增", "以数值（自增：5）\n输出数值\n")
	add("数值-自减", "以数值（自减：3）\n输出数值\n")
	add("数值-自增-huge", "以数值（自增：1*10^300）\n以数值（自增：1*10^300）\n")
	add("数值-property-write", "数值之文本 = “x”\n")
	add("数值-assign", "数值 = 7\n")
	add("数值-redeclare", "令数值 = 7\n输出数值\n")
	add("异常-ctor", "如何新建异常？\n\t输入文\n\t其内容 = “hijacked”\n输出（新建异常：“x”）之内容\n")
	add("异常-ctor-noarg", "如何新建异常？\n\t输出 1\n令物 =（新建异常）\n")
	add("异常-redefine-type", "定义异常：\n\t其内容 = “fake”\n输出 1\n")
	add("异常-property-write", "异常之内容 = “x”\n")
	add("显示-redefine", "如何显示？\n\t输入甲\n\t输出 甲\n（显示：1）\n")
	add("显示-assign", "显示 = 1\n")
	add("取随机数-redefine", "如何取随机数？\n\t输出 4\n输出（取随机数）\n")
	add("真-assign", "真 = 假\n")
	add("真-redeclare", "令真 = 假\n输出真\n")
	add("空-method", "以空（写入：“a”、1）\n")
	add("真-method", "以真（自增：1）\n")
	add("lib-ctor", "导入《@样品库》\n如何新建样品？\n\t输入甲\n\t其计数 = 1000\n输出（新建样品：1）之计数\n")
	// the same through aliases: a local name bound to the library's type, the constructor declared
	// where the alias is already visible (a method body, a branch, a loop)
	add("lib-ctor-alias-in-method", "导入《@样品库》\n令型 = 样品\n如何改？\n\t如何新建型？\n\t\t输入甲\n\t\t其计数 = 2000\n\t输出 1\n（改）\n输出（新建样品：1）之计数\n")
	add("lib-ctor-alias-in-branch", "导入《@样品库》\n令型 = 样品\n如果 真：\n\t如何新建型？\n\t\t输入甲\n\t\t其计数 = 3000\n输出（新建样品：1）之计数\n")
	add("lib-ctor-alias-toplevel", "导入《@样品库》\n令型 = 样品\n如何新建型？\n\t输入甲\n\t其计数 = 4000\n输出（新建样品：1）之计数\n")
	add("lib-ctor-alias-param", "导入《@样品库》\n如何改？\n\t输入型\n\t如何新建型？\n\t\t输入甲\n\t\t其计数 = 5000\n\t输出 1\n（改：样品）\n输出（新建样品：1）之计数\n")
	add("lib-ctor-alias-list", "导入《@样品库》\n令表 = 【样品】\n以型遍历表：\n\t如何新建型？\n\t\t输入甲\n\t\t其计数 = 6000\n输出（新建样品：1）之计数\n")
	add("lib-method-alias", "导入《@样品库》\n令型 = 样品\n定义型：\n\t其计数 = 7000\n输出（新建样品）之计数\n")
	// the repository's HTTP types exported by a library: whatever one execution does to the
	// objects it constructed must stay with that execution
	add("http-resp-header-write-text", "导入《@样品库》\n令应 =（新建HTTP响应：200、“ok”）\n应之头部#“Set-Cookie” = “session=alice”\n输出应之头部\n")
	add("http-resp-header-write-json", "导入《@样品库》\n令应 =（新建HTTP响应：200、【1，2】）\n以应之头部（写入：“X-Trace”、“p1”）\n输出应之头部\n")
	add("http-resp-header-write-other", "导入《@样品库》\n令应 =（新建HTTP响应：201、真）\n以应之头部（写入：“X-K”、“v”）\n以应之头部（移除：“Content-Type”）\n输出应之头部\n")
	add("http-resp-noctor-mutation", "导入《@样品库》\n令应 =（新建HTTP响应：200、“a”、【“H” = “1”】）\n以应之头部（写入：“H2”、“2”）\n应之状态码 = 500\n输出应之头部\n")
	add("http-resp-type-write", "导入《@样品库》\nHTTP响应之头部 = 【“X” = “1”】\n")
	add("http-resp-ctor", "导入《@样品库》\n如何新建HTTP响应？\n\t输入甲、乙\n\t其状态码 = 999\n输出（新建HTTP响应：1、“x”）之状态码\n")
	add("http-resp-ctor-alias", "导入《@样品库》\n如何改？\n\t输入型\n\t如何新建型？\n\t\t输入甲、乙\n\t\t其状态码 = 999\n\t输出 1\n（改：HTTP响应）\n输出（新建HTTP响应：1、“x”）之状态码\n")
	add("lib-instance-mutation", "导入《@样品库》\n令物 =（新建样品）\n以物之清单（后增：9）\n物之表#“乙” = 2\n以物（累加）\n以物（累加）\n输出物之清单\n")
	add("lib-type-property-write", "导入《@样品库》\n样品之清单 = 【】\n")
	add("lib-function-redefine", "导入《@样品库》\n如何取常数？\n\t输出 -1\n输出（取常数）\n")
	add("lib-json-redefine", "导入《@JSON》\n如何解析JSON？\n\t输入文\n\t输出 0\n")
	add("json-use", "导入《@JSON》\n令回 =（解析JSON：“{\\\"a\\\":[1,2,{\\\"b\\\":null}]}”）\n以回#“a”（后增：4）\n输出（生成JSON：回）\n")
	add("unfinished-calls", "如何深？\n\t输入层\n\t如果层 <= 0：\n\t\t抛出异常：“底”！\n\t输出（深：层 - 1）\n输出（深：30）\n")
	add("unfinished-runtime-error", "如何深？\n\t输入层\n\t如果层 <= 0：\n\t\t输出 1 / 0\n\t输出（深：层 - 1）\n输出（深：30）\n")
	add("unfinished-in-method", "定义型：\n\t其数 = 1\n\n\t如何坏？\n\t\t令局 = 5\n\t\t输出 未名\n令物 =（新建型）\n以物（坏）\n")
	add("handled-then-continue", "如何坏？\n\t抛出异常：“x”！\n如何好？\n\t（坏）\n\t输出 1\n\n\t拦截异常：\n\t\t输出 2\n输出（好）\n")
	add("syntax-error", "如果：\n")
	add("declarations", "令甲 = 1\n令乙 = 【1，2】\n如何方法？\n\t输出 9\n定义型：\n\t其数 = 1\n输出 甲\n")
	add("string-atoi", "令文 = “1*^2”\n令数 = 以文（转换数值）\n输出 文\n")
	add("string-atoi-literal", "输出以“12*10^3”（转换数值）\n")
	add("deep-structures", "令甲 = 【1，【2，【3，【4】】】】\n令乙 = 甲\n以乙#2#2（后增：9）\n输出 甲\n")
	add("input-missing", "输入缺失变量\n输出 1\n")
	// library calls left unfinished: a generation / parse / constructor that fails half way (after
	// part of its output exists), with and without a handler
	add("json-generate-fails-midway-handled", "导入《@JSON》\n如何某事？\n\t输出 1\n如何试？\n\t输出（生成JSON：【“密码” = “secret-of-P”，“列” = 【1，2，3】，“方法” = 某事】）\n\n\t拦截异常：\n\t\t输出 0\n输出（试）\n")
	add("json-generate-fails-midway-uncaught", "导入《@JSON》\n定义型：\n\t其数 = 1\n输出（生成JSON：【“甲” = “leak-1”，“乙” = 【“丙” = （新建型）】】）\n")
	add("json-generate-fails-nonfinite", "导入《@JSON》\n令大 = 1*10^308 * 10\n输出（生成JSON：【“甲” = “leak-2”，“乙” = 【1，大】】）\n\n拦截异常：\n\t输出 0\n")
	add("json-parse-fails-midway", "导入《@JSON》\n输出（解析JSON：“{\\\"甲\\\":[1,2,{\\\"乙\\\":\\\"leak-3\\\"},”）\n\n拦截异常：\n\t输出 0\n")
	add("http-resp-content-unrepresentable", "导入《@样品库》\n如何某事？\n\t输出 1\n令应 =（新建HTTP响应：200、【“甲” = “leak-4”，“乙” = 某事】）\n\n拦截异常：\n\t输出 0\n")
	add("file-read-missing", "导入《@文件》\n输出（读取文件：“/不存在/的/文件”）\n\n拦截异常：\n\t输出 0\n")
	// the input-variable path (ExecVarInputText, as the playground handler uses it)
	pg := func(n, vi, src string) { ps = append(ps, c16Prog{name: n, src: src, libs: true, kind: "pg", varInput: vi}) }
	pg("pg-varinput-数值-自增", "乙 = 以数值（自增：5）", "输入乙\n输出乙\n")
	pg("pg-varinput-alias-数值", "丙 = 数值", "输入丙\n以丙（自增：3）\n输出丙\n")
	pg("pg-varinput-exception", "甲 =（新建异常：“x”）", "输入甲\n输出甲之内容\n")
	pg("pg-varinput-error", "甲 = 未名 + 1", "输入甲\n输出甲\n")
	pg("pg-varinput-list", "甲 = 【1，2】；乙 = 【“k” = 1】", "输入甲、乙\n以甲（后增：3）\n乙#“z” = 2\n输出甲\n")
	ps = append(ps, c16Prog{name: "varinput-数值-自减", kind: "varinput", varInput: "甲 = 以数值（自减：2）"})
	ps = append(ps, c16Prog{name: "varinput-数值-twice", kind: "varinput", varInput: "甲 = 以数值（自增：1）；乙 = 以数值（自增：1）"})
	return ps
}

func c16Probes() []c16Prog {
	qs := []c16Prog{}
	add := func(n, s string) { qs = append(qs, c16Prog{name: n, src: s, libs: true}) }
	add("数值-value", "输出数值\n")
	add("数值-add", "输出以数值（加：1）\n")
	add("数值-new", "令甲 =（新建数值：5）\n输出 甲 + 1\n")
	add("数值-text", "输出数值之文本\n")
	add("异常-new", "输出（新建异常：“msg”）之内容\n")
	add("异常-throw", "抛出异常：“boom”！\n\n拦截异常：\n\t输出其内容\n")
	add("异常-uncaught", "抛出异常：“boom”！\n")
	add("异常-arity", "令甲 =（新建异常）\n")
	add("异常-runtime-fault", "如何除？\n\t输出 1 / 0\n\n\t拦截异常：\n\t\t输出“caught”\n输出（除）\n")
	add("真假空", "（显示：真、假、空）\n输出 真 且 {空 为 空} 且 {假 不为 真}\n")
	add("显示", "（显示：“a”、1、【1，2】、【“k” = 1】）\n输出（显示：1）\n")
	add("取随机数-type", "令数 =（取随机数）\n输出 数 >= 0 且 数 < 1\n")
	add("names-free", "令甲 = 1\n令乙 = 2\n如何方法？\n\t输出 3\n定义型：\n\t其数 = 4\n输出 甲 + 乙 +（方法）+（新建型）之数\n")
	add("undefined-names", "输出 甲\n")
	add("undefined-method", "输出（方法）\n")
	add("undefined-type", "输出（新建型）\n")
	add("json-parse", "导入《@JSON》\n输出（解析JSON：“{\\\"a\\\":[1,2,{\\\"b\\\":null}],\\\"c\\\":\\\"d\\\"}”）\n")
	add("json-generate", "导入《@JSON》\n输出（生成JSON：【“a” = 【1，2】，“b” = 空，“c” = 【=】】）\n")
	add("json-generate-small", "导入《@JSON》\n输出（生成JSON：【“甲” = 1，“乙” = “二”】）\n")
	add("json-generate-in-list", "导入《@JSON》\n输出【（生成JSON：【“k” = 1】），（生成JSON：【“列” = 【】】）】\n")
	add("http-resp-new-text", "导入《@样品库》\n令应 =（新建HTTP响应：200、“t”）\n输出【应之状态码，应之头部，应之内容】\n")
	add("http-resp-new-json", "导入《@样品库》\n令应 =（新建HTTP响应：200、【“a” = 1】）\n输出【应之状态码，应之头部，应之内容】\n")
	add("http-resp-new-other", "导入《@样品库》\n令应 =（新建HTTP响应：404、空）\n输出【应之状态码，应之头部，应之内容】\n")
	add("lib-class-new", "导入《@样品库》\n令物 =（新建样品）\n输出【物之清单，物之表，物之计数，以物（累加）】\n")
	add("lib-class-new-args", "导入《@样品库》\n令物 =（新建样品：1）\n输出物之计数\n")
	add("lib-function", "导入《@样品库》\n输出（取常数）\n")
	add("lib-not-imported", "输出（取常数）\n")
	add("text-atoi", "令文 = “1*^2”\n（显示：以文（转换数值））\n输出 文\n")
	add("call-depth", "如何深？\n\t输入层\n\t如果层 <= 0：\n\t\t输出 0\n\t输出 1 +（深：层 - 1）\n输出（深：50）\n")
	add("this-outside", "输出其数\n")
	add("literal-fresh", "如何造？\n\t输出【1，2】\n令甲 =（造）\n以甲（后增：3）\n输出（造）\n")
	add("arith", "输出 7 | 2 + 7 % 3 * 2.5 - 1 / 4\n")
	add("error-position", "令甲 = 1\n令乙 = 甲 / 0\n")
	add("syntax-error", "令甲 = \n")
	qs = append(qs, c16Prog{name: "pg-varinput-数值", src: "输入甲\n输出甲\n", libs: true, kind: "pg", varInput: "甲 = 数值 + 1"})
	qs = append(qs, c16Prog{name: "pg-varinput-plain", src: "输入甲、乙\n输出甲 * 乙\n", libs: true, kind: "pg", varInput: "甲 = 28；乙 = 300"})
	qs = append(qs, c16Prog{name: "pg-no-varinput", src: "输出以数值（加：1）\n", libs: true, kind: "pg"})
	qs = append(qs, c16Prog{name: "varinput-数值", kind: "varinput", varInput: "甲 = 数值 + 1；乙 = 数值之文本"})
	qs = append(qs, c16Prog{name: "varinput-exception", kind: "varinput", varInput: "甲 =（新建异常：“m”）"})
	return qs
}

func c16Req(p c16Prog, shared bool) Req {
	switch p.kind {
	case "pg":
		return Req{Op: "pg", Src: Runes(p.src), Text: p.varInput, Shared: shared, EvalBudget: 100000}
	case "varinput":
		return Req{Op: "varinput", Text: p.varInput, EvalBudget: 100000, ParseBudget: 100000}
	}
	r := execReq(p.src)
	r.Libs = p.libs
	r.Shared = shared
	r.EvalBudget = 100000
	return r
}

func checkC16(c *Ctx) {
	c.rule = "(a3) a site (main file, module, nested module) executed repeatedly in one process while its files are replaced with a newer / the same / an older modification time and the same / another size: every execution yields what its own files say; (a) sequential isolation: probe battery Q (programs touching every predefined value, the library functions and a synthetic library type) is run in a pristine worker process (one fresh process per probe) and then, in one process, after polluter sequences P1..Pn (every mutating operation applicable to predefined / library values: 自增/自减 on 数值, constructor redefinition of 异常 and of a library type, method/property writes on predefined values, redefinitions, abandoned call stacks, imports, declarations, mutation of library instances; the same through input-variable texts and through the playground HTTP handler, whose VarInput is evaluated by ExecVarInputText), with a shared Interpreter / handler object and with fresh ones; every probe outcome (result, display, error text) must equal its pristine outcome. All single polluters x all probes exhaustively, random sequences of 2..8 polluters. (a2) descriptor conservation: a probe counting the process's open file descriptors never counts more after executions that load a main file and 40 modules than before. (b) concurrent isolation: see the race harness part of the rule below. distinct_nontrivial = distinct (polluter sequence, probe, interpreter sharing mode)"
	c.assumptions = []string{"the worker registers a synthetic library (a type with collection defaults and a method) through the public SetExternalLibs API because the libraries that build on this platform export only functions", "probes never call 取随机数 for its value"}
	rng := c.Rand("c16")
	pol := c16Polluters()
	probes := c16Probes()
	// pristine outcomes: one fresh process per probe
	pristine := make([]string, len(probes))
	c.Pool.Map(len(probes), func(i int) {
		resp := c.Pool.DoFresh(c16Req(probes[i], false))
		pristine[i] = resp.Outcome()
		c.Count("evaluations", 1)
	})
	for i, o := range pristine {
		if strings.HasPrefix(o, "died") || strings.HasPrefix(o, "timeout") || strings.HasPrefix(o, "panic") {
			c.Violation("pristine:"+probes[i].name+":x", "probe "+probes[i].name+" fails in a pristine process: "+clip(o, 300), map[string]interface{}{"req": c16Req(probes[i], false)})
		}
	}
	type seqCase struct {
		pols   []int
		shared bool
	}
	seqs := []seqCase{}
	for i := range pol {
		seqs = append(seqs, seqCase{[]int{i}, false}, seqCase{[]int{i}, true})
	}
	for i := 0; i < c.Pick(150, 6000); i++ {
		n := 2 + rng.Intn(7)
		s := seqCase{shared: rng.Intn(2) == 0}
		for k := 0; k < n; k++ {
			s.pols = append(s.pols, rng.Intn(len(pol)))
		}
		seqs = append(seqs, s)
	}
	c.Count("polluter_sequences", int64(len(seqs)))
	// each sequence runs in its own fresh process: polluters then all probes
	c.Pool.Map(len(seqs), func(si int) {
		s := seqs[si]
		batch := []Req{}
		names := []string{}
		for _, pi := range s.pols {
			batch = append(batch, c16Req(pol[pi], s.shared))
			names = append(names, pol[pi].name)
		}
		// probes in a rotated order so that probe/probe interactions vary too
		off := si % len(probes)
		order := []int{}
		for k := range probes {
			order = append(order, (k+off)%len(probes))
		}
		for _, qi := range order {
			batch = append(batch, c16Req(probes[qi], s.shared))
		}
		for i := range batch {
			batch[i].ID = i
		}
		req := Req{Op: "batch", Batch: batch}
		resp := c.Pool.DoFresh(req)
		seqName := strings.Join(names, " ; ")
		if resp.Kind != "ok" || len(resp.Batch) != len(batch) {
			c.Violation("sequence:crash:"+seqName, fmt.Sprintf("polluter sequence [%s] then probes: worker outcome %s %s", seqName, resp.Kind, clip(resp.Panic+resp.Stderr, 400)), map[string]interface{}{"req": req})
			return
		}
		for k, qi := range order {
			c.Eval()
			got := resp.Batch[len(s.pols)+k].Outcome()
			c.Nontrivial(fmt.Sprintf("%s|%s|%v", seqName, probes[qi].name, s.shared))
			if got != pristine[qi] {
				// minimal replay: the polluters + this probe
				rb := append(append([]Req{}, batch[:len(s.pols)]...), c16Req(probes[qi], s.shared))
				c.Violation(fmt.Sprintf("isolation:%s:%s/%v", probes[qi].name, seqName, s.shared),
					fmt.Sprintf("probe %q after [%s] (shared interpreter: %v):\n  observed: %s\n  pristine: %s\nprobe program:\n%s", probes[qi].name, seqName, s.shared, clip(got, 300), clip(pristine[qi], 300), probes[qi].src),
					map[string]interface{}{"reqs": []Req{{Op: "batch", Batch: rb}}, "expected": pristine[qi]})
			}
		}
	})
	c.Sample(map[string]interface{}{"polluters": []string{pol[0].name, pol[6].name}, "probe": probes[0].name, "pristine_outcome": clip(pristine[0], 100)})
	c.Sample(map[string]interface{}{"polluter_program": pol[6].src, "probe_program": probes[4].src, "pristine_outcome": clip(pristine[4], 100)})
	c16Descriptors(c)
	c16SourcesReplaced(c)
	checkC16Concurrent(c)
}

// c16SourcesReplaced: an execution runs the source files as they are when it starts. One process
// executes a site (main file + module + nested module) again and again while the files are replaced
// between the executions - with a newer, the same and an older modification time, with the same and
// a different size: every execution must yield what its own files say, i.e. what a fresh process
// yields for them. (Whatever an earlier execution read or remembered must not stand in for them.)
func c16SourcesReplaced(c *Ctx) {
	type ver struct {
		tag   string
		mtime int64
	}
	t0 := int64(1700000000)
	scripts := map[string][]ver{
		"same-mtime":       {{"甲", t0}, {"乙", t0}, {"丙", t0}},
		"older-mtime":      {{"v2", t0}, {"v1", t0 - 86400}, {"v0", t0 - 2*86400}},
		"newer-mtime":      {{"一", t0}, {"二", t0 + 5}, {"三", t0 + 86400}},
		"rollback":         {{"旧", t0}, {"新", t0 + 100}, {"旧", t0}, {"新", t0 + 100}},
		"same-size-same-mtime": {{"aa", t0}, {"bb", t0}, {"aa", t0}, {"cc", t0}},
		"mixed":            {{"p", t0}, {"q", t0 - 1}, {"r", t0 + 1}, {"s", t0}, {"p", t0}},
	}
	for _, shared := range []bool{false, true} {
		for _, name := range SortedKeys(scripts) {
			vs := scripts[name]
			batch := []Req{}
			want := []string{}
			for _, v := range vs {
				files := []File{
					{Path: "main.zn", Data: widen([]byte("导入“工具”\n输出【“主" + v.tag + "”，（取版本），（经手内层）】\n"))},
					{Path: "工具.zn", Data: widen([]byte("导入“库-内层”\n如何取版本？\n\t输出 “" + v.tag + "”\n如何经手内层？\n\t输出（取内层）\n"))},
					{Path: "库/内层.zn", Data: widen([]byte("如何取内层？\n\t输出 “内" + v.tag + "”\n"))},
				}
				batch = append(batch, Req{Op: "exec", Main: "main.zn", Files: files, Dir: name, Mtime: v.mtime, Shared: shared, EvalBudget: 100000, ParseBudget: 100000})
				want = append(want, fmt.Sprintf("list[text(%q),text(%q),text(%q)]", "主"+v.tag, v.tag, "内"+v.tag))
			}
			for i := range batch {
				batch[i].ID = i
			}
			req := Req{Op: "batch", Batch: batch}
			resp := c.Pool.DoFresh(req)
			if resp.Kind != "ok" || len(resp.Batch) != len(batch) {
				c.Violation("sources:crash:"+name, fmt.Sprintf("site %s executed %d times with replaced files: worker outcome %s %s", name, len(batch), resp.Kind, clip(resp.Panic+resp.Stderr, 300)), map[string]interface{}{"req": req})
				continue
			}
			for i, r := range resp.Batch {
				c.Eval()
				c.Count("executions_of_replaced_sources", 1)
				got := r.Kind
				if r.Kind == "value" && r.Val != nil {
					got = r.Val.String()
				}
				c.Nontrivial(fmt.Sprintf("sources|%s|%d|%v|%s", name, i, shared, r.Kind))
				if got != want[i] {
					c.Violation(fmt.Sprintf("sources:%s:%d/%v", name, i, shared), fmt.Sprintf("site %q, execution %d of %d in one process (files replaced before it, modification time %d; shared interpreter: %v): yields %s, but its files say %s", name, i+1, len(batch), vs[i].mtime, shared, clip(r.Outcome(), 200), want[i]), map[string]interface{}{"reqs": []Req{req}, "expected": want[i]})
				}
			}
		}
	}
}

// c16Descriptors: what an execution opens it gives back. A probe that counts the process's open
// file descriptors (读取目录 of /proc/self/fd) is run before and after executions that load a main
// file and 40 modules, all in one process: the count must be the same every time (descriptors left
// to the garbage collector make the probe's result depend on what ran before - and, with a low
// limit, make later executions fail with "module not found")
func c16Descriptors(c *Ctx) {
	files := []File{}
	var mainSrc strings.Builder
	for k := 0; k < 40; k++ {
		mainSrc.WriteString(fmt.Sprintf("导入“件%02d”\n", k))
		files = append(files, File{Path: fmt.Sprintf("件%02d.zn", k), Data: widen([]byte(fmt.Sprintf("如何法%02d？\n\t输出 %d\n", k, k)))})
	}
	mainSrc.WriteString("输出（法07）+（法39）\n")
	files = append([]File{{Path: "main.zn", Data: widen([]byte(mainSrc.String()))}}, files...)
	p := Req{Op: "exec", Main: "main.zn", Files: files, Libs: true, EvalBudget: 100000, ParseBudget: 100000}
	q := execReq("导入《@文件》\n输出（读取目录：“/proc/self/fd”）之长度\n")
	q.Libs = true
	batch := []Req{q, q, p, q, p, p, p, q, q}
	resp := c.Pool.DoFresh(Req{Op: "batch", Batch: batch})
	c.Eval()
	if resp.Kind != "ok" || len(resp.Batch) != len(batch) {
		c.Inconclusive("descriptor probe: worker outcome " + resp.Kind)
		return
	}
	counts := []string{}
	for i, r := range resp.Batch {
		if batch[i].Main != "" {
			if r.Kind != "value" || r.Val == nil || r.Val.String() != "num(46)" {
				c.Inconclusive("descriptor probe: the 40-module program did not run: " + r.Outcome())
				return
			}
			counts = append(counts, "P")
			continue
		}
		if r.Kind != "value" || r.Val == nil || r.Val.T != "num" {
			c.Inconclusive("descriptor probe: cannot count descriptors: " + r.Outcome())
			return
		}
		counts = append(counts, fmt.Sprint(r.Val.F()))
	}
	c.Nontrivial("descriptors|" + strings.Join(counts, ","))
	c.Count("descriptor_probes", 5)
	// (the harness process may close a descriptor of its own in between - the count may fall,
	// that is not Zn's doing; it must never have grown after executions that are over)
	low := -1.0
	for i, r := range resp.Batch {
		if batch[i].Main != "" {
			continue
		}
		n := r.Val.F()
		if low >= 0 && n > low {
			c.Violation("descriptors:leak", fmt.Sprintf("executions that are over left file descriptors open: %s (P = an execution loading a main file and 40 modules; numbers = what 读取目录(/proc/self/fd) 之长度 yields in the same process)", strings.Join(counts, " ")), map[string]interface{}{"reqs": []Req{{Op: "batch", Batch: batch}}})
			return
		}
		if low < 0 || n < low {
			low = n
		}
	}
}
