package main

import (
	"fmt"
	"math"
	"math/big"
	"math/rand"
	"strings"
	"unicode/utf8"

	. "verif/internal/proto"
)

func init() { register("C14", "exploration", checkC14) }

// (U+FFFD is a character like any other - and the one decoders hand back for garbage, so code that
// treats "RuneError" as "no character" loses it; NUL, a byte-order mark, U+2028, a noncharacter, the
// last code point and the encoding-length boundaries are here for the same reason)
var c14Chars = []string{"a", "b", "Z", "0", " ", "é", "ß", "中", "文", "字", "😀", "𠀀", "é", "한", "あ", "-", "，", "\n", "\uFFFD", "\x00", "\uFEFF", "\u2028", "\uFFFF", "\U0010FFFF", "\u0080", "\u07FF", "\u0800"}

func c14Text(r *rand.Rand, n int) string {
	var sb strings.Builder
	for i := 0; i < n; i++ {
		sb.WriteString(c14Chars[r.Intn(len(c14Chars))])
	}
	return sb.String()
}

type c14Fmt struct {
	tmpl     string
	args     []Val
	wantErr  bool
	want     string
	judged   bool
	family   string
}

// precSpelling: a precision is a run of digits; leading zeros do not change the number it writes
func precSpelling(r *rand.Rand, prec int) string {
	s := fmt.Sprint(prec)
	if r.Intn(4) == 0 {
		s = strings.Repeat("0", 1+r.Intn(3)) + s
	}
	return s
}

func checkC14(c *Ctx) {
	c.rule = "(0) 长度 / 字数 / 字符组 of a text variable read again after the number / list handed out was changed in place (自增 / 自减 / 后增 / 前增, through a copy, as an argument, as a literal item): equal to the first read and to the number of characters; (1) text operations through the element API: for texts over ASCII/CJK/astral/combining characters and U+FFFD, NUL, U+FEFF, U+2028, U+FFFF, U+10FFFF, the encoding-length boundaries U+0080 / U+07FF / U+0800, 长度 == 字数 == len(字符组) == number of code points; 取样(i,j) for every pair in [-(n+2), n+2]^2 (all pairs for n<=10, random beyond): inside 1<=i<=j<=n it must equal characters i..j of 字符组 joined, elsewhere any result must be valid UTF-8 (never half a character); every pair is repeated on a shadow text of equally many distinct one-byte characters and must select the same positions with the same outcome kind (counting must not depend on byte lengths); 分隔 then 拼接 with the same separator is the identity; 24 texts x 13 separators (1..4 bytes per character, shorter / as long as / longer than the text, overlapping patterns): the pieces are the stretches between the occurrences; the same laws through Zn programs; (2) formatting ‹template› % ‹list› through Zn programs: templates mixing literal text and the documented placeholders {} {#} {#.N} {#+} {#.N%} {#.NE} (N in 0..40 and up to 1000, also written with leading zeros) with doubles from a boundary pool and random; expected text built from Python %-formatting; {} must insert exactly what 显示 prints for a value of any kind (objects, types, methods, exceptions, nested collections); templates that must be errors (count mismatch, numeric directive on a non-number, unbalanced/nested braces, directive not starting with #, # followed by other characters, absurd precision). distinct_nontrivial = distinct (family, text shape / directive sequence, outcome)"
	c.assumptions = []string{"Python % formatting is the reference for the numeric directives", "{} is exercised with texts, booleans, 空 and small integers only (display spelling of doubles is unspecified)", "percent rendering is judged only where x*100 in double and exact decimal scaling agree"}
	rng := c.Rand("c14")
	py, err := startPyOracle(c.Root)
	if err != nil {
		c.Inconclusive(err.Error())
		return
	}
	defer py.close()

	// ---------------------------------------------------------------- (0) what a text hands out is a value
	// 长度 / 字数 / 字符组 are computed from the characters every time they are read: whatever a
	// program does in place to the number or list it was handed, the next read counts the characters
	{
		hc := []handCase{}
		for ti, t := range []string{"你好吗", "abc", "a😀b", "e\u0301x", "", "𠀀", "一二三四五六七八九十"} {
			for mi, mut := range []string{
				"以文之长度（自增：1）", "以文之字数（自减：2）", "以文之长度（自增：1）\n以文之长度（自增：1）", "以文之字符组（后增：“多”）", "以文之字符组（前增：“多”）",
				"令长 = 文之长度\n以长（自增：5）", "令组 = 文之字符组\n以组（后增：“多”）", "（加：文之长度）", "以项遍历【文之长度，文之字数】：\n\t以项（自增：1）", "以【文之长度】#1（自增：3）",
			} {
				src := "令文 = 输入文\n如何加？\n\t输入数\n\t以数（自增：7）\n\t输出 数\n" +
					"令前 = 【文之长度，文之字数，文之字符组，文】\n" + mut + "\n令后 = 【文之长度，文之字数，文之字符组，文】\n" +
					"输出【前 为 后，文之长度 == 文之字符组之长度，文之字数】\n"
				src = strings.ReplaceAll(src, "输入文", "“"+t+"”")
				hc = append(hc, handCase{fmt.Sprintf("t%d/m%d", ti, mi), src, fmt.Sprintf("list[bool(true),bool(true),num(%d)]", len([]rune(t)))})
			}
		}
		c.runHand("derived-text-values", hc)
	}

	// ---------------------------------------------------------------- (1) text operations
	texts := []string{"", "a", "你好", "😀", "a😀b", "éx", "你好，世界", "𠀀𠀁", "\uFFFD", "a\uFFFDb\uFFFD", "\x00\uFEFF\uFFFF"}
	for i := 0; i < c.Pick(150, 4000); i++ {
		texts = append(texts, c14Text(rng, 1+rng.Intn(c.Pick(10, 14))))
	}
	for i := 0; i < c.Pick(20, 500); i++ {
		texts = append(texts, c14Text(rng, 15+rng.Intn(60)))
	}
	type tjob struct {
		text  string
		pairs [][2]int
	}
	jobs := []tjob{}
	for _, t := range texts {
		n := utf8.RuneCountInString(t)
		j := tjob{text: t}
		if n <= 10 {
			for a := -(n + 2); a <= n+2; a++ {
				for b := -(n + 2); b <= n+2; b++ {
					j.pairs = append(j.pairs, [2]int{a, b})
				}
			}
		} else {
			for k := 0; k < 200; k++ {
				j.pairs = append(j.pairs, [2]int{rng.Intn(2*n+5) - (n + 2), rng.Intn(2*n+5) - (n + 2)})
			}
			for a := 1; a <= n; a += 3 {
				j.pairs = append(j.pairs, [2]int{a, n}, [2]int{1, a}, [2]int{a, a})
			}
		}
		jobs = append(jobs, j)
	}
	reqs := make([]Req, len(jobs))
	for i, j := range jobs {
		rv := Text(j.text)
		steps := []Step{{Kind: "get", Name: "长度"}, {Kind: "get", Name: "字数"}, {Kind: "get", Name: "字符组"}}
		for _, p := range j.pairs {
			steps = append(steps, Step{Kind: "call", Name: "取样", Args: []Val{Num(float64(p[0])), Num(float64(p[1]))}})
		}
		reqs[i] = Req{Op: "api", Recv: &rv, Steps: steps, Mode: "nostate"}
	}
	sliceOutcome := make([][]string, len(jobs)) // per job, per pair: "err" | "ok:<result>" (for the shadow comparison below)
	c.runBatches(reqs, 20, func(i int, req *Req, resp *Resp) {
		j := jobs[i]
		rs := []rune(j.text)
		n := len(rs)
		key := fmt.Sprintf("%q", j.text)
		rp := map[string]interface{}{"req": req}
		if resp.Kind != "ok" || len(resp.Steps) != 3+len(j.pairs) {
			c.Violation("textops:outcome:"+key, fmt.Sprintf("text %s: worker outcome %s %s", key, resp.Kind, clip(resp.Panic+resp.Stderr, 300)), rp)
			return
		}
		so := make([]string, len(j.pairs))
		for k := range j.pairs {
			st := resp.Steps[3+k]
			so[k] = st.Kind
			if st.Kind == "ok" && st.Val.T == "text" {
				so[k] = "ok:" + st.Val.S()
			}
		}
		c.mu.Lock()
		sliceOutcome[i] = so
		c.mu.Unlock()
		c.Count("evaluations", int64(len(resp.Steps)))
		for k := 0; k < 2; k++ {
			s := resp.Steps[k]
			if s.Kind != "ok" || s.Val.T != "num" || s.Val.F() != float64(n) {
				c.Violation("textops:length:"+key, fmt.Sprintf("%s of %s is not %d: %v", req.Steps[k].Name, key, n, s.Val), rp)
			}
		}
		ca := resp.Steps[2]
		okCA := ca.Kind == "ok" && ca.Val.T == "list" && len(ca.Val.Items) == n
		if okCA {
			for k, it := range ca.Val.Items {
				if it.T != "text" || it.S() != string(rs[k]) {
					okCA = false
				}
			}
		}
		if !okCA {
			c.Violation("textops:chars:"+key, fmt.Sprintf("字符组 of %s is not its %d characters: %v", key, n, ca.Val), rp)
		}
		for k, p := range j.pairs {
			s := resp.Steps[3+k]
			a, b := p[0], p[1]
			inside := a >= 1 && a <= b && b <= n
			c.Nontrivial(fmt.Sprintf("slice|%d|%d|%d|%v|%s", n, a, b, inside, s.Kind))
			switch s.Kind {
			case "ok":
				if s.Val.T != "text" {
					c.Violation("textops:slice-type:"+key, fmt.Sprintf("取样(%d,%d) of %s returned %s", a, b, key, s.Val.String()), rp)
					continue
				}
				got := s.Val.S()
				if inside {
					want := string(rs[a-1 : b])
					if got != want {
						c.Violation(fmt.Sprintf("textops:slice:%s/%d/%d", key, a, b), fmt.Sprintf("以%s（取样：%d、%d） returned %q, expected characters %d..%d = %q", key, a, b, got, a, b, want), rp)
					}
				} else if utf8.ValidString(j.text) && !utf8.ValidString(got) {
					c.Violation(fmt.Sprintf("textops:slice-split:%s/%d/%d", key, a, b), fmt.Sprintf("以%s（取样：%d、%d） returned %q, which splits a character", key, a, b, got), rp)
				}
			case "err":
				if inside {
					c.Violation(fmt.Sprintf("textops:slice-err:%s/%d/%d", key, a, b), fmt.Sprintf("以%s（取样：%d、%d） failed (%s) although 1<=i<=j<=%d", key, a, b, s.Err.Msg, n), rp)
				}
			default:
				c.Violation(fmt.Sprintf("textops:slice-%s:%s/%d/%d", s.Kind, key, a, b), fmt.Sprintf("以%s（取样：%d、%d）: %s %s", key, a, b, s.Kind, clip(s.Panic, 200)), rp)
			}
		}
	})
	// "count characters consistently": what 取样 does with a pair of positions - also negative
	// and out-of-range ones, whose meaning the statement does not fix - may depend on the number of
	// characters only, never on how many bytes they take. Each text is sliced again as a shadow
	// of equally many distinct one-byte characters; outcome kind and the selected positions
	// must agree for every pair.
	sreqs := []Req{}
	sjobs := []int{}
	for i, j := range jobs {
		n := utf8.RuneCountInString(j.text)
		if n < 1 || n > 90 || !utf8.ValidString(j.text) {
			continue
		}
		sh := make([]rune, n)
		for k := range sh {
			sh[k] = rune(33 + k)
		}
		steps := []Step{}
		for _, p := range j.pairs {
			steps = append(steps, Step{Kind: "call", Name: "取样", Args: []Val{Num(float64(p[0])), Num(float64(p[1]))}})
		}
		rv := Text(string(sh))
		sreqs = append(sreqs, Req{Op: "api", Recv: &rv, Steps: steps, Mode: "nostate"})
		sjobs = append(sjobs, i)
	}
	c.runBatches(sreqs, 20, func(si int, req *Req, resp *Resp) {
		i := sjobs[si]
		j := jobs[i]
		rs := []rune(j.text)
		c.mu.Lock()
		orig := sliceOutcome[i]
		c.mu.Unlock()
		if orig == nil || resp.Kind != "ok" || len(resp.Steps) != len(j.pairs) {
			return
		}
		for k, p := range j.pairs {
			st := resp.Steps[k]
			c.Eval()
			c.Count("shadow_slices_compared", 1)
			want := st.Kind
			if st.Kind == "ok" && st.Val.T == "text" {
				sub := []rune(st.Val.S())
				// the shadow's characters are distinct and increasing: the result names its positions
				okPos := true
				for x := range sub {
					if sub[x] < 33 || int(sub[x]-33) >= len(rs) || (x > 0 && sub[x] != sub[x-1]+1) {
						okPos = false
					}
				}
				if !okPos {
					continue
				}
				if len(sub) == 0 {
					want = "ok:"
				} else {
					start := int(sub[0] - 33)
					want = "ok:" + string(rs[start:start+len(sub)])
				}
			}
			if orig[k] != want {
				c.Violation(fmt.Sprintf("textops:slice-bytes:%q/%d/%d", j.text, p[0], p[1]),
					fmt.Sprintf("以%q（取样：%d、%d） -> %q, but the same positions on a text of %d one-byte characters select %q: the result depends on byte lengths, not on character counts", j.text, p[0], p[1], orig[k], len(rs), want),
					map[string]interface{}{"reqs": []Req{{Op: "api", Recv: reqs[i].Recv, Steps: []Step{reqs[i].Steps[3+k]}, Mode: "nostate"}, {Op: "api", Recv: req.Recv, Steps: []Step{req.Steps[k]}, Mode: "nostate"}}})
			}
		}
	})
	// the same laws through programs, plus split/join identity
	// splitting: the pieces of 分隔 are the stretches between the (leftmost, non-overlapping)
	// occurrences of the separator - as many as there are occurrences plus one, none of them holding
	// the separator; texts shorter / as long as / longer than the separator, in characters and in
	// bytes; separators of 1..4 bytes per character; overlapping patterns
	{
		stexts := []string{"", "甲", "甲，", "，", "，乙", "，，", "甲，乙，丙", "a😀b", "😀", "😀😀😀", "甲乙——丙", "——", "aaa", "aaaa", "abab", "é", "aé", "éaé", "a,b", ",", "文", "中文文本", "x\uFEFFy", "一二"}
		sseps := []string{"，", "😀", "——", "aa", "ab", "é", ",", "文", "文本", "\uFEFF", "一二三", " ", "甲，乙，丙，丁"}
		sreqs := []Req{}
		type sm struct{ t, sep string }
		sms := []sm{}
		for _, t := range stexts {
			for _, sp := range sseps {
				r := execReq("输入文、隔\n令片 = 以文（分隔：隔）\n输出【片，片之长度，以片（拼接：隔）】\n")
				r.Inputs = map[string]Val{"文": Text(t), "隔": Text(sp)}
				sreqs = append(sreqs, r)
				sms = append(sms, sm{t, sp})
			}
		}
		c.runBatches(sreqs, 100, func(i int, req *Req, resp *Resp) {
			c.Eval()
			m := sms[i]
			parts := strings.Split(m.t, m.sep)
			pv := []Val{}
			for _, p := range parts {
				pv = append(pv, Text(p))
			}
			want := List(List(pv...), Num(float64(len(parts))), Text(m.t))
			c.Nontrivial(fmt.Sprintf("split|%d|%d|%d", utf8.RuneCountInString(m.t), len(m.sep), len(parts)))
			c.Count("split_cases", 1)
			if resp.Kind != "value" || resp.Val == nil || !Equal(*resp.Val, want) {
				got := resp.Kind
				if resp.Val != nil {
					got = resp.Val.String()
				}
				c.Violation(fmt.Sprintf("split:%q/%q", m.t, m.sep), fmt.Sprintf("text %q split by %q: [pieces, count, rejoined] = %s, expected %s", m.t, m.sep, clip(got, 300), clip(want.String(), 300)), map[string]interface{}{"req": req})
			}
		})
	}
	preqs := []Req{}
	pmeta := []string{}
	seps := []string{",", "，", "😀", "ab", " ", "文"}
	for i, t := range texts {
		if i > c.Pick(120, 2500) {
			break
		}
		n := utf8.RuneCountInString(t)
		a, b := 1, n
		if n >= 2 {
			a = 1 + rng.Intn(n)
			b = a + rng.Intn(n-a+1)
		}
		sep := seps[rng.Intn(len(seps))]
		src := "输入文、甲、乙、隔\n输出【文之长度，文之字符组，以文（取样：甲、乙），以{以文（分隔：隔）}（拼接：隔）】\n"
		if n == 0 {
			src = "输入文、甲、乙、隔\n输出【文之长度，文之字符组，“”，以{以文（分隔：隔）}（拼接：隔）】\n"
		}
		r := execReq(src)
		r.Inputs = map[string]Val{"文": Text(t), "甲": Num(float64(a)), "乙": Num(float64(b)), "隔": Text(sep)}
		preqs = append(preqs, r)
		pmeta = append(pmeta, t)
	}
	c.runBatches(preqs, 100, func(i int, req *Req, resp *Resp) {
		c.Eval()
		t := pmeta[i]
		rs := []rune(t)
		n := len(rs)
		a, b := int(req.Inputs["甲"].F()), int(req.Inputs["乙"].F())
		chars := []Val{}
		for _, ch := range rs {
			chars = append(chars, Text(string(ch)))
		}
		sl := ""
		if n > 0 {
			sl = string(rs[a-1 : b])
		}
		want := List(Num(float64(n)), List(chars...), Text(sl), Text(t))
		c.Nontrivial(fmt.Sprintf("textprog|%d|%d|%d", n, a, b))
		if resp.Kind != "value" || !Equal(*resp.Val, want) {
			got := resp.Kind
			if resp.Val != nil {
				got = resp.Val.String()
			}
			if resp.Err != nil {
				got += " " + resp.Err.Msg
			}
			c.Violation(fmt.Sprintf("textprog:law:%q/%d/%d", t, a, b), fmt.Sprintf("text %q: [长度, 字符组, 取样(%d,%d), 分隔+拼接(%q)] = %s, expected %s", t, a, b, req.Inputs["隔"].S(), clip(got, 300), clip(want.String(), 300)), map[string]interface{}{"req": req})
		}
	})

	// ---------------------------------------------------------------- (2) formatting
	nums := []float64{0, math.Copysign(0, -1), 1, -1, 0.5, -0.5, 123.456789, 3.14159, 5, -3, 0.876, 12345, 1e-5, 0.0001, 999999.5, 1e6, 1234567, 1e21, 1.7976931348623157e308, 5e-324, 2.5, 0.125, 1e-7, 98.765, 0.285, 1.005, 9007199254740993}
	lits := []string{"", "a", "数值为", "完成率：", "😀", " %d %s ", "}x", "100%", "#", "\\", "文 本"}
	var cases []c14Fmt
	type pend struct {
		ci   int
		seg  int
		item pyFmtItem
		pct  bool
		prec int
		x    float64
	}
	var pending []pend
	segs := map[int][]string{}
	for i := 0; i < c.Pick(12000, 1000000); i++ {
		cs := c14Fmt{family: "valid"}
		nph := rng.Intn(4)
		var parts []string
		var tm strings.Builder
		dirs := ""
		addLit := func() {
			l := lits[rng.Intn(len(lits))]
			l = strings.NewReplacer("{", "", "}", "").Replace(l)
			tm.WriteString(l)
			parts = append(parts, l)
		}
		addLit()
		for k := 0; k < nph; k++ {
			x := nums[rng.Intn(len(nums))]
			if rng.Intn(3) == 0 {
				x = rng.NormFloat64() * math.Pow(10, float64(rng.Intn(20)-8))
			}
			prec := rng.Intn(9)
			if rng.Intn(6) == 0 {
				prec = rng.Intn(41)
			}
			if rng.Intn(20) == 0 {
				// up to the largest precision the implementation accepts for any directive
				prec = []int{99, 100, 308, 500, 997, 998, 999, 1000}[rng.Intn(8)]
			}
			kind := rng.Intn(6)
			switch kind {
			case 0: // {}
				var v Val
				var s string
				switch rng.Intn(4) {
				case 0:
					t := c14Text(rng, rng.Intn(4))
					t = strings.NewReplacer("，", "", "\n", "").Replace(t)
					v, s = Text(t), t
				case 1:
					v, s = Bool(true), "真"
				case 2:
					v, s = Null(), "空"
				default:
					k := rng.Intn(1000) - 200
					v, s = Num(float64(k)), fmt.Sprint(k)
				}
				tm.WriteString("{}")
				cs.args = append(cs.args, v)
				parts = append(parts, s)
				dirs += "{}"
			case 1:
				tm.WriteString("{#}")
				cs.args = append(cs.args, Num(x))
				parts = append(parts, "")
				pending = append(pending, pend{ci: len(cases), seg: len(parts) - 1, item: pyFmtItem{Bits: math.Float64bits(x), Spec: "%.6g"}})
				dirs += "{#}"
			case 2:
				tm.WriteString("{#." + precSpelling(rng, prec) + "}")
				cs.args = append(cs.args, Num(x))
				parts = append(parts, "")
				pending = append(pending, pend{ci: len(cases), seg: len(parts) - 1, item: pyFmtItem{Bits: math.Float64bits(x), Spec: fmt.Sprintf("%%.%df", prec)}})
				dirs += "{#.N}"
			case 3:
				tm.WriteString("{#+}")
				cs.args = append(cs.args, Num(x))
				parts = append(parts, "")
				pending = append(pending, pend{ci: len(cases), seg: len(parts) - 1, item: pyFmtItem{Bits: math.Float64bits(x), Spec: "%+.6g"}})
				dirs += "{#+}"
			case 4:
				tm.WriteString("{#." + precSpelling(rng, prec) + "%}")
				cs.args = append(cs.args, Num(x))
				parts = append(parts, "")
				pending = append(pending, pend{ci: len(cases), seg: len(parts) - 1, item: pyFmtItem{Bits: math.Float64bits(x * 100), Spec: fmt.Sprintf("%%.%df%%%%", prec)}, pct: true, prec: prec, x: x})
				dirs += "{#.N%}"
			case 5:
				tm.WriteString("{#." + precSpelling(rng, prec) + "E}")
				cs.args = append(cs.args, Num(x))
				parts = append(parts, "")
				pending = append(pending, pend{ci: len(cases), seg: len(parts) - 1, item: pyFmtItem{Bits: math.Float64bits(x), Spec: fmt.Sprintf("%%.%dE", prec)}})
				dirs += "{#.NE}"
			}
			addLit()
		}
		cs.tmpl = tm.String()
		cs.judged = true
		cs.family = "valid/" + dirs
		segs[len(cases)] = parts
		cases = append(cases, cs)
	}
	// resolve numeric segments with Python
	for lo := 0; lo < len(pending); lo += 5000 {
		hi := lo + 5000
		if hi > len(pending) {
			hi = len(pending)
		}
		items := make([]pyFmtItem, hi-lo)
		for k := lo; k < hi; k++ {
			items[k-lo] = pending[k].item
		}
		strs, err := py.format(items)
		if err != nil {
			c.Inconclusive("python oracle: " + err.Error())
			return
		}
		for k := lo; k < hi; k++ {
			p := pending[k]
			if strs[k-lo] == nil {
				cases[p.ci].judged = false
				continue
			}
			s := *strs[k-lo]
			if p.pct {
				// exact decimal scaling must agree, otherwise the case is not judged
				bf := new(big.Float).SetPrec(400).SetFloat64(p.x)
				bf.Mul(bf, big.NewFloat(100))
				if bf.Text('f', p.prec)+"%" != s {
					cases[p.ci].judged = false
				}
			}
			segs[p.ci][p.seg] = s
		}
	}
	for ci := range cases {
		if cases[ci].judged {
			cases[ci].want = strings.Join(segs[ci], "")
		}
	}
	// must-be-error templates
	errT := []c14Fmt{}
	ea := func(fam, tmpl string, args ...Val) {
		errT = append(errT, c14Fmt{tmpl: tmpl, args: args, wantErr: true, judged: true, family: "error/" + fam})
	}
	for _, x := range []Val{Num(1), Text("a")} {
		ea("count-more-args", "{}", x, x)
		ea("count-more-args", "无占位", x)
		ea("count-fewer-args", "{}{}", x)
		ea("count-fewer-args", "{#}")
		ea("unbalanced", "{", x)
		ea("unbalanced", "}", x)
		ea("unbalanced", "a{#", x)
		ea("unbalanced", "{}}", x)
		ea("nested", "{{}}", x)
		ea("nested", "{#{}}", x, x)
		ea("not-hash", "{x}", x)
		ea("not-hash", "{ }", x)
		ea("not-hash", "{.2}", x)
		ea("not-hash", "{+}", x)
	}
	for _, d := range []string{"{#x}", "{#.2f}", "{#,}", "{# }", "{#.-2}", "{#..2}", "{#.2.3}", "{#+-}", "{#.2EE}", "{#.2%%}", "{#e}", "{#.2e}"} {
		ea("bad-directive", d, Num(1.5))
	}
	for _, d := range []string{"{#}", "{#.2}", "{#+}", "{#.1%}", "{#.2E}"} {
		for _, v := range []Val{Text("a"), Bool(true), Null(), List(Num(1)), Dict([]string{"a"}, []Val{Num(1)})} {
			ea("numeric-on-non-number", d, v)
		}
	}
	// a precision of five or more digits is no rendering anybody can ask for: an error, whatever
	// the number of digits (also where a 32- or 64-bit counter would have wrapped around)
	{
		precs := []string{"10001", "99999", "4294967296", "4294967298", "9223372036854775807", "9223372036854775808", "9999999999999999999", "18446744073709551615", "18446744073709551616", "18446744073709551618", "18446744073709552616", "36893488147419103232", "36893488147419103234", "340282366920938463463374607431768211456", "340282366920938463463374607431768211458"}
		for n := 5; n <= 45; n++ {
			b := make([]byte, n)
			for k := range b {
				b[k] = byte('0' + rng.Intn(10))
			}
			if b[0] == '0' {
				b[0] = '1'
			}
			precs = append(precs, string(b))
		}
		for _, pr := range precs {
			for _, suf := range []string{"", "E", "%"} {
				ea("absurd-precision", "{#."+pr+suf+"}", Num(1.5))
			}
		}
	}
	cases = append(cases, errT...)
	// undocumented combinations: crash freedom only
	for _, d := range []string{"{#E}", "{#%}", "{#+.2}", "{#+.2E}", "{#+.1%}", "{#+E}", "{#.}", "{#.E}", "{#.99999999999999999999}", "{#.4294967296}", "{#.18446744073709551616}", "{#.999999999}", "{#.2000}", "{#.1000001}"} {
		for _, x := range []float64{1.5, -2, 0, math.Inf(1), math.NaN()} {
			cases = append(cases, c14Fmt{tmpl: d, args: []Val{Num(x)}, family: "undocumented/" + d})
		}
	}
	for _, d := range []string{"{#}", "{#.2}", "{#+}", "{#.1%}", "{#.2E}", "{}"} {
		for _, x := range []float64{math.Inf(1), math.Inf(-1), math.NaN()} {
			cases = append(cases, c14Fmt{tmpl: d, args: []Val{Num(x)}, family: "nonfinite/" + d})
		}
	}
	// {} inserts the display form of ANY element: what （显示：X） prints for X is what “{}” % 【X】
	// must produce, for values of every kind (no oracle for the form itself is needed)
	{
		vals := []string{"物", "型", "法", "显示", "（新建异常：“x”）", "异常", "【1，物，【“k” = 法】】", "【“a” = 物】", "【】", "【=】", "空", "真", "“文”", "3", "-0.5", "【1，【2，【3】】】", "以物（取）", "物之甲"}
		dreqs := []Req{}
		for _, v := range vals {
			src := "定义型：\n\t其甲 = 1\n\t如何取？\n\t\t输出 其甲\n如何法？\n\t输出 1\n令物 =（新建型）\n（显示：" + v + "）\n输出 “<{}>{}” % 【" + v + "，" + v + "】\n"
			dreqs = append(dreqs, execReq(src))
		}
		c.runBatches(dreqs, 20, func(i int, req *Req, resp *Resp) {
			c.Eval()
			c.Count("display_form_placeholders_checked", 1)
			c.Nontrivial("display-form|" + vals[i] + "|" + resp.Kind)
			shown := strings.TrimSuffix(resp.Display, "\n")
			want := "<" + shown + ">" + shown
			if resp.Kind != "value" || resp.Val == nil || resp.Val.T != "text" || resp.Val.S() != want {
				c.Violation("format:display-form:"+vals[i], fmt.Sprintf("“<{}>{}” %% 【%s，%s】: outcome %s %s, but （显示：%s） prints %q, so the text must be %q", vals[i], vals[i], resp.Kind, clip(resp.Outcome(), 160), vals[i], shown, want), map[string]interface{}{"req": req})
			}
		})
	}
	freqs := make([]Req, len(cases))
	for i, cs := range cases {
		r := execReq("输入模、参\n输出 模 % 参\n")
		r.Inputs = map[string]Val{"模": Text(cs.tmpl), "参": List(cs.args...)}
		freqs[i] = r
	}
	c.runBatches(freqs, 400, func(i int, req *Req, resp *Resp) {
		c.Eval()
		cs := cases[i]
		as := []string{}
		for _, a := range cs.args {
			as = append(as, a.String())
		}
		desc := fmt.Sprintf("%q %% [%s]", cs.tmpl, strings.Join(as, ", "))
		rp := map[string]interface{}{"req": req}
		if resp.Kind != "value" && resp.Kind != "error" {
			c.Violation("format:crash:"+desc, fmt.Sprintf("%s: outcome %s %s", desc, resp.Kind, clip(resp.Panic, 200)), rp)
			return
		}
		if resp.Kind == "value" && resp.Val.T == "text" && strings.Contains(resp.Val.S(), "%!") {
			c.Violation("format:goverb:"+desc, fmt.Sprintf("%s leaked a Go fmt error into the result: %q", desc, clip(resp.Val.S(), 100)), rp)
			return
		}
		if !cs.judged {
			c.Count("format_not_judged", 1)
			return
		}
		c.Nontrivial("fmt|" + cs.family + "|" + resp.Kind)
		if cs.wantErr {
			if resp.Kind != "error" {
				c.Violation("format:accepted:"+cs.family+"|"+desc, fmt.Sprintf("%s must be an error (%s) but yielded %s", desc, cs.family, resp.Val.String()), rp)
			}
			return
		}
		if resp.Kind != "value" || resp.Val.T != "text" {
			msg := resp.Kind
			if resp.Err != nil {
				msg += ": " + resp.Err.Msg
			}
			c.Violation("format:rejected:"+cs.family+"|"+desc, fmt.Sprintf("%s: expected %q, observed %s", desc, cs.want, msg), rp)
			return
		}
		if resp.Val.S() != cs.want {
			c.Violation("format:text:"+cs.family+"|"+desc, fmt.Sprintf("%s = %q, expected %q", desc, resp.Val.S(), cs.want), rp)
		} else if i%20000 == 0 {
			c.Sample(map[string]interface{}{"template": cs.tmpl, "args": as, "result": cs.want})
		}
	})
	c.Sample(map[string]interface{}{"text": texts[9], "checked": "长度, 字数, 字符组, 取样 over all index pairs"})
}
