package main

import (
	"fmt"
	"math/rand"

	zr "verif/internal/znref"
)

// pgen generates terminating Zn programs over the constructs the properties speak about.
// Callee bodies only use their own parameters/locals, module-level methods/types and
// literals (dynamic visibility of a caller's names is unspecified, U1).

type genOpts struct {
	maxDepth   int
	stmts      int // statements per block (upper bound)
	funcs      int
	classes    int
	exceptions bool
	faults     bool // runtime faults (÷0, index, undefined name)
	collections bool
	loops      bool
	returns    bool
	shadow     bool // inner-block shadowing of outer names
	recursion  int  // max recursion depth literal
	mutation   bool // list / dict mutating methods
	illTyped   bool // non-boolean conditions etc.
}

type vinfo struct {
	name  string
	typ   string // num bool text list dict obj:<class>
	konst bool
}

type genv struct {
	vars   []vinfo
	parent *genv
	inLoop bool
	inFunc bool
	this   *classInfo
}

func (e *genv) child() *genv { return &genv{parent: e, inLoop: e.inLoop, inFunc: e.inFunc, this: e.this} }

func (e *genv) visible(typ string, writable bool) []vinfo {
	out := []vinfo{}
	seen := map[string]bool{}
	for s := e; s != nil; s = s.parent {
		for i := len(s.vars) - 1; i >= 0; i-- {
			v := s.vars[i]
			if seen[v.name] {
				continue
			}
			seen[v.name] = true
			if (typ == "" || v.typ == typ) && (!writable || !v.konst) {
				out = append(out, v)
			}
		}
	}
	return out
}

type funcInfo struct {
	name    string
	arity   int
	recurs  bool
	throws  bool
	def     *zr.FuncDef
}

type classInfo struct {
	name    string
	numProps []string
	listProps []string
	methods []funcInfo
	ctorArity int
	isExc   bool
}

type pgen struct {
	r      *rand.Rand
	o      genOpts
	n      int
	mark   int
	funcs  []*funcInfo
	classes []*classInfo
	excClasses []*classInfo
	features map[string]bool
}

func newPgen(r *rand.Rand, o genOpts) *pgen {
	return &pgen{r: r, o: o, features: map[string]bool{}}
}

func (g *pgen) fresh(prefix string) string {
	g.n++
	a := nameGlyphs[g.n%len(nameGlyphs)]
	b := nameGlyphs[(g.n/len(nameGlyphs))%len(nameGlyphs)]
	return fmt.Sprintf("%s%c%c%d", prefix, b, a, g.n)
}

func (g *pgen) feat(f string) { g.features[f] = true }

func (g *pgen) markStmt(e *genv) zr.Stmt {
	g.mark++
	args := []zr.Expr{zr.S(fmt.Sprintf("m%d", g.mark))}
	vis := e.visible("", false)
	for i := 0; i < 2 && len(vis) > 0; i++ {
		v := vis[g.r.Intn(len(vis))]
		if len(v.typ) > 4 && v.typ[:4] == "obj:" {
			continue
		}
		args = append(args, zr.N(v.name))
	}
	return zr.Show(args...)
}

func (g *pgen) numExpr(e *genv, depth int) zr.Expr {
	r := g.r
	vars := e.visible("num", false)
	switch {
	case depth <= 0 || r.Intn(3) == 0:
		if len(vars) > 0 && r.Intn(2) == 0 {
			return zr.N(vars[r.Intn(len(vars))].name)
		}
		return intLit(r.Intn(9))
	case r.Intn(6) == 0 && len(g.funcs) > 0 && !e.inFunc:
		f := g.funcs[r.Intn(len(g.funcs))]
		return g.callExpr(e, f, depth-1)
	case r.Intn(8) == 0 && e.this != nil && len(e.this.numProps) > 0:
		return zr.ThisProp{Prop: e.this.numProps[r.Intn(len(e.this.numProps))]}
	case r.Intn(8) == 0 && g.o.collections:
		ls := e.visible("list", false)
		if len(ls) > 0 {
			g.feat("index-read")
			return zr.Index{Recv: zr.N(ls[r.Intn(len(ls))].name), Idx: intLit(1 + r.Intn(3))}
		}
	case r.Intn(10) == 0 && g.o.faults:
		g.feat("fault-div0")
		return zr.Bin{Op: "/", L: g.numExpr(e, depth-1), R: intLit(0)}
	}
	op := []string{"+", "-", "*", "+", "%", "|"}[r.Intn(6)]
	rhs := g.numExpr(e, depth-1)
	if op == "%" || op == "|" {
		rhs = intLit(1 + r.Intn(5))
	}
	return zr.Bin{Op: op, L: g.numExpr(e, depth-1), R: rhs}
}

func (g *pgen) callExpr(e *genv, f *funcInfo, depth int) zr.Expr {
	args := []zr.Expr{}
	for i := 0; i < f.arity; i++ {
		if i == 0 && f.recurs {
			args = append(args, intLit(g.r.Intn(g.o.recursion+1)))
			continue
		}
		args = append(args, g.numExpr(e, depth))
	}
	g.feat("call")
	return zr.CallE(f.name, args...)
}

func (g *pgen) boolExpr(e *genv, depth int) zr.Expr {
	r := g.r
	if g.o.illTyped && r.Intn(25) == 0 {
		g.feat("nonbool-cond")
		return intLit(1)
	}
	bv := e.visible("bool", false)
	if len(bv) > 0 && r.Intn(4) == 0 {
		return zr.N(bv[r.Intn(len(bv))].name)
	}
	if depth > 0 && r.Intn(4) == 0 {
		return zr.Bin{Op: []string{"且", "或"}[r.Intn(2)], L: g.boolExpr(e, depth-1), R: g.boolExpr(e, depth-1)}
	}
	if r.Intn(8) == 0 {
		return zr.N([]string{"真", "假"}[r.Intn(2)])
	}
	op := []string{">", "<", ">=", "<=", "==", "/="}[r.Intn(6)]
	return zr.Bin{Op: op, L: g.numExpr(e, 1), R: intLit(r.Intn(6))}
}

func (g *pgen) listLit(n int) zr.ListLit {
	l := zr.ListLit{}
	for i := 0; i < n; i++ {
		l.Items = append(l.Items, intLit(g.r.Intn(20)))
	}
	return l
}

func (g *pgen) dictLit(n int) zr.DictLit {
	d := zr.DictLit{}
	for i := 0; i < n; i++ {
		d.Keys = append(d.Keys, fmt.Sprintf("键%c", nameGlyphs[i]))
		d.KeyForm = append(d.KeyForm, g.r.Intn(2))
		d.Vals = append(d.Vals, intLit(g.r.Intn(20)))
	}
	return d
}

// block generates up to n statements in a fresh environment.
func (g *pgen) block(e *genv, depth, n int) []zr.Stmt {
	out := []zr.Stmt{}
	cnt := 1 + g.r.Intn(n)
	for i := 0; i < cnt; i++ {
		out = append(out, g.stmt(e, depth)...)
	}
	if len(out) == 0 {
		out = append(out, g.markStmt(e))
	}
	return out
}

func (g *pgen) stmt(e *genv, depth int) []zr.Stmt {
	r := g.r
	o := g.o
	for tries := 0; tries < 8; tries++ {
		switch r.Intn(16) {
		case 0, 1: // let
			name := g.fresh("变")
			if o.shadow && r.Intn(4) == 0 && e.parent != nil {
				outer := e.parent.visible("num", false)
				own := map[string]bool{}
				for _, v := range e.vars {
					own[v.name] = true
				}
				if len(outer) > 0 && !own[outer[0].name] {
					name = outer[r.Intn(len(outer))].name
					if own[name] {
						continue
					}
					g.feat("shadow")
				}
			}
			for _, v := range e.vars {
				if v.name == name {
					name = g.fresh("变")
				}
			}
			konst := r.Intn(5) == 0
			var s zr.Stmt
			typ := "num"
			switch {
			case o.collections && r.Intn(5) == 0:
				typ = "list"
				s = zr.Let{Pairs: []zr.LetPair{{Names: []string{name}, Val: g.listLit(1 + r.Intn(4)), Const: konst}}}
			case o.collections && r.Intn(6) == 0:
				typ = "dict"
				s = zr.Let{Pairs: []zr.LetPair{{Names: []string{name}, Val: g.dictLit(1 + r.Intn(3)), Const: konst}}}
			case r.Intn(6) == 0:
				typ = "bool"
				s = zr.Let{Pairs: []zr.LetPair{{Names: []string{name}, Val: g.boolExpr(e, 1), Const: konst}}}
			case len(g.classes) > 0 && !e.inFunc && r.Intn(5) == 0:
				cl := g.classes[r.Intn(len(g.classes))]
				typ = "obj:" + cl.name
				args := []zr.Expr{}
				for i := 0; i < cl.ctorArity; i++ {
					args = append(args, g.numExpr(e, 1))
				}
				g.feat("new")
				s = zr.Let{Pairs: []zr.LetPair{{Names: []string{name}, Val: zr.New{Class: cl.name, Args: args}, Const: konst}}}
			default:
				s = zr.Let{Pairs: []zr.LetPair{{Names: []string{name}, Val: g.numExpr(e, 2), Const: konst}}}
			}
			e.vars = append(e.vars, vinfo{name, typ, konst})
			return []zr.Stmt{s}
		case 2: // assign
			ws := e.visible("num", true)
			if len(ws) == 0 {
				continue
			}
			v := ws[r.Intn(len(ws))]
			g.feat("assign")
			return []zr.Stmt{zr.Set(zr.N(v.name), g.numExpr(e, 2))}
		case 3, 4:
			return []zr.Stmt{g.markStmt(e)}
		case 5: // if
			if depth <= 0 {
				continue
			}
			s := zr.If{Cond: g.boolExpr(e, 1), Then: g.block(e.child(), depth-1, o.stmts)}
			for k := r.Intn(3); k > 0; k-- {
				s.Elifs = append(s.Elifs, zr.Elif{Cond: g.boolExpr(e, 1), Body: g.block(e.child(), depth-1, o.stmts)})
			}
			if r.Intn(2) == 0 {
				s.HasElse = true
				s.Else = g.block(e.child(), depth-1, o.stmts)
			}
			g.feat("if")
			return []zr.Stmt{s}
		case 6: // while
			if depth <= 0 || !o.loops {
				continue
			}
			cn := g.fresh("计")
			e.vars = append(e.vars, vinfo{cn, "num", false})
			ce := e.child()
			ce.inLoop = true
			body := []zr.Stmt{zr.Set(zr.N(cn), zr.Bin{Op: "+", L: zr.N(cn), R: intLit(1)})}
			// the counter must not be reassigned inside: hide it from the body generator
			ce.vars = append(ce.vars, vinfo{cn, "counter", true})
			body = append(body, g.block(ce, depth-1, o.stmts)...)
			g.feat("while")
			return []zr.Stmt{zr.LetS(cn, intLit(0)), zr.While{Cond: zr.Bin{Op: "<", L: zr.N(cn), R: intLit(1 + r.Intn(4))}, Body: body}}
		case 7: // iterate
			if depth <= 0 || !o.loops {
				continue
			}
			ce := e.child()
			ce.inLoop = true
			var over zr.Expr
			isDict := r.Intn(3) == 0
			if isDict {
				over = g.dictLit(r.Intn(4))
				ds := e.visible("dict", false)
				if len(ds) > 0 && r.Intn(2) == 0 {
					over = zr.N(ds[r.Intn(len(ds))].name)
				}
			} else {
				over = g.listLit(r.Intn(4))
				ls := e.visible("list", false)
				if len(ls) > 0 && r.Intn(2) == 0 {
					over = zr.N(ls[r.Intn(len(ls))].name)
				}
			}
			names := []string{}
			switch r.Intn(3) {
			case 1:
				v := g.fresh("项")
				if on, isName := over.(zr.Name); isName && r.Intn(3) == 0 {
					// the loop variable takes the name of the collection in its own header
					v = on.N
					g.feat("iter-shadows-header")
				}
				names = []string{v}
				ce.vars = append(ce.vars, vinfo{v, "num", true})
			case 2:
				k, v := g.fresh("序"), g.fresh("项")
				names = []string{k, v}
				kt := "num"
				if isDict {
					kt = "text"
				}
				ce.vars = append(ce.vars, vinfo{k, kt, true}, vinfo{v, "num", true})
			}
			inner := ce.child()
			g.feat(fmt.Sprintf("iter-%d-%v", len(names), isDict))
			return []zr.Stmt{zr.Iter{Names: names, Over: over, Body: g.block(inner, depth-1, o.stmts)}}
		case 8: // break / continue
			if !e.inLoop {
				continue
			}
			var s zr.Stmt = zr.Break{}
			if r.Intn(2) == 0 {
				s = zr.Continue{}
				g.feat("continue")
			} else {
				g.feat("break")
			}
			if r.Intn(3) > 0 {
				return []zr.Stmt{zr.If{Cond: g.boolExpr(e, 1), Then: []zr.Stmt{g.markStmt(e), s}}}
			}
			return []zr.Stmt{s, g.markStmt(e)}
		case 9: // return
			if !o.returns || r.Intn(2) == 0 {
				continue
			}
			g.feat("return")
			if r.Intn(2) == 0 {
				return []zr.Stmt{zr.If{Cond: g.boolExpr(e, 1), Then: []zr.Stmt{zr.Return{E: g.numExpr(e, 1)}}}}
			}
			return []zr.Stmt{zr.Return{E: g.numExpr(e, 1)}, g.markStmt(e)}
		case 10: // call statement with yield
			if len(g.funcs) == 0 || e.inFunc {
				continue
			}
			f := g.funcs[r.Intn(len(g.funcs))]
			c := g.callExpr(e, f, 1).(zr.Call)
			if r.Intn(2) == 0 {
				y := g.fresh("果")
				c.Yield = y
				e.vars = append(e.vars, vinfo{y, "num", true})
				g.feat("yield")
			}
			return []zr.Stmt{zr.ExprStmt{E: c}}
		case 11: // method call on object
			if e.inFunc {
				continue
			}
			var objs []vinfo
			for _, v := range e.visible("", false) {
				if len(v.typ) > 4 && v.typ[:4] == "obj:" {
					objs = append(objs, v)
				}
			}
			if len(objs) == 0 {
				continue
			}
			ov := objs[r.Intn(len(objs))]
			var cl *classInfo
			for _, c := range g.classes {
				if "obj:"+c.name == ov.typ {
					cl = c
				}
			}
			if cl == nil || len(cl.methods) == 0 {
				continue
			}
			m := cl.methods[r.Intn(len(cl.methods))]
			args := []zr.Expr{}
			for i := 0; i < m.arity; i++ {
				args = append(args, g.numExpr(e, 1))
			}
			g.feat("mcall-object")
			mc := zr.MCall{Recv: zr.N(ov.name), Chain: []zr.CallPart{{Fn: m.name, Args: args}}}
			if r.Intn(2) == 0 {
				y := g.fresh("果")
				mc.Yield = y
				e.vars = append(e.vars, vinfo{y, "num", true})
			}
			out := []zr.Stmt{zr.ExprStmt{E: mc}}
			if len(cl.numProps) > 0 {
				out = append(out, zr.Show(zr.S("属"), zr.Member{Recv: zr.N(ov.name), Prop: cl.numProps[r.Intn(len(cl.numProps))]}))
			}
			return out
		case 12: // throw
			if !o.exceptions || r.Intn(2) == 0 {
				continue
			}
			g.feat("throw")
			var th zr.Stmt = zr.Throw{Class: "异常", Args: []zr.Expr{zr.S(fmt.Sprintf("e%d", g.mark))}}
			if len(g.excClasses) > 0 && r.Intn(2) == 0 {
				ec := g.excClasses[r.Intn(len(g.excClasses))]
				th = zr.Throw{Class: ec.name, Args: []zr.Expr{zr.S(fmt.Sprintf("c%d", g.mark))}}
				g.feat("throw-custom")
			}
			if r.Intn(3) > 0 {
				return []zr.Stmt{zr.If{Cond: g.boolExpr(e, 1), Then: []zr.Stmt{th}}}
			}
			return []zr.Stmt{th, g.markStmt(e)}
		case 13: // runtime fault statements
			if !o.faults || r.Intn(3) > 0 {
				continue
			}
			switch r.Intn(3) {
			case 0:
				g.feat("fault-undefined")
				return []zr.Stmt{zr.Show(zr.N(fmt.Sprintf("未名%d", g.mark)))}
			case 1:
				g.feat("fault-index")
				return []zr.Stmt{zr.Show(zr.Index{Recv: g.listLit(2), Idx: intLit(5 + r.Intn(3))})}
			default:
				g.feat("fault-type")
				return []zr.Stmt{zr.Show(zr.Bin{Op: "+", L: intLit(1), R: zr.S("a")})}
			}
		case 14: // collection mutation
			if !o.mutation {
				continue
			}
			ls := e.visible("list", true)
			ds := e.visible("dict", true)
			if len(ls) > 0 && (len(ds) == 0 || r.Intn(2) == 0) {
				l := ls[r.Intn(len(ls))]
				g.feat("list-mutation")
				switch r.Intn(4) {
				case 0:
					return []zr.Stmt{zr.ExprStmt{E: zr.MCall{Recv: zr.N(l.name), Chain: []zr.CallPart{{Fn: "后增", Args: []zr.Expr{g.numExpr(e, 1)}}}}}}
				case 1:
					return []zr.Stmt{zr.ExprStmt{E: zr.MCall{Recv: zr.N(l.name), Chain: []zr.CallPart{{Fn: "前增", Args: []zr.Expr{g.numExpr(e, 1)}}}}}}
				case 2:
					return []zr.Stmt{zr.Set(zr.Index{Recv: zr.N(l.name), Idx: intLit(1 + r.Intn(3))}, g.numExpr(e, 1))}
				default:
					return []zr.Stmt{zr.Show(zr.S("长"), zr.Member{Recv: zr.N(l.name), Prop: "长度"})}
				}
			}
			if len(ds) > 0 {
				d := ds[r.Intn(len(ds))]
				g.feat("dict-mutation")
				k := fmt.Sprintf("键%c", nameGlyphs[r.Intn(5)])
				return []zr.Stmt{zr.Set(zr.Index{Recv: zr.N(d.name), Idx: zr.S(k)}, g.numExpr(e, 1)), zr.Show(zr.N(d.name))}
			}
			continue
		case 15: // expression statement (value)
			return []zr.Stmt{zr.ExprStmt{E: g.numExpr(e, 2)}}
		}
	}
	return []zr.Stmt{g.markStmt(e)}
}

func (g *pgen) catches(e *genv) []zr.Catch {
	if !g.o.exceptions {
		return nil
	}
	out := []zr.Catch{}
	classes := []string{}
	if g.r.Intn(3) > 0 {
		classes = append(classes, "异常")
	}
	for _, ec := range g.excClasses {
		if g.r.Intn(2) == 0 {
			classes = append(classes, ec.name)
		}
	}
	g.r.Shuffle(len(classes), func(i, j int) { classes[i], classes[j] = classes[j], classes[i] })
	for _, cn := range classes {
		he := &genv{parent: nil, inFunc: e.inFunc}
		// handlers may use the parameters of their body
		for s := e; s != nil; s = s.parent {
			for _, v := range s.vars {
				if v.typ == "param" {
					he.vars = append(he.vars, vinfo{v.name, "num", true})
				}
			}
		}
		g.mark++
		body := []zr.Stmt{zr.Show(zr.S(fmt.Sprintf("h%d", g.mark)))}
		if cn != "异常" || !g.o.faults {
			body = append(body, zr.Show(zr.S("内容"), zr.ThisProp{Prop: "内容"}))
		}
		if g.r.Intn(6) == 0 {
			// the handler itself raises: an enclosing body (or nobody) has to deal with it
			body = append(body, zr.Throw{Class: "异常", Args: []zr.Expr{zr.S(fmt.Sprintf("again%d", g.mark))}})
			g.feat("handler-raises")
		} else if g.r.Intn(2) == 0 {
			body = append(body, zr.Return{E: intLit(-g.r.Intn(50) - 1)})
			g.feat("handler-return")
		} else {
			g.feat("handler-no-return")
		}
		out = append(out, zr.Catch{Class: cn, Body: body})
		g.feat("handler")
	}
	return out
}

func (g *pgen) genFunc(this *classInfo) (*zr.FuncDef, funcInfo) {
	r := g.r
	name := g.fresh("法")
	arity := r.Intn(4)
	recurs := g.o.recursion > 0 && this == nil && r.Intn(3) == 0
	if recurs && arity == 0 {
		arity = 1
	}
	fd := &zr.FuncDef{Name: name}
	e := &genv{inFunc: true, this: this}
	for i := 0; i < arity; i++ {
		p := g.fresh("参")
		fd.Params = append(fd.Params, p)
		e.vars = append(e.vars, vinfo{p, "param", true})
	}
	// parameters are numbers in generated calls
	be := e.child()
	for _, p := range fd.Params {
		be.vars = append(be.vars, vinfo{p, "num", true})
	}
	body := []zr.Stmt{}
	if recurs {
		g.feat("recursion")
		rest := []zr.Expr{zr.Bin{Op: "-", L: zr.N(fd.Params[0]), R: intLit(1)}}
		for _, p := range fd.Params[1:] {
			rest = append(rest, zr.N(p))
		}
		body = append(body, zr.If{Cond: zr.Bin{Op: "<=", L: zr.N(fd.Params[0]), R: intLit(0)}, Then: []zr.Stmt{zr.Return{E: intLit(r.Intn(5))}}})
		body = append(body, g.markStmt(be))
		body = append(body, zr.Return{E: zr.Bin{Op: "+", L: intLit(1), R: zr.CallE(name, rest...)}})
	} else {
		body = append(body, g.block(be, g.o.maxDepth-1, g.o.stmts)...)
		body = append(body, zr.Return{E: g.numExpr(be, 2)})
	}
	fd.Body = body
	fd.Catches = g.catches(e)
	return fd, funcInfo{name: name, arity: arity, recurs: recurs, def: fd}
}

func (g *pgen) genClass(isExc bool) (*zr.ClassDef, *zr.FuncDef, *classInfo) {
	r := g.r
	ci := &classInfo{name: g.fresh("类"), isExc: isExc}
	cd := &zr.ClassDef{Name: ci.name}
	if isExc {
		cd.Props = append(cd.Props, zr.PropDef{Name: "内容", Val: zr.S("")})
		ci.ctorArity = 1
		ctor := &zr.FuncDef{Name: ci.name, Ctor: true, Params: []string{"文"}, Body: []zr.Stmt{zr.Set(zr.ThisProp{Prop: "内容"}, zr.N("文"))}}
		return cd, ctor, ci
	}
	np := 1 + r.Intn(3)
	for i := 0; i < np; i++ {
		p := fmt.Sprintf("数%c", nameGlyphs[i])
		cd.Props = append(cd.Props, zr.PropDef{Name: p, Val: intLit(r.Intn(10))})
		ci.numProps = append(ci.numProps, p)
	}
	if g.o.collections && r.Intn(2) == 0 {
		cd.Props = append(cd.Props, zr.PropDef{Name: "列", Val: g.listLit(2)})
		ci.listProps = append(ci.listProps, "列")
	}
	nm := 1 + r.Intn(2)
	for i := 0; i < nm; i++ {
		fd, fi := g.genFunc(ci)
		// make methods touch a property
		p := ci.numProps[r.Intn(len(ci.numProps))]
		pre := []zr.Stmt{zr.Set(zr.ThisProp{Prop: p}, zr.Bin{Op: "+", L: zr.ThisProp{Prop: p}, R: intLit(1 + r.Intn(3))})}
		if r.Intn(2) == 0 {
			// in-place update of a property that may still hold the type's default value
			pre = []zr.Stmt{zr.ExprStmt{E: zr.MCall{Recv: zr.ThisProp{Prop: p}, Chain: []zr.CallPart{{Fn: []string{"自增", "自减"}[r.Intn(2)], Args: []zr.Expr{intLit(1 + r.Intn(3))}}}}}}
			g.feat("in-place-property-update")
		}
		fd.Body = append(pre, fd.Body...)
		cd.Methods = append(cd.Methods, fd)
		ci.methods = append(ci.methods, fi)
	}
	var ctor *zr.FuncDef
	if r.Intn(2) == 0 {
		ci.ctorArity = 1 + r.Intn(2)
		ctor = &zr.FuncDef{Name: ci.name, Ctor: true}
		for i := 0; i < ci.ctorArity; i++ {
			p := g.fresh("参")
			ctor.Params = append(ctor.Params, p)
			ctor.Body = append(ctor.Body, zr.Set(zr.ThisProp{Prop: ci.numProps[i%len(ci.numProps)]}, zr.N(p)))
		}
		g.feat("ctor")
	}
	return cd, ctor, ci
}

// program builds a whole program.
func (g *pgen) program() *zr.Program {
	p := &zr.Program{}
	body := []zr.Stmt{}
	if g.o.exceptions && g.r.Intn(2) == 0 {
		cd, ctor, ci := g.genClass(true)
		body = append(body, *cd, ctor)
		g.excClasses = append(g.excClasses, ci)
	}
	var ctors []zr.Stmt
	for i := 0; i < g.o.classes && g.r.Intn(3) > 0; i++ {
		cd, ctor, ci := g.genClass(false)
		body = append(body, *cd)
		if ctor != nil {
			ctors = append(ctors, ctor)
		}
		g.classes = append(g.classes, ci)
	}
	body = append(body, ctors...)
	nf := 0
	if g.o.funcs > 0 {
		nf = g.r.Intn(g.o.funcs + 1)
	}
	for i := 0; i < nf; i++ {
		fd, fi := g.genFunc(nil)
		body = append(body, fd)
		fic := fi
		g.funcs = append(g.funcs, &fic)
	}
	e := &genv{}
	body = append(body, g.block(e, g.o.maxDepth, g.o.stmts+2)...)
	if g.r.Intn(3) == 0 {
		body = append(body, zr.ExprStmt{E: g.numExpr(e, 2)})
		g.feat("final-expr")
	} else if g.r.Intn(2) == 0 {
		body = append(body, zr.Return{E: g.numExpr(e, 2)})
	}
	p.Body = body
	p.Catches = g.catches(e)
	return p
}

func featureKey(f map[string]bool) string {
	ks := []string{}
	for k := range f {
		ks = append(ks, k)
	}
	return fmt.Sprint(sortedStrings(ks))
}

func sortedStrings(s []string) []string {
	out := append([]string{}, s...)
	for i := 1; i < len(out); i++ {
		for j := i; j > 0 && out[j] < out[j-1]; j-- {
			out[j], out[j-1] = out[j-1], out[j]
		}
	}
	return out
}
