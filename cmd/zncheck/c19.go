package main

import (
	"strconv"
	"fmt"
	"math"
	"math/rand"
	"strings"

	. "verif/internal/proto"
)

func init() { register("C19", "exploration", checkC19) }

var c19Alphabet = []string{"a", "b", "Z", "0", " ", "\"", "\\", "/", "\n", "\t", "\r", "\b", "\f", "\x00", "\x1f", "\x7f", "é", "中", "文", "😀", " ", "<", ">", "&", "'", "{", "}", "[", "]", ":", ","}

// what an escape looks like after it has been written (the backslash is a character of the text)
var c19EscapeLookalikes = []string{"\\u003c", "\\u003e", "\\u0026", "\\u003C", "\\u2028", "\\u2029", "\\u0000", "\\u001f", "\\u007f", "\\u00e9", "\\ud83d\\ude00", "\\ud800", "\\udc00", "\\u", "\\u12", "\\n", "\\t", "\\r", "\\b", "\\f", "\\\"", "\\/", "\\x41", "\\U0001F600", "\\0", "&lt;", "&gt;", "&amp;", "&quot;", "&#34;", "%22", "%5C", "<", ">", "&", "\u2028", "\u2029", "\u0085", "\ufeff", "\ufffd", "\U0010ffff", "</script>", "<!--", "]]>"}

func c19Text(r *rand.Rand) string {
	if r.Intn(12) == 0 {
		return strings.Repeat("\\", r.Intn(3)) + c19EscapeLookalikes[r.Intn(len(c19EscapeLookalikes))] + c19Alphabet[r.Intn(len(c19Alphabet))]
	}
	n := r.Intn(8)
	var sb strings.Builder
	for i := 0; i < n; i++ {
		sb.WriteString(c19Alphabet[r.Intn(len(c19Alphabet))])
	}
	return sb.String()
}

func c19Num(r *rand.Rand) float64 {
	switch r.Intn(8) {
	case 0:
		return float64(r.Intn(100))
	case 1:
		return -float64(r.Intn(1000)) / 8
	case 2:
		return math.Copysign(0, -1)
	case 3:
		return []float64{1e21, 1e-7, 9007199254740993, 1.7976931348623157e308, 5e-324, 0.1, 1e20, 123456789012345680}[r.Intn(8)]
	case 4:
		return r.NormFloat64() * 1e6
	case 5:
		return math.Float64frombits(r.Uint64()&^(0x7ff<<52) | uint64(r.Intn(2046)+1)<<52)
	}
	return float64(r.Intn(10))
}

func c19Value(r *rand.Rand, depth int) Val {
	k := r.Intn(8)
	if depth <= 0 && k >= 6 {
		k = r.Intn(6)
	}
	switch k {
	case 0, 1:
		return Num(c19Num(r))
	case 2, 3:
		return Text(c19Text(r))
	case 4:
		return Bool(r.Intn(2) == 0)
	case 5:
		return Null()
	case 6:
		n := r.Intn(4)
		items := []Val{}
		for i := 0; i < n; i++ {
			items = append(items, c19Value(r, depth-1))
		}
		return List(items...)
	default:
		return c19Dict(r, depth-1)
	}
}

func c19Dict(r *rand.Rand, depth int) Val {
	n := r.Intn(6)
	keys := []string{}
	vals := []Val{}
	seen := map[string]bool{}
	for i := 0; i < n; i++ {
		k := c19Text(r)
		if r.Intn(2) == 0 {
			k = fmt.Sprintf("k%d", r.Intn(30))
		}
		if seen[k] {
			continue
		}
		seen[k] = true
		keys = append(keys, k)
		vals = append(vals, c19Value(r, depth))
	}
	return Dict(keys, vals)
}

// c19Rich: objects with several keys at every structural position: inside arrays, inside
// arrays of arrays, as values of objects inside arrays (every decoding path must keep key order)
func c19Rich(r *rand.Rand, depth int) Val {
	obj := func(d int) Val {
		n := 3 + r.Intn(4)
		keys := []string{}
		vals := []Val{}
		perm := r.Perm(12)
		for i := 0; i < n; i++ {
			keys = append(keys, fmt.Sprintf("k%d", perm[i]))
			switch {
			case d > 0 && r.Intn(3) == 0:
				vals = append(vals, c19Rich(r, d-1))
			case d > 0 && r.Intn(4) == 0:
				vals = append(vals, List(c19Rich(r, d-1), Num(float64(i))))
			default:
				vals = append(vals, c19Value(r, 0))
			}
		}
		return Dict(keys, vals)
	}
	items := []Val{}
	for i := 0; i < 2+r.Intn(3); i++ {
		if r.Intn(4) == 0 {
			items = append(items, List(obj(depth-1), obj(0)))
		} else {
			items = append(items, obj(depth-1))
		}
	}
	o := obj(0)
	o.KeysR = append(o.KeysR, BytesOf("列"))
	o.Items = append(o.Items, List(items...))
	return o
}

const c19Caught = "<<caught>>"

func c19Handler() string { return "\n拦截异常：\n\t输出“" + c19Caught + "”\n" }

func hasNonFinite(v Val) bool {
	switch v.T {
	case "num":
		return math.IsNaN(v.F()) || math.IsInf(v.F(), 0)
	case "list", "dict":
		for _, it := range v.Items {
			if hasNonFinite(it) {
				return true
			}
		}
	}
	return false
}

func checkC19(c *Ctx) {
	// the deepest inputs of this check need a few GiB in the worker: a wider memory budget than the default
	c.Pool.Env = append(c.Pool.Env, "ZNWORKER_RSS_LIMIT_MB=10240")
	c.Pool.LongRetry = true
	c.rule = "(1) generate: random nested dictionaries (texts over quotes, backslashes, control characters, astral code points; doubles incl. -0, subnormals, 2^53+1, 1.8e308; booleans, 空, empty lists/dicts) enter as input variables; the text of 生成JSON is parsed by Python json.loads (strict constants) and compared structurally; non-finite numbers must give a catchable exception, and so must objects / types / methods / exceptions anywhere in the structure (never null); (2) parse: documents produced by Python json.dumps (random separators, indent, ensure_ascii) must parse to the generator's value with keys in document order; (2b) 35 number spellings (-0 in every form, integers around 2^53 / 2^63 / 2^64, subnormals, underflow) parsed bit for bit; (3) in-language round trip (解析JSON：（生成JSON：D）) 为 D; (6) values nested around the 10000-level bound (a parsed document of depth 9990 wrapped in up to 40 further levels by the program): generation then parsing gives the value back, or generation refuses; (7) documents of 9997 … 10002 nested lists / dictionaries with a scalar, a text, null or nothing innermost: what 解析JSON accepts, 生成JSON writes and 解析JSON reads back as the same value; (5) documents nested 100 … 200000 deep (thorough: up to 6 million) as objects / arrays / both / unclosed: parsed or refused with an exception, never a dead process; (4) every single-character deletion / replacement of small documents, and 20 kinds of blank space (13 of them not JSON white space) before / after / inside them: Python rejects => Zn raises an exception a 拦截 catches, Python accepts => same value. distinct_nontrivial = distinct (family, value shape signature, outcome)"
	c.assumptions = []string{"Python 3 json module is the reference parser/encoder", "documents whose Python value contains inf (overflowing literals), lone surrogates, integers beyond 2^53, or whose top level is not an object are not judged"}
	py, err := startPyOracle(c.Root)
	if err != nil {
		c.Inconclusive(err.Error())
		return
	}
	defer py.close()
	rng := c.Rand("c19")
	n := c.Pick(2500, 200000)

	// ---------------- (1) generate + (3) round trip
	vals := make([]Val, n)
	for i := range vals {
		vals[i] = c19Dict(rng, 3)
		if i%4 == 1 {
			vals[i] = c19Rich(rng, 2)
		}
		if i%40 == 0 { // inject a non-finite number somewhere
			nf := []float64{math.NaN(), math.Inf(1), math.Inf(-1)}[rng.Intn(3)]
			vals[i] = Dict([]string{"a", "坏"}, []Val{vals[i], List(Num(1), Num(nf))})
		}
	}
	// texts that look like JSON / HTML escapes once written: a backslash followed by the letters of
	// an escape, with 0..3 backslashes in front, as value and as key (an encoder that post-processes
	// its output, or a decoder that unescapes twice, changes exactly these)
	{
		k := 0
		for _, core := range c19EscapeLookalikes {
			for bs := 0; bs <= 3; bs++ {
				t := strings.Repeat("\\", bs) + core
				var v Val
				switch k % 3 {
				case 0:
					v = Dict([]string{"键", "b"}, []Val{Text("x" + t + "y"), Num(1)})
				case 1:
					v = Dict([]string{t, "b"}, []Val{Text(t), List(Text(t), Text(t+t))})
				default:
					v = Dict([]string{"a"}, []Val{Dict([]string{"p" + t}, []Val{List(Text(t))})})
				}
				if k < len(vals) {
					vals[len(vals)-1-k] = v
				}
				k++
			}
		}
		c.Count("escape_lookalike_texts", int64(k))
	}
	genSrc := "导入《@JSON》\n输入典\n输出（生成JSON：典）\n" + c19Handler()
	rtSrc := "导入《@JSON》\n输入典\n令回 =（解析JSON：（生成JSON：典））\n输出 回 为 典\n" + c19Handler()
	reqs := make([]Req, 0, 2*n)
	for i := range vals {
		r := execReq(genSrc)
		r.Libs = true
		r.Inputs = map[string]Val{"典": vals[i]}
		reqs = append(reqs, r)
	}
	for i := range vals {
		r := execReq(rtSrc)
		r.Libs = true
		r.Inputs = map[string]Val{"典": vals[i]}
		reqs = append(reqs, r)
	}
	// values JSON cannot represent at all - objects, types, methods, exceptions - anywhere in the
	// structure: a catchable exception, never a silently different value (null)
	{
		ureqs := []Req{}
		udesc := []string{}
		for _, x := range []string{"物", "型", "法", "显示", "解析JSON", "（新建异常：“x”）", "异常"} {
			for _, wrap := range []string{"【“a” = 1，“坏” = §】", "【“a” = 【1，§】】", "【“a” = 【“深” = 【“k” = §】】，“b” = 2】", "【§】", "§"} {
				src := "导入《@JSON》\n定义型：\n\t其甲 = 1\n如何法？\n\t输出 1\n令物 =（新建型）\n输出（生成JSON：" + strings.ReplaceAll(wrap, "§", x) + "）\n" + c19Handler()
				r := execReq(src)
				r.Libs = true
				ureqs = append(ureqs, r)
				udesc = append(udesc, strings.ReplaceAll(wrap, "§", x))
			}
		}
		c.runBatches(ureqs, 20, func(i int, req *Req, resp *Resp) {
			c.Eval()
			c.Nontrivial("unrepresentable|" + udesc[i] + "|" + resp.Kind)
			c.Count("unrepresentable_values_checked", 1)
			ok := resp.Kind == "value" && resp.Val != nil && resp.Val.T == "text" && resp.Val.S() == c19Caught
			if !ok && resp.Kind == "error" {
				ok = true // an uncatchable error is still an error, not a wrong value (catchability is judged for JSON-level failures above)
			}
			if !ok {
				c.Violation("gen-unrepresentable:"+udesc[i], fmt.Sprintf("生成JSON of %s (holds a value JSON cannot represent): outcome %s %s instead of an exception", udesc[i], resp.Kind, resp.Outcome()), map[string]interface{}{"req": req})
			}
		})
	}
	// deeply nested documents: parsed or refused with an exception, never a dead process
	{
		depths := []int{100, 9999, 10000, 10001, 50000, 200000}
		if !c.Quick() {
			depths = append(depths, 1000000, 3000000, 6000000)
		}
		dreqs := []Req{}
		ddesc := []string{}
		for _, d := range depths {
			for _, form := range []string{"object", "array", "mixed", "unclosed"} {
				var doc string
				switch form {
				case "object":
					doc = strings.Repeat("{\"a\":", d) + "1" + strings.Repeat("}", d)
				case "array":
					doc = "{\"a\":" + strings.Repeat("[", d) + strings.Repeat("]", d) + "}"
				case "mixed":
					doc = strings.Repeat("{\"a\":[", d/2) + "1" + strings.Repeat("]}", d/2)
				case "unclosed":
					doc = "{\"a\":" + strings.Repeat("[", d)
				}
				r := execReq("导入《@JSON》\n输入文\n令回 =（解析JSON：文）\n输出“parsed”\n" + c19Handler())
				r.Libs = true
				r.Inputs = map[string]Val{"文": Text(doc)}
				r.EvalBudget = 1000
				dreqs = append(dreqs, r)
				ddesc = append(ddesc, fmt.Sprintf("%s nested %d deep", form, d))
			}
		}
		c.runBatches(dreqs, 1, func(i int, req *Req, resp *Resp) {
			c.Eval()
			c.Nontrivial("deep|" + ddesc[i] + "|" + resp.Kind)
			c.Count("deep_documents_checked", 1)
			if resp.Kind != "value" || resp.Val == nil || resp.Val.T != "text" || (resp.Val.S() != "parsed" && resp.Val.S() != c19Caught) || (strings.HasPrefix(ddesc[i], "unclosed") && resp.Val.S() != c19Caught) {
				c.Violation("deep:"+ddesc[i], fmt.Sprintf("解析JSON of a document (%s): outcome %s %s %s", ddesc[i], resp.Kind, clip(resp.Outcome(), 100), clip(resp.Stderr, 300)), map[string]interface{}{"case": ddesc[i]})
			}
		})
	}
	// deep values built inside the language: whatever 生成JSON accepts, 解析JSON must read back
	// (a depth one of them refuses must be refused by the other too)
	{
		// (the deep part comes from a parsed document, so that building it is linear; a few more
		// levels are wrapped around it in the language to cross the bound)
		type dv struct{ base, wraps int }
		dvs := []dv{{100, 5}, {9000, 0}, {9990, 0}, {9990, 7}, {9990, 8}, {9990, 9}, {9990, 10}, {9990, 11}, {9990, 40}}
		depthsV := []int{}
		vreqs := []Req{}
		for _, d := range dvs {
			for _, kind := range []string{"list", "dict", "list-empty-innermost", "dict-empty-innermost", "list-empty-dict-innermost"} {
				inner := "1"
				switch kind {
				case "list-empty-innermost":
					inner = ""
				case "dict-empty-innermost", "list-empty-dict-innermost":
					inner = "{}"
				}
				doc := "{\"a\":" + strings.Repeat("[", d.base) + inner + strings.Repeat("]", d.base) + "}"
				open, close := strings.Repeat("【", d.wraps), strings.Repeat("】", d.wraps)
				if kind == "dict" || kind == "dict-empty-innermost" {
					doc = strings.Repeat("{\"a\":", d.base) + inner + strings.Repeat("}", d.base)
					open, close = strings.Repeat("【“k” = ", d.wraps), strings.Repeat("】", d.wraps)
				}
				src := "导入《@JSON》\n输入文\n" +
					"如何生成？\n\t输入值\n\t输出（生成JSON：值）\n\n\t拦截异常：\n\t\t输出 空\n" +
					"如何解析？\n\t输入字\n\t输出（解析JSON：字）\n\n\t拦截异常：\n\t\t输出 空\n" +
					"令底 = （解析JSON：文）\n令典 = 【“a” = " + open + "底" + close + "】\n令字 = （生成：典）\n如果 字 为 空：\n\t输出 “generation-refused”\n令回 = （解析：字）\n如果 回 为 空：\n\t输出 “parse-refused”\n输出 回 为 典\n"
				r := execReq(src)
				r.Libs = true
				r.EvalBudget = 0
				r.Inputs = map[string]Val{"文": Text(doc)}
				vreqs = append(vreqs, r)
			}
			depthsV = append(depthsV, d.base+d.wraps+1)
		}
		c.runBatches(vreqs, 2, func(i int, req *Req, resp *Resp) {
			c.Eval()
			d := depthsV[i/5]
			c.Count("deep_values_round_tripped", 1)
			out := resp.Kind
			if resp.Kind == "value" && resp.Val != nil {
				out = resp.Val.String()
			}
			c.Nontrivial(fmt.Sprintf("deep-value|%d|%s", d, out))
			if resp.Kind == "timeout" {
				// building the value copies it at every level (quadratic): on a loaded machine the
				// wall-clock watchdog may fire first - not judged
				c.Count("deep_values_not_judged_watchdog", 1)
				return
			}
			ok := resp.Kind == "value" && resp.Val != nil && ((resp.Val.T == "bool" && resp.Val.B) || (resp.Val.T == "text" && resp.Val.S() == "generation-refused"))
			if !ok {
				c.Violation(fmt.Sprintf("deep-value:%d:%d", d, i%5), fmt.Sprintf("a dictionary holding a value nested %d deep: 生成JSON then 解析JSON -> %s %s (the text one of them produces must be read back by the other, or generation must refuse it)", d, resp.Kind, clip(resp.Outcome(), 120)), map[string]interface{}{"req": req})
			}
		})
	}
	// the converse at the bound itself: a document 解析JSON accepts is a JSON-representable
	// dictionary, so 生成JSON must write it and the round trip must give it back
	{
		type bd struct {
			depth          int
			kind, innermost string
		}
		bds := []bd{}
		for _, depth := range []int{9997, 9998, 9999, 10000, 10001, 10002} {
			for _, kind := range []string{"list", "dict"} {
				for _, in := range []string{"1", "", "\"x\"", "null"} {
					bds = append(bds, bd{depth, kind, in})
				}
			}
		}
		breqs := []Req{}
		for _, b := range bds {
			// depth counts the containers of the document, the outer dictionary included
			doc := "{\"a\":" + strings.Repeat("[", b.depth-1) + b.innermost + strings.Repeat("]", b.depth-1) + "}"
			if b.kind == "dict" {
				in := b.innermost
				if in == "" {
					in = "{}"
				} else {
					in = "{\"a\":" + in + "}"
				}
				doc = strings.Repeat("{\"a\":", b.depth-1) + in + strings.Repeat("}", b.depth-1)
			}
			src := "导入《@JSON》\n输入文\n" +
				"如何生成？\n\t输入值\n\t输出（生成JSON：值）\n\n\t拦截异常：\n\t\t输出 空\n" +
				"如何解析？\n\t输入字\n\t输出（解析JSON：字）\n\n\t拦截异常：\n\t\t输出 空\n" +
				"令底 = （解析：文）\n如果 底 为 空：\n\t输出 “parse-refused”\n令字 = （生成：底）\n如果 字 为 空：\n\t输出 “generation-refused-after-parse”\n令回 = （解析：字）\n如果 回 为 空：\n\t输出 “reparse-refused”\n输出 回 为 底\n"
			r := execReq(src)
			r.Libs = true
			r.EvalBudget = 0
			r.Inputs = map[string]Val{"文": Text(doc)}
			breqs = append(breqs, r)
		}
		c.runBatches(breqs, 2, func(i int, req *Req, resp *Resp) {
			c.Eval()
			b := bds[i]
			out := resp.Kind
			if resp.Kind == "value" && resp.Val != nil {
				out = resp.Val.String()
			}
			c.Nontrivial(fmt.Sprintf("bound|%d|%s|%s|%s", b.depth, b.kind, b.innermost, out))
			c.Count("bound_documents_checked", 1)
			if resp.Kind == "timeout" {
				c.Count("deep_values_not_judged_watchdog", 1)
				return
			}
			ok := resp.Kind == "value" && resp.Val != nil && ((resp.Val.T == "bool" && resp.Val.B) || (resp.Val.T == "text" && resp.Val.S() == "parse-refused"))
			if !ok {
				c.Violation(fmt.Sprintf("bound:%d:%s:%s", b.depth, b.kind, b.innermost), fmt.Sprintf("a document of %d nested %ss (innermost %q) that 解析JSON accepts: 生成JSON of the result, then 解析JSON again -> %s", b.depth, b.kind, b.innermost, clip(out, 120)), map[string]interface{}{"req": req})
			}
		})
	}
	texts := make([][]byte, n)
	genOK := make([]bool, n)
	c.runBatches(reqs, 200, func(i int, req *Req, resp *Resp) {
		c.Eval()
		if i < n {
			v := vals[i]
			nf := hasNonFinite(v)
			key := fmt.Sprintf("gen:%v:%s", nf, shapeSig(v)+v.String())
			c.Nontrivial("gen|" + shapeSig(v) + fmt.Sprint(nf))
			rp := map[string]interface{}{"req": req}
			if resp.Kind != "value" || resp.Val == nil || resp.Val.T != "text" {
				c.Violation(key, fmt.Sprintf("生成JSON of %s: outcome %s %v (a text, or the handler's marker, was expected)", clip(v.String(), 300), resp.Kind, resp.Err), rp)
				return
			}
			txt := resp.Val.S()
			if nf {
				if txt != c19Caught {
					c.Violation(key, fmt.Sprintf("生成JSON of a value with a non-finite number returned %q instead of raising a catchable exception", clip(txt, 200)), rp)
				}
				return
			}
			if txt == c19Caught {
				c.Violation(key, "生成JSON raised an exception for a JSON-representable dictionary: "+clip(v.String(), 300), rp)
				return
			}
			texts[i] = []byte(txt)
			genOK[i] = true
			return
		}
		j := i - n
		v := vals[j]
		if hasNonFinite(v) {
			return
		}
		c.Nontrivial("roundtrip|" + shapeSig(v))
		if resp.Kind != "value" || resp.Val == nil || resp.Val.T != "bool" || !resp.Val.B {
			got := resp.Kind
			if resp.Val != nil {
				got += " " + resp.Val.String()
			}
			c.Violation("roundtrip:v:"+shapeSig(v)+":"+v.String(), fmt.Sprintf("（解析JSON：（生成JSON：D））为 D is not 真 for D = %s: %s", clip(v.String(), 300), got), map[string]interface{}{"req": req})
		}
	})
	// judge generated texts with Python
	idx := []int{}
	docs := [][]byte{}
	for i := range vals {
		if genOK[i] {
			idx = append(idx, i)
			docs = append(docs, texts[i])
		}
	}
	for lo := 0; lo < len(docs); lo += 2000 {
		hi := lo + 2000
		if hi > len(docs) {
			hi = len(docs)
		}
		res, err := py.loads(docs[lo:hi])
		if err != nil {
			c.Inconclusive("python oracle: " + err.Error())
			return
		}
		for k, pr := range res {
			i := idx[lo+k]
			c.Count("generated_texts_parsed_by_python", 1)
			key := "gen-parse:v:" + shapeSig(vals[i]) + ":" + vals[i].String()
			rp := map[string]interface{}{"req": reqs[i], "generated": string(texts[i])}
			if !pr.OK {
				c.Violation(key, fmt.Sprintf("生成JSON produced text that Python's json rejects (%s): %q for %s", pr.Why, clip(string(texts[i]), 200), clip(vals[i].String(), 200)), rp)
				continue
			}
			if !EqualUnordered(*pr.Value, vals[i]) {
				c.Violation(key, fmt.Sprintf("生成JSON text %q reads back as %s, expected %s", clip(string(texts[i]), 200), clip(pr.Value.String(), 200), clip(vals[i].String(), 200)), rp)
			}
		}
	}

	// ---------------- (2) parse documents from Python
	pv := make([]Val, n)
	items := make([]pyDumpItem, n)
	for i := range pv {
		pv[i] = c19Dict(rng, 3)
		if i%3 == 0 {
			pv[i] = c19Rich(rng, 2)
		}
		for hasNonFinite(pv[i]) {
			pv[i] = c19Dict(rng, 3)
		}
		opts := map[string]interface{}{"ascii": rng.Intn(2) == 0}
		switch rng.Intn(3) {
		case 0:
			opts["indent"] = rng.Intn(4)
		case 1:
			opts["seps"] = []string{",", ":"}
		}
		items[i] = pyDumpItem{Value: pv[i], Opts: opts}
	}
	pdocs := make([][]byte, 0, n)
	for lo := 0; lo < n; lo += 2000 {
		hi := lo + 2000
		if hi > n {
			hi = n
		}
		d, err := py.dumps(items[lo:hi])
		if err != nil {
			c.Inconclusive("python oracle: " + err.Error())
			return
		}
		pdocs = append(pdocs, d...)
	}
	parseSrc := "导入《@JSON》\n输入文\n输出（解析JSON：文）\n" + c19Handler()
	preqs := make([]Req, n)
	for i := range preqs {
		r := execReq(parseSrc)
		r.Libs = true
		r.Inputs = map[string]Val{"文": Text(string(pdocs[i]))}
		preqs[i] = r
	}
	c.runBatches(preqs, 200, func(i int, req *Req, resp *Resp) {
		c.Eval()
		c.Nontrivial("parse|" + shapeSig(pv[i]))
		key := "parse:v:" + shapeSig(pv[i]) + ":" + string(pdocs[i])
		rp := map[string]interface{}{"req": req}
		if resp.Kind != "value" || resp.Val == nil {
			c.Violation(key, fmt.Sprintf("解析JSON of %q: outcome %s", clip(string(pdocs[i]), 200), resp.Kind), rp)
			return
		}
		if resp.Val.T == "text" && resp.Val.S() == c19Caught {
			c.Violation(key, fmt.Sprintf("解析JSON rejected a valid document: %q", clip(string(pdocs[i]), 200)), rp)
			return
		}
		if !EqualUnordered(*resp.Val, pv[i]) {
			c.Violation(key, fmt.Sprintf("解析JSON of %q gave %s, expected %s", clip(string(pdocs[i]), 200), clip(resp.Val.String(), 200), clip(pv[i].String(), 200)), rp)
			return
		}
		if !Equal(*resp.Val, pv[i]) {
			c.Violation("parse-order:v:"+shapeSig(pv[i])+":"+string(pdocs[i]), fmt.Sprintf("解析JSON of %q: keys not in document order: %s, expected %s", clip(string(pdocs[i]), 200), clip(resp.Val.String(), 200), clip(pv[i].String(), 200)), rp)
		}
	})

	// ---------------- (2b) number spellings: every JSON number is read as the double nearest to its
	// decimal, the sign of zero included (-0 is what 生成JSON writes for negative zero: reading it
	// back as +0 would break the round trip for a value that 为 cannot tell apart)
	{
		lits := []string{"-0", "0", "-0.0", "-0e0", "-0E+5", "0.0", "-0.000", "1", "-1", "1.0", "1E2", "1e+2", "1e-2", "0.1e1", "123456789012345678901234567890", "-9223372036854775808", "9223372036854775807", "9223372036854775808", "18446744073709551616",
			"9007199254740993", "-9007199254740993", "4.9e-324", "5e-324", "2.2250738585072014e-308", "1.7976931348623157e308", "0.30000000000000004", "1e-400", "-1e-400", "100", "1e21", "1e22", "123e-2", "0e0", "-0e-0", "10e-1"}
		nreqs := []Req{}
		for _, l := range lits {
			r := execReq(parseSrc)
			r.Libs = true
			r.Inputs = map[string]Val{"文": Text("{\"n\":" + l + ",\"l\":[" + l + "," + l + "]}")}
			nreqs = append(nreqs, r)
		}
		c.runBatches(nreqs, 50, func(i int, req *Req, resp *Resp) {
			c.Eval()
			f, err := strconv.ParseFloat(lits[i], 64)
			if err != nil {
				return
			}
			want := Dict([]string{"n", "l"}, []Val{Num(f), List(Num(f), Num(f))})
			c.Nontrivial("number-spelling|" + lits[i])
			c.Count("number_spellings_parsed", 1)
			if resp.Kind != "value" || resp.Val == nil || !Equal(*resp.Val, want) {
				got := resp.Kind
				if resp.Val != nil {
					got = resp.Val.String()
				}
				c.Violation("parse-number:"+lits[i], fmt.Sprintf("解析JSON of the number %s: %s, expected %s (bit for bit, the sign of zero included)", lits[i], clip(got, 200), want.String()), map[string]interface{}{"req": req})
			}
		})
	}

	// ---------------- (4) corruptions
	small := []string{`{"a":1,"b":[true,false,null],"c":{"d":"x\n"}}`, `{"k":-1.5e3,"s":"é中\"","e":[],"o":{}}`, `{ "x" : [ 1 , 2.0 , "3" ] }`}
	for i := 0; i < c.Pick(3, 40); i++ {
		small = append(small, string(pdocs[rng.Intn(len(pdocs))]))
	}
	repl := []byte{'"', '\\', '{', '}', '[', ']', ',', ':', '0', '-', '.', 'e', 'n', 't', ' ', 'x', 0x01, '\n', 0xff, 0xc3}
	cdocs := [][]byte{}
	for _, s := range small {
		b := []byte(s)
		if len(b) > 400 {
			continue
		}
		for pos := 0; pos < len(b); pos++ {
			cdocs = append(cdocs, append(append([]byte{}, b[:pos]...), b[pos+1:]...))
			for _, rb := range repl {
				if b[pos] == rb {
					continue
				}
				if c.Quick() && (pos+int(rb))%3 != 0 {
					continue
				}
				d := append([]byte{}, b...)
				d[pos] = rb
				cdocs = append(cdocs, d)
			}
			ins := append(append(append([]byte{}, b[:pos]...), repl[rng.Intn(len(repl))]), b[pos:]...)
			cdocs = append(cdocs, ins)
		}
	}
	// blank space that is not JSON white space (and real JSON white space, as control) before, after
	// and inside small documents: RFC 8259 allows only space, tab, LF and CR between tokens
	for _, s := range small[:3] {
		for _, ws := range []string{"\v", "\f", "\u0085", "\u00a0", "\u1680", "\u2000", "\u200a", "\u2028", "\u2029", "\u202f", "\u205f", "\u3000", "\ufeff", "\u200b", "\x00", " ", "\t", "\n", "\r", "\r\n \t"} {
			cdocs = append(cdocs, []byte(ws+s), []byte(s+ws), []byte(ws+s+ws), []byte(" "+ws+s), []byte(s+ws+"\n"), []byte(strings.Replace(s, ":", ws+":", 1)), []byte(strings.Replace(s, ",", ","+ws, 1)))
		}
	}
	pres := make([]pyLoadRes, 0, len(cdocs))
	for lo := 0; lo < len(cdocs); lo += 3000 {
		hi := lo + 3000
		if hi > len(cdocs) {
			hi = len(cdocs)
		}
		r, err := py.loads(cdocs[lo:hi])
		if err != nil {
			c.Inconclusive("python oracle: " + err.Error())
			return
		}
		pres = append(pres, r...)
	}
	creqs := make([]Req, len(cdocs))
	for i := range creqs {
		r := execReq(parseSrc)
		r.Libs = true
		r.Inputs = map[string]Val{"文": Text(string(cdocs[i]))}
		creqs[i] = r
	}
	c.runBatches(creqs, 300, func(i int, req *Req, resp *Resp) {
		c.Eval()
		pr := pres[i]
		if pr.Skip {
			c.Count("corruptions_not_judged", 1)
			return
		}
		doc := string(cdocs[i])
		rp := map[string]interface{}{"req": req}
		if resp.Kind != "value" || resp.Val == nil {
			c.Violation("corrupt:outcome:"+doc, fmt.Sprintf("解析JSON of %q: outcome %s %s", clip(doc, 200), resp.Kind, clip(resp.Panic, 200)), rp)
			return
		}
		caught := resp.Val.T == "text" && resp.Val.S() == c19Caught
		if !pr.OK {
			c.Nontrivial("corrupt|reject|" + clip(pr.Why, 30))
			if !caught {
				c.Violation("corrupt:accepted:"+doc, fmt.Sprintf("malformed JSON %q (Python: %s) was accepted: %s", clip(doc, 200), pr.Why, clip(resp.Val.String(), 200)), rp)
			}
			return
		}
		if pr.Top != "dict" || len(pr.Flags) > 0 {
			c.Count("corruptions_not_judged", 1)
			return
		}
		c.Nontrivial("corrupt|accept|" + shapeSig(*pr.Value))
		if caught {
			c.Violation("corrupt:rejected:"+doc, fmt.Sprintf("valid JSON %q was rejected", clip(doc, 200)), rp)
			return
		}
		if !EqualUnordered(*resp.Val, *pr.Value) {
			c.Violation("corrupt:value:"+doc, fmt.Sprintf("解析JSON of %q gave %s, Python reads %s", clip(doc, 200), clip(resp.Val.String(), 200), clip(pr.Value.String(), 200)), rp)
		}
	})
	c.Sample(map[string]interface{}{"family": "generate", "value": clip(vals[1].String(), 200), "generated": clip(string(texts[1]), 200)})
	c.Sample(map[string]interface{}{"family": "parse", "document": clip(string(pdocs[0]), 200)})
	c.Sample(map[string]interface{}{"family": "corruption", "document": clip(string(cdocs[len(cdocs)/2]), 200), "python_accepts": pres[len(cdocs)/2].OK})
}

// shapeSig: a coarse structural signature of a value (types and sizes, not contents)
func shapeSig(v Val) string {
	switch v.T {
	case "list":
		s := "["
		for _, it := range v.Items {
			s += shapeSig(it)
		}
		return s + "]"
	case "dict":
		s := "{"
		for _, it := range v.Items {
			s += shapeSig(it)
		}
		return s + "}"
	case "num":
		f := v.F()
		switch {
		case f == 0:
			return "0"
		case f == math.Trunc(f):
			return "i"
		}
		return "f"
	case "text":
		if len(v.R) == 0 {
			return "e"
		}
		return "s"
	}
	return v.T[:1]
}
