package main

import (
	"strings"
	"fmt"
	"math/rand"

	. "verif/internal/proto"
	zr "verif/internal/znref"
)

func init() { register("C07", "exploration", checkC07) }

// c07 history generator: a few variables holding nested lists / dictionaries / objects,
// copies between them, mutations through any name at any depth, display of every variable
// after each step.

type c07Var struct {
	name string
	kind string // list dict obj
	// shape model: a tree describing which index paths exist (kept by the reference run;
	// here we only remember a plausible depth-1 shape to generate paths that mostly exist)
}

type c07Gen struct {
	r    *rand.Rand
	vars []c07Var
	n    int
	feat map[string]bool
}

func (g *c07Gen) fresh(p string) string {
	g.n++
	return fmt.Sprintf("%s%c%d", p, nameGlyphs[g.n%len(nameGlyphs)], g.n)
}

func (g *c07Gen) scalar() zr.Expr {
	if g.r.Intn(4) == 0 {
		return zr.S(fmt.Sprintf("文%d", g.r.Intn(9)))
	}
	return intLit(g.r.Intn(90))
}

func (g *c07Gen) nested(depth int) zr.Expr {
	r := g.r
	if depth <= 0 || r.Intn(3) == 0 {
		return g.scalar()
	}
	if r.Intn(2) == 0 {
		l := zr.ListLit{}
		for i := 0; i < 1+r.Intn(3); i++ {
			l.Items = append(l.Items, g.nested(depth-1))
		}
		return l
	}
	d := zr.DictLit{}
	for i := 0; i < 1+r.Intn(3); i++ {
		d.Keys = append(d.Keys, fmt.Sprintf("键%c", nameGlyphs[i]))
		d.KeyForm = append(d.KeyForm, 0)
		d.Vals = append(d.Vals, g.nested(depth-1))
	}
	return d
}

func (g *c07Gen) collection(depth int) (zr.Expr, string) {
	for {
		e := g.nested(depth)
		switch e.(type) {
		case zr.ListLit:
			return e, "list"
		case zr.DictLit:
			return e, "dict"
		}
	}
}

// path builds an index path expression below a variable: V#1#“键甲”…
func (g *c07Gen) path(base zr.Expr, steps int) zr.Expr {
	e := base
	for i := 0; i < steps; i++ {
		if g.r.Intn(2) == 0 {
			e = zr.Index{Recv: e, Idx: intLit(1 + g.r.Intn(3))}
		} else {
			e = zr.Index{Recv: e, Idx: zr.S(fmt.Sprintf("键%c", nameGlyphs[g.r.Intn(3)]))}
		}
	}
	return e
}

func (g *c07Gen) showAll() zr.Stmt {
	args := []zr.Expr{zr.S("态")}
	for _, v := range g.vars {
		if v.kind == "obj" {
			args = append(args, zr.Member{Recv: zr.N(v.name), Prop: "列"}, zr.Member{Recv: zr.N(v.name), Prop: "数"})
		} else {
			args = append(args, zr.N(v.name))
		}
	}
	return zr.Show(args...)
}

func (g *c07Gen) pickVar(kinds ...string) (c07Var, bool) {
	cands := []c07Var{}
	for _, v := range g.vars {
		for _, k := range kinds {
			if v.kind == k {
				cands = append(cands, v)
			}
		}
	}
	if len(cands) == 0 {
		return c07Var{}, false
	}
	return cands[g.r.Intn(len(cands))], true
}

func (g *c07Gen) program(steps int) *zr.Program {
	r := g.r
	body := []zr.Stmt{}
	// a type with a list property and a number property
	cls := zr.ClassDef{Name: "盒", Props: []zr.PropDef{{Name: "列", Val: zr.ListLit{Items: []zr.Expr{intLit(1), intLit(2)}}}, {Name: "数", Val: intLit(0)}},
		Methods: []*zr.FuncDef{{Name: "装", Params: []string{"物"}, Body: []zr.Stmt{
			zr.ExprStmt{E: zr.MCall{Recv: zr.ThisProp{Prop: "列"}, Chain: []zr.CallPart{{Fn: "后增", Args: []zr.Expr{zr.N("物")}}}}},
			zr.Set(zr.ThisProp{Prop: "数"}, zr.Bin{Op: "+", L: zr.ThisProp{Prop: "数"}, R: intLit(1)}),
			zr.Return{E: zr.ThisProp{Prop: "数"}},
		}}, {Name: "取列", Body: []zr.Stmt{zr.Return{E: zr.ThisProp{Prop: "列"}}}}}}
	body = append(body, cls)
	// a method that hands back what it was given
	body = append(body, &zr.FuncDef{Name: "原样", Params: []string{"入"}, Body: []zr.Stmt{zr.Return{E: zr.N("入")}}})
	// initial variables
	for i := 0; i < 2+r.Intn(2); i++ {
		e, k := g.collection(3)
		n := g.fresh("甲")
		body = append(body, zr.LetS(n, e))
		g.vars = append(g.vars, c07Var{n, k})
	}
	if r.Intn(2) == 0 {
		n := g.fresh("物")
		body = append(body, zr.LetS(n, zr.New{Class: "盒"}))
		g.vars = append(g.vars, c07Var{n, "obj"})
	}
	body = append(body, g.showAll())
	for s := 0; s < steps; s++ {
		var st []zr.Stmt
		nvars := len(g.vars)
		switch r.Intn(20) {
		case 18, 19: // a named collection stored through a storing method: 后增 / 前增 / 写入 (new or existing key) / 合并
			src, ok := g.pickVar("list", "dict")
			if !ok {
				continue
			}
			var srcE zr.Expr = zr.N(src.name)
			if r.Intn(3) == 0 {
				srcE = g.path(srcE, 1) // an element reached through a name
			}
			switch r.Intn(4) {
			case 0, 1:
				dst, ok := g.pickVar("dict", "any")
				if !ok {
					continue
				}
				k := zr.S(fmt.Sprintf("键%c", nameGlyphs[r.Intn(4)]))
				st = []zr.Stmt{zr.ExprStmt{E: zr.MCall{Recv: g.path(zr.N(dst.name), r.Intn(2)), Chain: []zr.CallPart{{Fn: "写入", Args: []zr.Expr{k, srcE}}}}}}
				g.feat["store-collection-by-写入"] = true
			case 2:
				dst, ok := g.pickVar("list", "any")
				if !ok {
					continue
				}
				m := []string{"后增", "前增"}[r.Intn(2)]
				st = []zr.Stmt{zr.ExprStmt{E: zr.MCall{Recv: g.path(zr.N(dst.name), r.Intn(2)), Chain: []zr.CallPart{{Fn: m, Args: []zr.Expr{srcE}}}}}}
				g.feat["store-collection-by-"+m] = true
			default:
				dst, ok := g.pickVar("list")
				if !ok {
					continue
				}
				other, ok := g.pickVar("list")
				if !ok {
					continue
				}
				st = []zr.Stmt{zr.ExprStmt{E: zr.MCall{Recv: zr.N(dst.name), Chain: []zr.CallPart{{Fn: "合并", Args: []zr.Expr{zr.N(other.name)}}}}}}
				g.feat["store-collection-by-合并"] = true
			}
		case 14: // assignment whose right-hand side is a call that hands back its receiver
			dst, ok := g.pickVar("list")
			if !ok {
				continue
			}
			src, ok := g.pickVar("list")
			if !ok {
				continue
			}
			m := []string{"后增", "前增"}[r.Intn(2)]
			st = []zr.Stmt{zr.Set(zr.N(dst.name), zr.MCall{Recv: zr.N(src.name), Chain: []zr.CallPart{{Fn: m, Args: []zr.Expr{g.scalar()}}}})}
			g.feat["assign-from-receiver-returning-call"] = true
		case 15: // … a user method that hands back its argument
			dst, ok := g.pickVar("list", "dict")
			if !ok {
				continue
			}
			src, ok := g.pickVar(dst.kind)
			if !ok {
				continue
			}
			if r.Intn(2) == 0 {
				st = []zr.Stmt{zr.Set(zr.N(dst.name), zr.CallE("原样", zr.N(src.name)))}
			} else {
				st = []zr.Stmt{zr.Set(g.path(zr.N(dst.name), 1), zr.CallE("原样", zr.N(src.name)))}
			}
			g.feat["assign-from-identity-call"] = true
		case 16: // … a type method that hands back the object's own list
			o, ok := g.pickVar("obj")
			if !ok {
				continue
			}
			dst, ok := g.pickVar("list", "dict")
			if !ok {
				continue
			}
			call := zr.MCall{Recv: zr.N(o.name), Chain: []zr.CallPart{{Fn: "取列"}}}
			if dst.kind == "list" && r.Intn(2) == 0 {
				st = []zr.Stmt{zr.Set(zr.N(dst.name), call)}
			} else {
				st = []zr.Stmt{zr.Set(g.path(zr.N(dst.name), 1), call)}
			}
			g.feat["assign-from-property-returning-call"] = true
		case 17: // declaration from such a call
			src, ok := g.pickVar("list")
			if !ok {
				continue
			}
			n := g.fresh("己")
			if r.Intn(2) == 0 {
				st = []zr.Stmt{zr.LetS(n, zr.MCall{Recv: zr.N(src.name), Chain: []zr.CallPart{{Fn: "后增", Args: []zr.Expr{g.scalar()}}}})}
			} else {
				st = []zr.Stmt{zr.LetS(n, zr.CallE("原样", zr.N(src.name)))}
			}
			g.vars = append(g.vars, c07Var{n, "list"})
			g.feat["declare-from-call"] = true
		case 0: // copy by 令 (设为 or 恒为)
			src, ok := g.pickVar("list", "dict", "obj")
			if !ok {
				continue
			}
			n := g.fresh("乙")
			st = []zr.Stmt{zr.LetS(n, zr.N(src.name))}
			if r.Intn(3) == 0 {
				st = []zr.Stmt{zr.ConstS(n, zr.N(src.name))}
				g.feat["copy-const"] = true
			}
			g.vars = append(g.vars, c07Var{n, src.kind})
			g.feat["copy-let-"+src.kind] = true
		case 1: // multi declaration
			src, ok := g.pickVar("list", "dict")
			if !ok {
				continue
			}
			a, b := g.fresh("丙"), g.fresh("丁")
			var val zr.Expr = zr.N(src.name)
			if r.Intn(3) == 0 {
				val, _ = g.collection(2) // several names from one literal: each its own copy
				g.feat["multi-from-literal"] = true
			}
			st = []zr.Stmt{zr.Let{Pairs: []zr.LetPair{{Names: []string{a, b}, Val: val, Const: r.Intn(3) == 0}}}}
			g.vars = append(g.vars, c07Var{a, src.kind}, c07Var{b, src.kind})
			g.feat["copy-multi"] = true
		case 2: // assignment between variables of same kind
			dst, ok := g.pickVar("list", "dict")
			if !ok {
				continue
			}
			src, ok := g.pickVar(dst.kind)
			if !ok {
				continue
			}
			st = []zr.Stmt{zr.Set(zr.N(dst.name), zr.N(src.name))}
			g.feat["copy-assign"] = true
		case 3: // element assignment of a whole collection into another
			dst, ok := g.pickVar("list", "dict")
			if !ok {
				continue
			}
			src, ok := g.pickVar("list", "dict")
			if !ok {
				continue
			}
			st = []zr.Stmt{zr.Set(g.path(zr.N(dst.name), 1), zr.N(src.name))}
			g.feat["copy-into-element"] = true
		case 4: // copy out of a nested element
			src, ok := g.pickVar("list", "dict")
			if !ok {
				continue
			}
			n := g.fresh("戊")
			st = []zr.Stmt{zr.LetS(n, g.path(zr.N(src.name), 1))}
			// kind unknown: treat as scalar holder (only displayed)
			g.vars = append(g.vars, c07Var{n, "any"})
			g.feat["copy-out-of-element"] = true
		case 5, 6: // deep element write / in-place numeric update
			dst, ok := g.pickVar("list", "dict", "any")
			if !ok {
				continue
			}
			if r.Intn(3) == 0 {
				m := []string{"自增", "自减"}[r.Intn(2)]
				st = []zr.Stmt{zr.ExprStmt{E: zr.MCall{Recv: g.path(zr.N(dst.name), 1+r.Intn(3)), Chain: []zr.CallPart{{Fn: m, Args: []zr.Expr{intLit(1 + r.Intn(9))}}}}}}
				g.feat["in-place-"+m] = true
			} else {
				st = []zr.Stmt{zr.Set(g.path(zr.N(dst.name), 1+r.Intn(3)), g.scalar())}
				g.feat["write-deep"] = true
			}
		case 7: // mutating list method at depth
			dst, ok := g.pickVar("list", "dict", "any")
			if !ok {
				continue
			}
			m := []string{"后增", "前增"}[r.Intn(2)]
			st = []zr.Stmt{zr.ExprStmt{E: zr.MCall{Recv: g.path(zr.N(dst.name), r.Intn(3)), Chain: []zr.CallPart{{Fn: m, Args: []zr.Expr{g.scalar()}}}}}}
			g.feat["method-"+m] = true
		case 8: // 左移 / 右移 / 交换
			dst, ok := g.pickVar("list", "any")
			if !ok {
				continue
			}
			switch r.Intn(3) {
			case 0:
				st = []zr.Stmt{zr.ExprStmt{E: zr.MCall{Recv: g.path(zr.N(dst.name), r.Intn(2)), Chain: []zr.CallPart{{Fn: "左移"}}}}}
			case 1:
				st = []zr.Stmt{zr.ExprStmt{E: zr.MCall{Recv: g.path(zr.N(dst.name), r.Intn(2)), Chain: []zr.CallPart{{Fn: "右移"}}}}}
			default:
				st = []zr.Stmt{zr.ExprStmt{E: zr.MCall{Recv: g.path(zr.N(dst.name), r.Intn(2)), Chain: []zr.CallPart{{Fn: "交换", Args: []zr.Expr{intLit(1), intLit(2)}}}}}}
			}
			g.feat["method-shift-swap"] = true
		case 9: // dict 写入 / 移除
			dst, ok := g.pickVar("dict", "any")
			if !ok {
				continue
			}
			k := zr.S(fmt.Sprintf("键%c", nameGlyphs[r.Intn(4)]))
			if r.Intn(2) == 0 {
				st = []zr.Stmt{zr.ExprStmt{E: zr.MCall{Recv: g.path(zr.N(dst.name), r.Intn(2)), Chain: []zr.CallPart{{Fn: "写入", Args: []zr.Expr{k, g.scalar()}}}}}}
			} else {
				st = []zr.Stmt{zr.ExprStmt{E: zr.MCall{Recv: g.path(zr.N(dst.name), r.Intn(2)), Chain: []zr.CallPart{{Fn: "移除", Args: []zr.Expr{k}}}}}}
			}
			g.feat["method-dict"] = true
		case 10: // object property write through an alias, method call
			o, ok := g.pickVar("obj")
			if !ok {
				continue
			}
			switch r.Intn(3) {
			case 0:
				st = []zr.Stmt{zr.Set(zr.Member{Recv: zr.N(o.name), Prop: "数"}, g.scalar())}
			case 1:
				st = []zr.Stmt{zr.ExprStmt{E: zr.MCall{Recv: zr.N(o.name), Chain: []zr.CallPart{{Fn: "装", Args: []zr.Expr{g.scalar()}}}}}}
			default:
				src, ok := g.pickVar("list")
				if !ok {
					continue
				}
				st = []zr.Stmt{zr.Set(zr.Member{Recv: zr.N(o.name), Prop: "列"}, zr.N(src.name))}
				g.feat["copy-into-property"] = true
			}
			g.feat["object-shared"] = true
		case 11: // new object (fresh defaults)
			n := g.fresh("物")
			st = []zr.Stmt{zr.LetS(n, zr.New{Class: "盒"})}
			g.vars = append(g.vars, c07Var{n, "obj"})
			g.feat["new-object"] = true
		case 12: // literal re-executed in a loop: each pass gets a fresh value
			n := g.fresh("集")
			inner := g.fresh("新")
			st = []zr.Stmt{
				zr.LetS(n, zr.ListLit{}),
				zr.Iter{Names: []string{"轮" + inner}, Over: zr.ListLit{Items: []zr.Expr{intLit(1), intLit(2), intLit(3)}}, Body: []zr.Stmt{
					zr.LetS(inner, zr.ListLit{Items: []zr.Expr{intLit(0)}}),
					zr.ExprStmt{E: zr.MCall{Recv: zr.N(inner), Chain: []zr.CallPart{{Fn: "后增", Args: []zr.Expr{zr.N("轮" + inner)}}}}},
					zr.Show(zr.S("新"), zr.N(inner)),
				}},
			}
			g.vars = append(g.vars, c07Var{n, "list"})
			g.feat["fresh-literal-in-loop"] = true
		case 13: // copy out of a loop variable, then mutate the copy
			src, ok := g.pickVar("list")
			if !ok {
				continue
			}
			lv, cp := g.fresh("环"), g.fresh("抄")
			st = []zr.Stmt{zr.Iter{Names: []string{lv}, Over: zr.N(src.name), Body: []zr.Stmt{
				zr.LetS(cp, zr.N(lv)),
				zr.Show(zr.S("抄"), zr.N(cp)),
			}}}
			g.feat["copy-from-loop-var"] = true
		}
		if st == nil {
			continue
		}
		// keep histories long: a step that fails (missing path, wrong kind) or is unspecified
		// is mostly discarded, judged by running the reference on the history so far
		trial := append(append([]zr.Stmt{}, body...), st...)
		trial = append(trial, g.showAll())
		res := zr.NewInterp().Run(&zr.Program{Body: trial})
		if res.Err != nil {
			if _, unspec := res.Err.(*zr.Unspec); unspec || r.Intn(100) < 93 {
				g.vars = g.vars[:nvars]
				continue
			}
			body = trial
			break
		}
		body = trial
	}
	return &zr.Program{Body: body}
}

func checkC07(c *Ctx) {
	c.rule = "histories: 2-4 variables holding nested lists/dictionaries (depth<=3) and objects of a type with a list property; steps = copies via 令, multi-declaration, =, element assignment of whole collections, copies out of elements and loop variables, property assignment, assignments and declarations whose right-hand side is a call that hands back its receiver (后增 / 前增), its argument (a user method) or the object's own list (a type method); copies declared with 设为 and 恒为, several names from one literal; named collections (or elements reached through a name) stored through 写入 (new and existing keys) / 后增 / 前增 / 合并; mutations through any name at any depth (element/key writes on index paths, in-place 自增/自减 on nested numbers, 后增 前增 左移 右移 交换 写入 移除, object property writes and methods through aliases), literals re-executed in loops; every variable is displayed after every step. Each step may fail (missing path): reference and implementation must then fail alike. Oracle: reference heap model (deep copy on declare/assign/element assign, objects by reference, fresh literals). distinct_nontrivial = distinct (feature set, history length, outcome kind) among histories with at least one copy and one later mutation"
	c.assumptions = []string{"mutation through loop variables / method parameters is not generated (U2)", "display is compared atom-wise"}
	rng := c.Rand("c07")
	var progs []*zr.Program
	var shapes []string
	n := c.Pick(3000, 150000)
	for i := 0; i < n; i++ {
		g := &c07Gen{r: rng, feat: map[string]bool{}}
		steps := 3 + rng.Intn(c.Pick(10, 38))
		p := g.program(steps)
		progs = append(progs, p)
		shapes = append(shapes, fmt.Sprintf("hist/%d/%s", steps/4, featureKey(g.feat)))
	}
	var inputs []map[string]Val
	// a default property written as 其X = ‹variable› takes a copy like every other store: what is
	// done to the variable afterwards (in place) must not show in objects created later
	{
		type hp struct {
			name, src, want string
			in               map[string]Val
		}
		hps := []hp{
			{"default-from-input-list", "输入库存\n定义盒：\n\t其内容 = 库存\n令甲 = （新建盒）\n以库存（后增：2）\n令乙 = （新建盒）\n输出【甲之内容，乙之内容，库存】\n", `list[list[num(1)],list[num(1)],list[num(1),num(2)]]`, map[string]Val{"库存": List(Num(1))}},
			{"default-from-input-dict", "输入库存\n定义盒：\n\t其册 = 【“甲” = 库存】\n令甲 = （新建盒）\n库存#“k” = 9\n令乙 = （新建盒）\n输出【甲之册，乙之册】\n", `list[dict["甲"=dict["k"=num(1)]],dict["甲"=dict["k"=num(1)]]]`, map[string]Val{"库存": Dict([]string{"k"}, []Val{Num(1)})}},
			{"default-from-parameter", "如何造？\n\t输入料\n\t定义盒：\n\t\t其内容 = 料\n\t令甲 = （新建盒）\n\t以料（后增：2）\n\t令乙 = （新建盒）\n\t输出【甲之内容，乙之内容】\n令原 = 【1】\n输出（造：原）\n", `list[list[num(1)],list[num(1)]]`, nil},
			{"literal-item-is-a-value/number", "令数 = 5\n输出【数，以数（自增：1），数】\n", `list[num(5),num(6),num(6)]`, nil},
			{"literal-item-is-a-value/list", "令甲 = 【1】\n输出【甲，以甲（后增：2），甲】\n", `list[list[num(1)],list[num(1),num(2)],list[num(1),num(2)]]`, nil},
			{"literal-item-is-a-value/dict", "令数 = 5\n输出【“a” = 数，“b” = 以数（自增：1），“c” = 数】\n", `dict["a"=num(5),"b"=num(6),"c"=num(6)]`, nil},
			{"literal-item-is-a-value/nested", "令数 = 5\n令果 = 【【数】，以数（自减：2），【“k” = 数】】\n输出 果\n", `list[list[num(5)],num(3),dict["k"=num(3)]]`, nil},
			{"default-from-element", "输入表\n定义盒：\n\t其内容 = 表#“货”\n令甲 = （新建盒）\n以表#“货”（后增：2）\n令乙 = （新建盒）\n输出【甲之内容，乙之内容】\n", `list[list[num(1)],list[num(1)]]`, map[string]Val{"表": Dict([]string{"货"}, []Val{List(Num(1))})}},
		}
		hreqs := make([]Req, len(hps))
		for k, h := range hps {
			hreqs[k] = execReq(h.src)
			hreqs[k].Inputs = h.in
		}
		c.runBatches(hreqs, 10, func(k int, req *Req, resp *Resp) {
			c.Eval()
			c.Nontrivial("hand|" + hps[k].name + "|" + resp.Kind)
			got := resp.Kind
			if resp.Kind == "value" && resp.Val != nil {
				got = resp.Val.String()
			}
			if got != hps[k].want {
				c.Violation("hand:"+hps[k].name, fmt.Sprintf("%s: outcome %s %v, expected %s\nprogram:\n%s", hps[k].name, got, resp.Err, hps[k].want, hps[k].src), map[string]interface{}{"req": req})
			}
		})
	}
	c.runRefCases("heap", progs, inputs, shapes, nil, nil)
	// what a collection hands out as a derived list (逆序, 所有值, 所有索引, 字符组-like getters) is a
	// list of its own at every size - also for collections of 0 and 1 items, where "nothing to
	// reverse" is no reason to hand out the collection's own storage: changes made through a loop
	// variable, a parameter or an index of the derived list never show in the collection
	{
		hc := []handCase{}
		for n := 0; n <= 4; n++ {
			items, want := []string{}, []string{}
			for k := 1; k <= n; k++ {
				items = append(items, fmt.Sprintf("【%d，%d】", k, k+1))
				want = append(want, fmt.Sprintf("list[num(%d),num(%d)]", k, k+1))
			}
			lit := "【" + strings.Join(items, "，") + "】"
			wl := "list[" + strings.Join(want, ",") + "]"
			pre := "如何改？\n\t输入列\n\t以项遍历列：\n\t\t以项（前增：0）\n\t以列（后增：【7】）\n\t输出 1\n令集 = " + lit + "\n"
			hc = append(hc,
				handCase{fmt.Sprintf("reverse/loop-variable/%d", n), pre + "以项遍历 集之逆序：\n\t以项（后增：9）\n输出 集\n", wl},
				handCase{fmt.Sprintf("reverse/parameter/%d", n), pre + "（改：集之逆序）\n输出 集\n", wl},
				handCase{fmt.Sprintf("reverse/then-grow-both/%d", n), pre + "以集（后增：【5，6】）\n以集（右移）\n令反 = 集之逆序\n以 集之逆序（后增：【8】）\n以集（后增：【8，8】）\n以集（右移）\n输出 集\n", wl},
			)
			nums, wn, keys, wk := []string{}, []string{}, []string{}, []string{}
			for k := 1; k <= n; k++ {
				nums = append(nums, fmt.Sprint(k*5))
				wn = append(wn, fmt.Sprintf("num(%d)", k*5))
				keys = append(keys, fmt.Sprintf("“k%d” = 【%d】", k, k))
				wk = append(wk, fmt.Sprintf("%q=list[num(%d)]", fmt.Sprintf("k%d", k), k))
			}
			dl := "【" + strings.Join(keys, "，") + "】"
			if n == 0 {
				dl = "【=】"
			}
			hc = append(hc,
				handCase{fmt.Sprintf("reverse/numbers-in-loop/%d", n), "令数列 = 【" + strings.Join(nums, "，") + "】\n以数遍历 数列之逆序：\n\t以数（自增：1）\n输出 数列\n", "list[" + strings.Join(wn, ",") + "]"},
				handCase{fmt.Sprintf("values/loop-variable/%d", n), "令典 = " + dl + "\n以项遍历 典之所有值：\n\t以项（后增：9）\n输出 典\n", "dict[" + strings.Join(wk, ",") + "]"},
			)
		}
		// the items of a list / dictionary literal are copies of what their expressions yield - the
		// first, a middle, the last and the only item alike - wherever the literal is used without
		// being stored first: as an argument, as the collection a loop runs over, as a receiver
		mod := "如何改？\n\t输入表\n\t以项遍历表：\n\t\t以项（后增：9）\n\t输出 1\n如何改典？\n\t输入表\n\t以键、项遍历表：\n\t\t项#“k” = 7\n\t输出 1\n令甲 = 【1，2】\n令乙 = 【3】\n令典 = 【“k” = 0】\n"
		for li, lit := range []string{"【甲】", "【甲，乙】", "【【】，甲】", "【甲，【】】", "【乙，甲，乙】", "【乙，乙，甲】"} {
			hc = append(hc,
				handCase{fmt.Sprintf("literal-item/argument/%d", li), mod + "（改：" + lit + "）\n输出【甲，乙】\n", "list[list[num(1),num(2)],list[num(3)]]"},
				handCase{fmt.Sprintf("literal-item/loop/%d", li), mod + "以项遍历" + lit + "：\n\t如果 项 不为 0：\n\t\t以项（后增：9）\n输出【甲，乙】\n", "list[list[num(1),num(2)],list[num(3)]]"},
			)
		}
		for li, lit := range []string{"【“a” = 典】", "【“a” = 【“k” = 5】，“b” = 典】", "【“a” = 典，“b” = 【“k” = 5】】"} {
			hc = append(hc, handCase{fmt.Sprintf("literal-item/dictionary-argument/%d", li), mod + "（改典：" + lit + "）\n输出 典\n", `dict["k"=num(0)]`})
		}
		c.runHand("derived-lists", hc)
	}
	// values handed to a library constructor are stored like values handed to a constructor
	// written in Zn (其头部 = 头部 keeps a copy): the object and the variable stay independent
	c.runHand("native-constructor", []handCase{
		{"http-response-header-dictionary", "导入《@样品库》\n令头 = 【“A” = “1”】\n令应 = （新建HTTP响应：200、“ok”、头）\n头#“B” = “2”\n应之头部#“C” = “3”\n输出【头，应之头部】\n", `list[dict["A"=text("1"),"B"=text("2")],dict["A"=text("1"),"C"=text("3")]]`},
		{"http-response-header-two-objects", "导入《@样品库》\n令头 = 【“A” = 【1】】\n令甲 = （新建HTTP响应：200、“ok”、头）\n令乙 = （新建HTTP响应：201、“ok”、头）\n以甲之头部#“A”（后增：2）\n输出【头，甲之头部，乙之头部】\n", `list[dict["A"=list[num(1)]],dict["A"=list[num(1),num(2)]],dict["A"=list[num(1)]]]`},
		{"http-response-content-list", "导入《@样品库》\n令体 = 【1，2】\n令应 = （新建HTTP响应：200、体）\n以体（后增：3）\n输出【体，应之内容】\n", `list[list[num(1),num(2),num(3)],list[num(1),num(2)]]|list[list[num(1),num(2),num(3)],text("[1,2]")]`},
	})
}
