package main

import (
	"strconv"
	"fmt"
	"math"
	"math/rand"
	"regexp"
	"sort"
	"strings"

	. "verif/internal/proto"
)

func init() { register("C04", "exploration", checkC04) }

// keyword table (manual 第1章): spelling -> token type code
var c04Keywords = []struct {
	s string
	t int
}{
	{"令", 40}, {"为", 41}, {"恒为", 42}, {"再如", 43}, {"如果", 44}, {"如何", 45}, {"何为", 46}, {"输出", 48}, {"设为", 49},
	{"不为", 50}, {"不等于", 51}, {"不大于", 52}, {"不小于", 53}, {"小于", 54}, {"大于", 55}, {"以", 56}, {"否则", 59}, {"每当", 60},
	{"新建", 61}, {"定义", 63}, {"其", 65}, {"或", 69}, {"且", 70}, {"之", 71}, {"的", 72}, {"拦截", 73}, {"等于", 74}, {"输入", 75},
	{"遍历", 76}, {"导入", 77}, {"得到", 78}, {"抛出", 79}, {"继续循环", 80}, {"结束循环", 81},
}

const (
	tIdent   = 5
	tString  = 2
	tComment = 10
)

var c04Punct = map[rune]int{'，': 11, ',': 11, '、': 26, '：': 13, ':': 13, '；': 12, ';': 12, '？': 14, '?': 14, '！': 16, '!': 16,
	'【': 20, '[': 20, '】': 21, ']': 21, '（': 22, '(': 22, '）': 23, ')': 23, '{': 24, '}': 25}

var c04Whitespace = []rune{0x0009, 0x000B, 0x000C, 0x0020, 0x00A0, 0x2000, 0x2001, 0x2002, 0x2003, 0x2004, 0x2005, 0x2006, 0x2007, 0x2008, 0x2009, 0x200A, 0x200B, 0x202F, 0x205F, 0x3000}

func keywordAt(rs []rune, i int) (string, int, bool) {
	best := ""
	bt := 0
	for _, k := range c04Keywords {
		kr := []rune(k.s)
		if i+len(kr) <= len(rs) && string(rs[i:i+len(kr)]) == k.s && len(kr) > len([]rune(best)) {
			best, bt = k.s, k.t
		}
	}
	return best, bt, best != ""
}

type expTok struct {
	typ int
	lit string
	has bool // literal is compared
}

var reNumForm = regexp.MustCompile(`^[+-]?\d+(\.\d+)?([eE][+-]\d+|\*(10)?\^[+-]?\d+)?$`)
var reNumStart = regexp.MustCompile(`^[+-]?\d`)
var reNumParts = regexp.MustCompile(`^([+-]?)(\d+)(?:\.(\d+))?(?:[eE]([+-]\d+)|\*(?:10)?\^([+-]?\d+))?$`)

func numFormValue(s string) float64 {
	m := reNumParts.FindStringSubmatch(s)
	exp := 0
	es := m[4]
	if es == "" {
		es = m[5]
	}
	if es != "" {
		neg := false
		if es[0] == '+' {
			es = es[1:]
		} else if es[0] == '-' {
			neg = true
			es = es[1:]
		}
		es = strings.TrimLeft(es, "0")
		if len(es) > 12 {
			exp = 1 << 40 // (decides the value whatever the digits are: no digit string is that long)
		} else {
			fmt.Sscanf(es, "%d", &exp)
		}
		if neg {
			exp = -exp
		}
	}
	return decimalValue(m[1] == "-", m[2]+m[3], exp-len(m[3]))
}

// ---------------------------------------------------------------- monitor 1: alphabet

func checkC04Alphabet(c *Ctx) {
	resp := c.Pool.Do(Req{Op: "idrange"})
	c.Eval()
	if resp.Kind != "ok" {
		c.Violation("alphabet:outcome:x", "idrange: "+resp.Kind+" "+clip(resp.Panic+resp.Stderr, 300), map[string]interface{}{"req": Req{Op: "idrange"}})
		return
	}
	table := resp.Table
	for i := range table {
		if table[i][0] > table[i][1] {
			c.Violation(fmt.Sprintf("alphabet:table:inverted/%d", i), fmt.Sprintf("identifier range table entry %d is inverted: %x..%x", i, table[i][0], table[i][1]), nil)
		}
		if i > 0 && table[i][0] <= table[i-1][1] {
			c.Violation(fmt.Sprintf("alphabet:table:order/%d", i), fmt.Sprintf("identifier range table is not sorted / overlaps at entry %d: %x..%x after %x..%x (binary search precondition)", i, table[i][0], table[i][1], table[i-1][0], table[i-1][1]), nil)
		}
	}
	// expected membership by linear scan, as runs
	member := func(cp int32) bool {
		if cp < 0 || cp > 0xffff {
			return false
		}
		for _, p := range table {
			if cp >= p[0] && cp <= p[1] {
				return true
			}
		}
		return false
	}
	got := map[int32]bool{}
	n := 0
	for _, r := range resp.Ranges {
		for cp := r[0]; cp <= r[1]; cp++ {
			got[cp] = true
			n++
		}
	}
	c.Extra("alphabet_code_points_in_range", n)
	c.Extra("alphabet_table_entries", len(table))
	mism := 0
	for cp := int32(-70000); cp < 0x110400; cp++ {
		if member(cp) != got[cp] {
			mism++
			if mism <= 3 {
				c.Violation(fmt.Sprintf("alphabet:lookup:%x", cp), fmt.Sprintf("IdInRange(U+%04X) = %v but a linear scan of the table says %v", cp, got[cp], member(cp)), map[string]interface{}{"req": Req{Op: "idrange"}})
			}
		}
	}
	c.Count("evaluations", 0x110400+70000)
	c.Count("alphabet_code_points_checked", 0x110400+70000)
	if len(resp.Ints) > 0 {
		c.Violation("alphabet:extreme:x", fmt.Sprintf("IdInRange is true for out-of-range values %v", resp.Ints), nil)
	}
	for _, p := range table {
		c.Nontrivial(fmt.Sprintf("alphabet|%x", p[0]))
	}
	// lexer agreement for lone characters
	special := map[rune]bool{0: true, '\r': true, '\n': true, '`': true, '注': false}
	for _, w := range c04Whitespace {
		special[w] = true
	}
	for p := range c04Punct {
		special[p] = true
	}
	for _, o := range "&@#=<>+-*/|%." {
		special[o] = true
	}
	for _, q := range allQuotes {
		special[q] = true
	}
	for _, k := range c04Keywords {
		kr := []rune(k.s)
		if len(kr) == 1 {
			special[kr[0]] = true
		}
	}
	cps := []rune{}
	if c.Quick() {
		rng := c.Rand("alpha")
		for _, p := range table {
			for d := int32(-2); d <= 2; d++ {
				cps = append(cps, rune(p[0]+d), rune(p[1]+d))
			}
		}
		for i := 0; i < 20000; i++ {
			cps = append(cps, rune(rng.Intn(0x30000)))
		}
		cps = append(cps, 0x10000, 0x10FFFF, 0x1F600, 0x20000)
	} else {
		for cp := rune(1); cp < 0x11000; cp++ {
			cps = append(cps, cp)
		}
		for cp := rune(0x11000); cp <= 0x10FFFF; cp += 37 {
			cps = append(cps, cp)
		}
	}
	reqs := []Req{}
	keep := []rune{}
	for _, cp := range cps {
		if cp <= 0 || special[cp] || (cp >= 0xD800 && cp <= 0xDFFF) {
			continue
		}
		reqs = append(reqs, Req{Op: "tokens", Src: []int32{int32(cp)}})
		keep = append(keep, cp)
	}
	c.runBatches(reqs, 3000, func(i int, req *Req, resp *Resp) {
		c.Eval()
		cp := keep[i]
		want := member(int32(cp))
		isIdent := resp.Kind == "ok" && len(resp.Toks) == 2 && resp.Toks[0].Type == tIdent && len(resp.Toks[0].Lit) == 1 && resp.Toks[0].Lit[0] == int32(cp)
		isErr := resp.Kind == "error" && resp.Err.Class == "syntax"
		if want && !isIdent || !want && !isErr {
			c.Violation(fmt.Sprintf("alphabet:lexer:%x", cp), fmt.Sprintf("a lone U+%04X lexes as %s %v, but the table says identifier character = %v", cp, resp.Kind, resp.Toks, want), map[string]interface{}{"req": req})
		}
	})
}

// ---------------------------------------------------------------- monitor 2: numeric form

// checkC04Positions: "an identifier that starts like a number but is not one is rejected, never
// treated as a name" - wherever a name can stand: variable, property (declared and read), method,
// type, parameter, 得到 name, loop variable, method of a type, call. The same programs with a
// proper name in that place are the controls (they must run).
func checkC04Positions(c *Ctx) {
	templates := map[string]string{
		"variable":        "令§ = 1\n输出 §\n",
		"assign":          "令甲 = 1\n§ = 2\n输出 1\n",
		"property-decl":   "定义狗：\n\t其§ = 7\n\n令甲 =（新建狗）\n输出 1\n",
		"property-read":   "定义狗：\n\t其§ = 7\n\n令甲 =（新建狗）\n输出甲之§\n",
		"property-write":  "定义狗：\n\t其§ = 7\n\n令甲 =（新建狗）\n甲之§ = 8\n输出 甲之§\n",
		"property-this":   "定义狗：\n\t其§ = 7\n\t如何取？\n\t\t输出 其§\n\n令甲 =（新建狗）\n输出 以甲（取）\n",
		"method":          "如何§？\n\t输出 1\n\n输出（§）\n",
		"method-uncalled": "如何§？\n\t输出 1\n\n输出 1\n",
		"type":            "定义§：\n\t其名 = 1\n\n输出（新建§）之名\n",
		"parameter":       "如何f？\n\t输入§\n\t输出 1\n\n输出（f：2）\n",
		"yield":           "如何f？\n\t输出 1\n\n（f）得到§\n输出 1\n",
		"loop-variable":   "以§遍历【1，2】：\n\t（显示：1）\n输出 1\n",
		"type-method":     "定义狗：\n\t其名 = 7\n\t如何§？\n\t\t输出 1\n\n令甲 =（新建狗）\n输出 以甲（§）\n",
		"builtin-method":  "令甲 = 【1，2】\n输出 以甲（§）\n",
		"input":           "输入§\n输出 1\n",
		"import-item":     "导入《@JSON》的§\n输出 1\n",
		"import-items":    "导入《@JSON》的解析JSON、§\n输出 1\n",
		"thrown-type":     "抛出§：“x”！\n",
		"handler-type":    "输出 1 / 0\n\n拦截§：\n\t输出 2\n",
	}
	// (number-like non-numbers, then proper numbers, then both with a sign: none of them is a name)
	bad := []string{"5x", "1e+", "3x7", "12abc", "0x10", "1.2.3", "1e5e", "2*^", "7%4", "9甲", "5", "12.5", "1e+5", "-5", "+45.78", "-12.8*10^15", "-5kg", "+3.", "-1e5", "+5x"}
	good := []string{"甲", "x5", "名称"}
	type cs struct {
		pos, id, src string
		bad          bool
	}
	var cases []cs
	for pos, t := range templates {
		for _, id := range bad {
			cases = append(cases, cs{pos, id, strings.ReplaceAll(t, "§", id), true})
		}
		for _, id := range good {
			cases = append(cases, cs{pos, id, strings.ReplaceAll(t, "§", id), false})
		}
	}
	sort.Slice(cases, func(i, j int) bool { return cases[i].pos+cases[i].id < cases[j].pos+cases[j].id })
	reqs := make([]Req, len(cases))
	for i, k := range cases {
		reqs[i] = execReq(k.src)
		reqs[i].EvalBudget = 5000
		if k.pos == "input" {
			reqs[i].Inputs = map[string]Val{k.id: Num(1)}
		}
	}
	for i := range reqs {
		if strings.HasPrefix(cases[i].pos, "import-item") {
			reqs[i].Libs = true
		}
	}
	// the target of an input-variable assignment is a name too
	vbad := 0
	for _, id := range append(append([]string{}, bad...), good...) {
		for _, form := range []string{"§ = 5", "甲 = 1；§ = 2", "§设为【1，2】"} {
			text := strings.ReplaceAll(form, "§", id)
			isBad := false
			for _, b := range bad {
				if b == id {
					isBad = true
				}
			}
			cases = append(cases, cs{"varinput-target", id, text, isBad})
			reqs = append(reqs, Req{Op: "varinput", Text: text, ParseBudget: 5000, EvalBudget: 5000})
			vbad++
		}
	}
	c.runBatches(reqs, 60, func(i int, req *Req, resp *Resp) {
		c.Eval()
		k := cases[i]
		if k.pos == "varinput-target" {
			c.Count("name_positions_checked", 1)
			c.Nontrivial(fmt.Sprintf("position|%s|%s|%s", k.pos, k.id, resp.Kind))
			if k.bad && resp.Kind != "error" {
				c.Violation("positions:"+k.pos+":"+k.id, fmt.Sprintf("%q starts like a number but is not one, yet input-variable text %q was accepted: %s %s", k.id, k.src, resp.Kind, clip(resp.Outcome(), 120)), map[string]interface{}{"req": req})
			}
			if !k.bad && resp.Kind != "ok" {
				c.Violation("positions-control:"+k.pos+":"+k.id, fmt.Sprintf("control: input-variable text %q must work, outcome %s %v", k.src, resp.Kind, resp.Err), map[string]interface{}{"req": req})
			}
			return
		}
		c.Count("name_positions_checked", 1)
		c.Nontrivial(fmt.Sprintf("position|%s|%s|%s", k.pos, k.id, resp.Kind))
		if k.bad && resp.Kind != "error" {
			c.Violation("positions:"+k.pos+":"+k.id, fmt.Sprintf("%q is a number or starts like one, yet it was accepted as a name (%s): outcome %s %s\nprogram:\n%s", k.id, k.pos, resp.Kind, resp.Outcome(), k.src), map[string]interface{}{"req": req})
		}
		if !k.bad && resp.Kind != "value" && k.pos != "thrown-type" && k.pos != "handler-type" && k.pos != "builtin-method" && k.pos != "assign" && !strings.HasPrefix(k.pos, "import-item") {
			c.Violation("positions-control:"+k.pos+":"+k.id, fmt.Sprintf("control: the proper name %q in position %s must work, outcome %s %v\nprogram:\n%s", k.id, k.pos, resp.Kind, resp.Err, k.src), map[string]interface{}{"req": req})
		}
	})
}

func checkC04Numeric(c *Ctx) {
	alpha := []byte("017+-.eE*^x")
	maxLen := c.Pick(5, 7)
	rng := c.Rand("numeric")
	var strs []string
	flush := func() {
		if len(strs) == 0 {
			return
		}
		batch := strs
		strs = nil
		judgeNumeric(c, batch)
	}
	var rec func(cur []byte)
	rec = func(cur []byte) {
		if len(cur) > 0 && cur[0] != '.' {
			strs = append(strs, string(cur))
			if len(strs) >= 400000 {
				flush()
			}
		}
		if len(cur) == maxLen {
			return
		}
		for _, a := range alpha {
			rec(append(cur, a))
		}
	}
	rec(nil)
	flush()
	// live prefixes of valid numbers x short suffixes
	prefixes := []string{"1", "+1", "-0", "12", "1.", "1.5", "1e", "1E", "1e+", "1e-", "1e+1", "1*", "1*1", "1*10", "1*10^", "1*^", "1*^-", "1*^5", "1.5*10^+", "12.75e-", "007", "+1.0E+1", "1*1", "1*10^-3"}
	for _, p := range prefixes {
		var rec2 func(cur string, n int)
		rec2 = func(cur string, n int) {
			strs = append(strs, p+cur)
			if n == 3 {
				return
			}
			for _, a := range alpha {
				rec2(cur+string(a), n+1)
			}
		}
		rec2("", 0)
	}
	flush()
	// random long mutated numbers (value check)
	for i := 0; i < c.Pick(100000, 2000000); i++ {
		n := numLit(rng)
		s := n.Lit
		if rng.Intn(4) == 0 {
			// long digit strings
			for k := 0; k < rng.Intn(30); k++ {
				s = strings.Replace(s, ".", string(rune('0'+rng.Intn(10)))+".", 1)
			}
			if !strings.Contains(s, ".") && rng.Intn(2) == 0 {
				for k := 0; k < rng.Intn(25); k++ {
					s += string(rune('0' + rng.Intn(10)))
				}
			}
		}
		if rng.Intn(5) == 0 && len(s) > 0 {
			b := []byte(s)
			b[rng.Intn(len(b))] = alpha[rng.Intn(len(alpha))]
			s = string(b)
		}
		if s[0] == '.' {
			continue
		}
		strs = append(strs, s)
	}
	flush()
	// very long digit strings (hundreds to thousands of digits before or after the point, brought
	// back into range by the exponent): the value is still the correctly rounded double
	for _, n := range []int{300, 700, 799, 800, 801, 802, 850, 1000, 1600, 3000} {
		zeros := strings.Repeat("0", n)
		rd := func(k int) string {
			b := make([]byte, k)
			for i := range b {
				b[i] = byte('0' + rng.Intn(10))
			}
			if b[0] == '0' {
				b[0] = '7'
			}
			return string(b)
		}
		strs = append(strs,
			"1"+zeros+fmt.Sprintf("*10^-%d", n), "3"+zeros+fmt.Sprintf("e-%d", n), "-1"+zeros+fmt.Sprintf("*^-%d", n), "+25"+zeros+fmt.Sprintf("E-%d", n+1),
			rd(n)+fmt.Sprintf("e-%d", n-3), rd(n)+"."+rd(40)+fmt.Sprintf("E-%d", n-17), rd(n)+fmt.Sprintf("*10^-%d", n+300),
			"0."+zeros+"1"+fmt.Sprintf("e+%d", n+1), "0."+zeros+rd(30)+fmt.Sprintf("*10^+%d", n+5), rd(5)+"."+rd(n)+"e+2",
			"137975"+zeros+"."+strings.Repeat("0", 26)+fmt.Sprintf("E-%d", n-2))
	}
	flush()
	// six-digit exponents and a hundred thousand leading zeros (before the point: the manual
	// allows 0129.8; after the point: cancelled by the exponent)
	for _, n := range []int{9990, 9999, 10000, 10001, 20000, 100000, 100003} {
		zeros := strings.Repeat("0", n)
		strs = append(strs,
			zeros+"1", "-"+zeros+"7e+3", zeros+"1.5", "+"+zeros+"12345*^-2", zeros+"."+zeros+"25E"+strconv.Itoa(n),
			"0."+zeros+"1e+"+strconv.Itoa(n+1), "0."+zeros+"1*^"+strconv.Itoa(n+1), "-0."+zeros+"25*10^+"+strconv.Itoa(n+2), "0."+zeros+"1E+"+strconv.Itoa(n+301),
			"0."+zeros+"1e+"+strconv.Itoa(n+400), "0."+zeros+"1e"+strconv.Itoa(n-400), "1"+zeros+"e-"+strconv.Itoa(n), "1"+zeros+"."+zeros+"e-"+strconv.Itoa(n-2), "3"+zeros+"*10^-"+strconv.Itoa(n+330))
	}
	flush()
	// exponents at and beyond the edges of the machine integers, after short and very long
	// digit strings: the value is an infinity or a zero of the right sign, whatever the length
	for _, n := range []int{0, 4, 298, 699, 700, 701, 702, 1500} {
		zeros := strings.Repeat("0", n)
		for _, e := range []string{"2147483647", "2147483648", "4294967296", "9223372036854775000", "9223372036854775806", "9223372036854775807", "9223372036854775808", "18446744073709551615", "18446744073709551616", "99999999999999999999999999"} {
			for _, sg := range []string{"", "+", "-"} {
				strs = append(strs, "1"+zeros+"*^"+sg+e, "-7"+zeros+"e"+sg+e, "12"+zeros+".5E"+sg+e, "0."+zeros+"3*10^"+sg+e, "+4"+zeros+"."+zeros+"e"+sg+e)
			}
		}
	}
	flush()
}

func judgeNumeric(c *Ctx, strs []string) {
	chunk := 40000
	n := (len(strs) + chunk - 1) / chunk
	c.Pool.Map(n, func(ci int) {
		lo, hi := ci*chunk, ci*chunk+chunk
		if hi > len(strs) {
			hi = len(strs)
		}
		req := Req{Op: "idmatch", Strs: strs[lo:hi]}
		resp := c.Pool.Do(req)
		if resp.Kind != "ok" || len(resp.IDs) != hi-lo {
			c.Violation(fmt.Sprintf("numeric:outcome:%s", strs[lo]), "idmatch batch: "+resp.Kind+" "+clip(resp.Panic+resp.Stderr, 300), nil)
			return
		}
		c.Count("evaluations", int64(hi-lo))
		c.Count("numeric_strings", int64(hi-lo))
		for k, r := range resp.IDs {
			s := strs[lo+k]
			want := "name"
			var wv float64
			if reNumForm.MatchString(s) {
				want = "num"
				wv = numFormValue(s)
			} else if reNumStart.MatchString(s) {
				want = "err"
			}
			if want != "name" {
				c.Nontrivial("num|" + want + "|" + numShape(s))
			}
			rp := map[string]interface{}{"req": Req{Op: "idmatch", Strs: []string{s}}, "expected": want}
			if r.Kind == "panic" {
				c.Violation("numeric:panic:"+s, fmt.Sprintf("classifying %q panicked: %s", s, r.Panic), rp)
				continue
			}
			if r.Kind != want {
				c.Violation("numeric:class:"+want+"/"+r.Kind+"/"+s, fmt.Sprintf("identifier %q is classified as %s, the documented numeric form says %s", s, r.Kind, want), rp)
				continue
			}
			if want == "num" {
				gv := math.Float64frombits(r.Bits)
				if gv != wv && !(math.IsNaN(gv) && math.IsNaN(wv)) || math.Signbit(gv) != math.Signbit(wv) {
					c.Violation("numeric:value:"+s, fmt.Sprintf("numeric identifier %q has value %v, the correctly rounded double is %v", s, gv, wv), rp)
				}
			}
		}
	})
}

func numShape(s string) string {
	var sb strings.Builder
	var last byte
	for i := 0; i < len(s); i++ {
		ch := s[i]
		if ch >= '0' && ch <= '9' {
			ch = 'd'
		}
		if ch == 'd' && last == 'd' {
			continue
		}
		sb.WriteByte(ch)
		last = ch
	}
	return sb.String()
}

// ---------------------------------------------------------------- monitor 3: segmentation

var c04NameAlphabets = [][]rune{
	[]rune("甲乙丙丁戊己庚辛壬癸子丑寅卯辰巳午未申酉戌亥天地玄黄宇宙洪荒日月盈昃"),
	[]rune("abcdefghijklmnopqrstuvwxyzABCDEFGHIJKLMNOPQRSTUVWXYZ"),
	[]rune("αβγδεζηθικλμνξοπρστυφχψω"),
	[]rune("あいうえおかきくけこアイウエオ"),
	[]rune("한글조선말가나다라"),
}

// glyphs that occur in keywords but are not keywords on their own in these contexts
var c04KeywordGlyphs = []rune("不于义何入再出则到历否大如定导小建当得循恒截抛拦新束果每环等结继续设输遍")

type segTok struct {
	kind string // kw name btname num op punct str comment-line comment-block
	text string // source text
	exp  expTok
}

func c04Name(r *rand.Rand) string {
	al := c04NameAlphabets[r.Intn(len(c04NameAlphabets))]
	n := 1 + r.Intn(5)
	rs := []rune{}
	for i := 0; i < n; i++ {
		switch {
		case i == 0 && r.Intn(12) == 0:
			rs = append(rs, '注') // a name may begin like a comment opener
			if r.Intn(2) == 0 {
				rs = append(rs, rune('0'+r.Intn(10)))
			}
		case i > 0 && r.Intn(8) == 0:
			rs = append(rs, []rune("+-*/._%0123456789")[r.Intn(17)])
		case r.Intn(10) == 0:
			rs = append(rs, c04KeywordGlyphs[r.Intn(len(c04KeywordGlyphs))])
		default:
			rs = append(rs, al[r.Intn(len(al))])
		}
	}
	return string(rs)
}

// nameOK: the string survives as ONE identifier under the documented rules
func nameOK(s string) bool {
	rs := []rune(s)
	if len(rs) == 0 {
		return false
	}
	if strings.ContainsRune("+-*/.%0123456789", rs[0]) {
		return false
	}
	if rs[len(rs)-1] == '/' {
		return false
	}
	for i := range rs {
		if _, _, ok := keywordAt(rs, i); ok {
			return false
		}
		if rs[i] == '注' && i == 0 {
			// 注 [digits] ： opens a comment; a run that merely begins with 注 is a name. Runs that
			// are nothing but 注 and digits are left out (a following colon token would make
			// them a comment opener)
			k := 1
			for k < len(rs) && rs[k] >= '0' && rs[k] <= '9' {
				k++
			}
			if k >= len(rs) {
				return false
			}
		}
		if rs[i] == '/' && i+1 < len(rs) && (rs[i+1] == '/' || rs[i+1] == '*' || rs[i+1] == '=') {
			return false
		}
	}
	return true
}

func c04GenTok(r *rand.Rand) segTok {
	switch r.Intn(12) {
	case 0, 1, 2:
		k := c04Keywords[r.Intn(len(c04Keywords))]
		return segTok{kind: "kw", text: k.s, exp: expTok{typ: k.t}}
	case 3, 4, 5:
		for {
			n := c04Name(r)
			if nameOK(n) {
				return segTok{kind: "name", text: n, exp: expTok{typ: tIdent, lit: n, has: true}}
			}
		}
	case 6:
		// backtick name: may contain keyword glyphs
		al := c04NameAlphabets[0]
		rs := []rune{}
		for i := 0; i < 1+r.Intn(5); i++ {
			if r.Intn(2) == 0 {
				k := []rune(c04Keywords[r.Intn(len(c04Keywords))].s)
				rs = append(rs, k...)
			} else {
				rs = append(rs, al[r.Intn(len(al))])
			}
		}
		return segTok{kind: "btname", text: "`" + string(rs) + "`", exp: expTok{typ: tIdent, lit: string(rs), has: true}}
	case 7:
		n := numLit(r)
		return segTok{kind: "num", text: n.Lit, exp: expTok{typ: tIdent, lit: n.Lit, has: true}}
	case 8:
		ops := []struct {
			s string
			t int
		}{{"+", 36}, {"-", 37}, {"*", 38}, {"/", 39}, {"|", 27}, {"%", 28}, {"=", 29}, {"==", 35}, {">", 30}, {"<", 31}, {">=", 32}, {"<=", 33}, {"/=", 34}, {"#", 18}, {"&", 15}, {"@", 17}}
		o := ops[r.Intn(len(ops))]
		return segTok{kind: "op", text: o.s, exp: expTok{typ: o.t}}
	case 9:
		ps := []rune("，,、：:；;？?！!【[】]（(）){}")
		p := ps[r.Intn(len(ps))]
		return segTok{kind: "punct", text: string(p), exp: expTok{typ: c04Punct[p]}}
	case 10:
		t := c13RandText(r, r.Intn(6))
		fam := c13Families[r.Intn(2)]
		clean := []rune{}
		for _, ch := range t {
			if ch != '\r' && ch != '\n' {
				clean = append(clean, ch)
			}
		}
		return segTok{kind: "str", text: encodeLiteral(r, clean, fam), exp: expTok{typ: tString, lit: string(clean), has: true}}
	default:
		if r.Intn(2) == 0 {
			return segTok{kind: "comment-block", text: "/* 注释 如果 */", exp: expTok{typ: tComment}}
		}
		return segTok{kind: "comment-quote", text: "注：“块 注释”", exp: expTok{typ: tComment}}
	}
}

func identLike(t segTok) bool { return t.kind == "name" || t.kind == "num" }

// needSep: must a blank separate a and b?
func needSep(a, b segTok) bool {
	br := []rune(b.text)
	b0 := br[0]
	startsIdentish := b.kind == "name" || b.kind == "num"
	if identLike(a) {
		if startsIdentish {
			return true
		}
		// + - * / % would be swallowed by the preceding identifier
		if b.kind == "op" && strings.ContainsRune("+-*%", b0) {
			return true
		}
		if b.kind == "op" && b.text == "/" {
			return true
		}
		if b.kind == "comment-quote" { // 注 is an ordinary identifier character in mid-identifier position
			return true
		}
		// a backtick or an opening quote does not end a running identifier by itself
		if b.kind == "btname" || b.kind == "str" {
			return true
		}
	}
	// + - * / are operators only when followed by blank, punctuation or quote
	if a.kind == "op" && (a.text == "+" || a.text == "-" || a.text == "*" || a.text == "/") {
		if b.kind != "punct" && b.kind != "str" {
			return true
		}
		if b.kind == "str" {
			return false
		}
	}
	// operator characters that would fuse into a longer operator
	if a.kind == "op" && b.kind == "op" {
		return true
	}
	if a.kind == "op" && (a.text == "/") && (b0 == '/' || b0 == '*' || b0 == '=') {
		return true
	}
	// = followed by = etc. handled above; > followed by = :
	if a.kind == "op" && b.kind == "op" {
		return true
	}
	// a keyword glyph sequence could merge with the next token into another keyword
	if a.kind == "kw" && (b.kind == "kw" || b.kind == "name") {
		joined := []rune(a.text + b.text)
		// re-segment: the first keyword found must be exactly a
		if k, _, ok := keywordAt(joined, 0); !ok || k != a.text {
			return true
		}
	}
	if identLike(a) && b.kind == "kw" {
		// the identifier must not form a keyword together with the start of b
		joined := []rune(a.text + b.text)
		for i := range []rune(a.text) {
			if _, _, ok := keywordAt(joined, i); ok {
				return true
			}
		}
	}
	if a.kind == "kw" && b.kind == "comment-quote" {
		return false
	}
	return false
}

func checkC04Segmentation(c *Ctx) {
	rng := c.Rand("seg")
	type scase struct {
		src  string
		exp  []expTok
		desc string
	}
	cases := []scase{}
	n := c.Pick(30000, 2000000)
	for i := 0; i < n; i++ {
		k := 1 + rng.Intn(8)
		seq := make([]segTok, k)
		for j := range seq {
			seq[j] = c04GenTok(rng)
		}
		var sb strings.Builder
		kinds := ""
		exp := []expTok{}
		for j, t := range seq {
			if j > 0 {
				if needSep(seq[j-1], t) {
					sb.WriteString(" ")
				} else if rng.Intn(6) == 0 {
					sb.WriteString([]string{" ", "  ", "\t", "　"}[rng.Intn(4)])
				}
			}
			sb.WriteString(t.text)
			exp = append(exp, t.exp)
			kinds += t.kind[:2] + ","
		}
		if last := seq[len(seq)-1]; last.kind == "op" && strings.Contains("+-*/", last.text) {
			sb.WriteString(" ") // + - * / are operators only when a blank, punctuation or quote follows
		}
		exp = append(exp, expTok{typ: 0})
		cases = append(cases, scase{sb.String(), exp, kinds})
	}
	// dense unspaced strings over keyword glyphs and ordinary letters vs. greedy segmenter
	dense := []rune("甲乙丙丁价格手机游所" + string(c04KeywordGlyphs) + "为之令以其且或的")
	// … first the near-keywords: every keyword with one of its glyphs replaced by a glyph of another
	// keyword (结续循环, 继束循环, 如何新键 …), alone and inside a name: only the real keywords that
	// still occur in it may be cut out
	mutants := [][]rune{}
	for _, kw := range c04Keywords {
		k := []rune(kw.s)
		if len(k) < 2 {
			continue
		}
		for p := range k {
			for _, g := range c04KeywordGlyphs {
				if g == k[p] {
					continue
				}
				m := append([]rune{}, k...)
				m[p] = g
				mutants = append(mutants, m, append(append([]rune("甲"), m...), '乙'))
			}
		}
	}
	c.Count("near_keyword_strings", int64(len(mutants)))
	for i := 0; i < len(mutants)+c.Pick(20000, 1000000); i++ {
		var rs []rune
		if i < len(mutants) {
			rs = mutants[i]
		} else {
			m := 1 + rng.Intn(10)
			rs = make([]rune, m)
			for j := range rs {
				rs[j] = dense[rng.Intn(len(dense))]
			}
			if rng.Intn(3) == 0 {
				k := []rune(c04Keywords[rng.Intn(len(c04Keywords))].s)
				p := rng.Intn(len(rs) + 1)
				rs = append(append(append([]rune{}, rs[:p]...), k...), rs[p:]...)
			}
			if rng.Intn(5) == 0 {
				rs = append(rs, []rune(fmt.Sprint(rng.Intn(100)))...)
			}
		}
		// greedy reference segmentation
		exp := []expTok{}
		cur := []rune{}
		okCase := true
		for j := 0; j < len(rs); {
			if k, t, ok := keywordAt(rs, j); ok {
				if len(cur) > 0 {
					exp = append(exp, expTok{typ: tIdent, lit: string(cur), has: true})
					cur = nil
				}
				exp = append(exp, expTok{typ: t})
				j += len([]rune(k))
				continue
			}
			// (注 at the start of a run is an ordinary identifier character unless digits and a
			// colon follow - this alphabet has no colon)
			cur = append(cur, rs[j])
			j++
		}
		if !okCase {
			continue
		}
		if len(cur) > 0 {
			if cur[0] >= '0' && cur[0] <= '9' {
				// a digit run right after a keyword is its own identifier; fine
			}
			exp = append(exp, expTok{typ: tIdent, lit: string(cur), has: true})
		}
		exp = append(exp, expTok{typ: 0})
		cases = append(cases, scase{string(rs), exp, "dense"})
	}
	reqs := make([]Req, len(cases))
	for i, cs := range cases {
		reqs[i] = toks(cs.src)
	}
	c.runBatches(reqs, 1000, func(i int, req *Req, resp *Resp) {
		c.Eval()
		cs := cases[i]
		c.Nontrivial("seg|" + cs.desc + "|" + clip(cs.src, 24))
		key := "segment:" + clip(cs.desc, 6) + ":" + cs.src
		rp := map[string]interface{}{"req": req}
		if resp.Kind != "ok" {
			msg := resp.Kind
			if resp.Err != nil {
				msg += fmt.Sprintf(" (code %d at %d)", resp.Err.Code, resp.Err.Cursor)
			}
			c.Violation(key, fmt.Sprintf("%q (%s) does not tokenise: %s", cs.src, cs.desc, msg), rp)
			return
		}
		if len(resp.Toks) != len(cs.exp) {
			c.Violation(key, fmt.Sprintf("%q (%s): %d tokens, expected %d: %s", cs.src, cs.desc, len(resp.Toks), len(cs.exp), tokDesc(resp.Toks)), rp)
			return
		}
		srcR := []rune(cs.src)
		prevEnd := 0
		for k, tk := range resp.Toks {
			e := cs.exp[k]
			if tk.Type != e.typ || (e.has && RunesToString(tk.Lit) != e.lit) {
				c.Violation(key, fmt.Sprintf("%q (%s): token %d is type %d %q, expected type %d %q; all: %s", cs.src, cs.desc, k+1, tk.Type, RunesToString(tk.Lit), e.typ, e.lit, tokDesc(resp.Toks)), rp)
				return
			}
			if tk.Start < prevEnd || tk.End < tk.Start || tk.End > len(srcR) {
				c.Violation(key, fmt.Sprintf("%q: token %d spans [%d,%d) which overlaps the previous token or leaves the input (%d runes)", cs.src, k+1, tk.Start, tk.End, len(srcR)), rp)
				return
			}
			for p := prevEnd; p < tk.Start; p++ {
				isWS := false
				for _, w := range c04Whitespace {
					if srcR[p] == w {
						isWS = true
					}
				}
				if !isWS && srcR[p] != '\r' && srcR[p] != '\n' {
					c.Violation(key, fmt.Sprintf("%q: character %q at %d is covered by no token", cs.src, string(srcR[p]), p), rp)
					return
				}
			}
			if tk.Type == tIdent && e.has && k < len(cs.exp)-1 && cs.desc == "dense" {
				if string(srcR[tk.Start:tk.End]) != e.lit {
					c.Violation(key, fmt.Sprintf("%q: identifier token %d literal %q differs from its span text %q", cs.src, k+1, e.lit, string(srcR[tk.Start:tk.End])), rp)
					return
				}
			}
			prevEnd = tk.End
		}
		if i%15000 == 0 {
			c.Sample(map[string]interface{}{"monitor": "segmentation", "source": cs.src, "tokens": tokDesc(resp.Toks)})
		}
	})
}

func tokDesc(ts []Tok) string {
	parts := []string{}
	for _, t := range ts {
		if len(t.Lit) > 0 {
			parts = append(parts, fmt.Sprintf("%d:%q", t.Type, RunesToString(t.Lit)))
		} else {
			parts = append(parts, fmt.Sprint(t.Type))
		}
	}
	return strings.Join(parts, " ")
}

func checkC04(c *Ctx) {
	c.rule = "(1) alphabet: IdInRange for every code point in [-70000, 0x110400) against a linear scan of the range table (hook H6), table sortedness, lexer agreement on lone characters; (2) numeric form: every string up to length 5 (quick) / 7 (thorough) over {0,1,7,+,-,.,e,E,*,^,x}, every live prefix of a valid number x every suffix up to length 3, random long mutated numbers, digit strings of 300 … 3000 digits before / after the point brought back into range by the exponent, exponents at and beyond the edges of the 32- and 64-bit integers after digit strings of 1 … 1500 digits, up to 100003 leading zeros before / after the point with five- and six-digit exponents: classification number / rejected / name by the documented form (anchored regexp) and value = correctly rounded double via math/big; (3) segmentation: random token sequences (34 keywords, names over CJK/Latin/Greek/kana/hangul with embedded + - * / . % _ and stray keyword glyphs, backtick names containing keywords, numbers, operators, both punctuation forms, literals, comments) rendered with the fewest blanks the rules require must tokenise to exactly that sequence with in-bounds non-overlapping spans; dense unspaced strings over keyword glyphs, and every keyword with one glyph replaced by a glyph of another keyword (alone and inside a name), against a leftmost-greedy segmenter. distinct_nontrivial = table entries + distinct (class, digit-collapsed shape) of numeric strings + distinct (token-kind sequence, source prefix)"
	c.assumptions = []string{"keyword spellings and token type codes are transcribed from the manual / public constants", "'.12'-style strings are not asserted", "alphabet monitor is exhaustive over all code points; lexer agreement is sampled in quick and BMP-exhaustive in thorough"}
	checkC04Alphabet(c)
	checkC04Numeric(c)
	checkC04Positions(c)
	checkC04Segmentation(c)
	_ = sort.Strings
}
