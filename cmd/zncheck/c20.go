package main

import (
	"bytes"
	"context"
	"encoding/json"
	"fmt"
	"io"
	"math/rand"
	"net"
	"net/http"
	"os"
	"os/exec"
	"path/filepath"
	"sort"
	"strconv"
	"strings"
	"sync"
	"sync/atomic"
	"syscall"
	"time"
)

func init() { register("C20", "fault_enumeration", checkC20) }

type c20Scenario struct {
	name       string
	initP      int
	maxP       int
	timeout    int // seconds
	clients    int
	requests   int    // per client
	mix        string // instant | busy | mixed | hang
	early      bool   // clients start as soon as the first worker is up (traffic during master start-up)
	reportDelay int   // ms, hook H7: the master hands every state report to its bookkeeping late
	unix       bool   // the master listens on a unix socket (-l unix:///path) instead of TCP
	pidns      bool   // the master runs as process 1 of a new PID namespace (a container's entry point)
	execDelay  int    // ms, via strace execve delay injection
	workerSlow int    // ms, worker start-up delay
	kills      int    // external kill -9 of live workers during the run
	killBurst  int    // how many workers each kill event takes down at once (default 1)
	race       bool
}

type c20Result struct {
	sc          c20Scenario
	samples     int
	maxLive     int
	maxLiveAt   string
	maxChildren int
	windowHits  int
	quiescent   bool
	liveQuiet   int
	requests    int
	ok          int
	failed      int
	hangs       int
	garbage     int
	stalls      int
	crossed     []string
	unexpected  []string
	logProblems []string
	events4     map[string]bool
	raceBlocks  int
	raceSigs    map[string]string
	err         string
	killedPids  map[int]bool
	slowVictims int
	masterDied  string
	timeline    string
	skipped     bool // the delay injector (strace) failed twice: not judged
	refused     bool // --max-procs below 1: the master refused to start and no worker ever existed
}

func freePort() int {
	l, err := net.Listen("tcp", "127.0.0.1:0")
	if err != nil {
		return 0
	}
	defer l.Close()
	return l.Addr().(*net.TCPAddr).Port
}

// childrenOf lists the direct children of pid (all threads) with their state and whether
// they have exec'd into a worker.
func childrenOf(pid int) (workers, preexec int, pids []int) {
	tasks, _ := filepath.Glob(fmt.Sprintf("/proc/%d/task/*/children", pid))
	seen := map[int]bool{}
	for _, t := range tasks {
		data, err := os.ReadFile(t)
		if err != nil {
			continue
		}
		for _, f := range strings.Fields(string(data)) {
			cp, err := strconv.Atoi(f)
			if err != nil || seen[cp] {
				continue
			}
			seen[cp] = true
			st, err := os.ReadFile(fmt.Sprintf("/proc/%d/stat", cp))
			if err != nil {
				continue
			}
			// state is the field after the last ')'
			s := string(st)
			if i := strings.LastIndex(s, ")"); i >= 0 && i+2 < len(s) {
				if s[i+2] == 'Z' || s[i+2] == 'X' {
					continue
				}
			}
			cl, _ := os.ReadFile(fmt.Sprintf("/proc/%d/cmdline", cp))
			if bytes.Contains(cl, []byte("--child-worker")) {
				workers++
				pids = append(pids, cp)
			} else {
				preexec++
			}
		}
	}
	return
}

func tok0(idx, ci, k int) string { return fmt.Sprintf("t%d-%d-%d", idx, ci, k) }

func c20Program(kind, tok string, rng *rand.Rand) string {
	switch kind {
	case "busy":
		return fmt.Sprintf("令计 = 0\n每当计 < %d：\n\t计 = 计 + 1\n输出“%s”\n", 20000+rng.Intn(60000), tok)
	case "hang":
		return fmt.Sprintf("令计 = 0\n每当计 < 2000000000：\n\t计 = 计 + 1\n输出“%s”\n", tok)
	}
	return fmt.Sprintf("输出“%s”\n", tok)
}

func runC20Scenario(c *Ctx, bin string, sc c20Scenario, idx int) (res c20Result) {
	res.sc = sc
	res.events4 = map[string]bool{}
	res.killedPids = map[int]bool{}
	dir := filepath.Join(c.Scratch, fmt.Sprintf("pm-%d", idx))
	os.MkdirAll(dir, 0o755)
	port := freePort()
	if port == 0 {
		res.err = "no free port"
		return
	}
	logPath := filepath.Join(dir, "events.log")
	pidFile := filepath.Join(dir, "master.pid")
	netw, dialAddr, listenURL := "tcp", fmt.Sprintf("127.0.0.1:%d", port), fmt.Sprintf("tcp://127.0.0.1:%d", port)
	if sc.unix {
		sockDir, err := os.MkdirTemp("", "c20sock")
		if err != nil {
			res.err = "no directory for the socket"
			return
		}
		defer os.RemoveAll(sockDir)
		netw, dialAddr = "unix", filepath.Join(sockDir, "z.sock")
		listenURL = "unix://" + dialAddr
	}
	// the master has bound its socket (read from the kernel's tables, no probe connection)
	listening := func() bool {
		if sc.unix {
			_, err := os.Stat(dialAddr)
			return err == nil
		}
		for _, f := range []string{"/proc/net/tcp", "/proc/net/tcp6"} {
			data, _ := os.ReadFile(f)
			for _, ln := range strings.Split(string(data), "\n") {
				fs := strings.Fields(ln)
				if len(fs) > 3 && fs[3] == "0A" && strings.HasSuffix(fs[1], fmt.Sprintf(":%04X", port)) {
					return true
				}
			}
		}
		return false
	}
	args := []string{"-addr", listenURL, "-init", fmt.Sprint(sc.initP), "-max", fmt.Sprint(sc.maxP), "-timeout", fmt.Sprint(sc.timeout), "-log", logPath, "-pidfile", pidFile, "-workerdelay", fmt.Sprint(sc.workerSlow)}
	var cmd *exec.Cmd
	if sc.execDelay > 0 {
		sargs := append([]string{"-f", "-o", "/dev/null", "-e", "trace=execve", "-e", fmt.Sprintf("inject=execve:delay_enter=%d", sc.execDelay*1000), bin}, args...)
		cmd = exec.Command("strace", sargs...)
	} else {
		cmd = exec.Command(bin, args...)
	}
	cmd.Dir = dir
	cmd.Env = append(os.Environ(), "GORACE=halt_on_error=0 log_path="+filepath.Join(dir, "race"))
	if sc.reportDelay > 0 {
		cmd.Env = append(cmd.Env, fmt.Sprintf("ZINC_VERIF_REPORT_DELAY_MS=%d", sc.reportDelay))
	}
	stderr := &bytes.Buffer{}
	cmd.Stderr = stderr
	cmd.Stdout = stderr
	cmd.SysProcAttr = &syscall.SysProcAttr{Setpgid: true}
	if sc.pidns {
		cmd.SysProcAttr.Cloneflags = syscall.CLONE_NEWPID
	}
	if err := cmd.Start(); err != nil {
		if sc.pidns {
			res.err = "cannot start the master in a new PID namespace (inconclusive): " + err.Error()
			return
		}
		res.err = "cannot start master: " + err.Error()
		return
	}
	defer func() {
		// stop the master (SIGTERM lets it kill its workers), then make sure the group is gone
		if cmd.Process != nil {
			if mp := readPid(pidFile); mp > 0 {
				if sc.pidns {
					mp = cmd.Process.Pid
				}
				syscall.Kill(mp, syscall.SIGTERM)
			}
			done := make(chan struct{})
			go func() { cmd.Wait(); close(done) }()
			select {
			case <-done:
			case <-time.After(5 * time.Second):
			}
			syscall.Kill(-cmd.Process.Pid, syscall.SIGKILL)
			<-done
		}
		res.raceBlocks, res.raceSigs = raceReports(filepath.Join(dir, "race"))
	}()
	pipes := map[string]bool{}
	defer func() {
		for p := range pipes {
			os.Remove(p)
		}
	}()
	// wait for the master pid and for init workers
	var master int
	deadline := time.Now().Add(40 * time.Second)
	for time.Now().Before(deadline) {
		master = readPid(pidFile)
		if sc.pidns && master > 0 {
			master = cmd.Process.Pid // the pid file holds the pid inside the namespace (1)
		}
		if master > 0 {
			if w, _, _ := childrenOf(master); (w >= minInt(sc.initP, sc.maxP) || (sc.early && w >= 1)) && (sc.maxP < 1 || listening()) {
				break
			}
			if st, err := os.ReadFile(fmt.Sprintf("/proc/%d/stat", master)); err != nil || strings.Contains(string(st), ") Z ") {
				// the master is gone before its initial workers were up
				time.Sleep(100 * time.Millisecond)
				if strings.Contains(stderr.String(), "panic:") || strings.Contains(stderr.String(), "fatal error:") {
					res.masterDied = "the master process ended before its initial workers were up: " + clip(stderr.String(), 400)
				} else {
					res.err = "master ended during start-up (inconclusive): " + clip(stderr.String(), 300)
				}
				return
			}
		}
		time.Sleep(20 * time.Millisecond)
	}
	if master == 0 {
		res.err = "master did not start: " + clip(stderr.String(), 300)
		return
	}
	if sc.maxP < 1 {
		// a bound below one worker cannot be kept by a pool that serves: the only way to respect
		// it is not to start. Watch for 3 s: either the master ends without ever having a worker
		// (held), or workers appear (then the run goes on and the bound is judged as usual)
		seen := 0
		for t := 0; t < 150; t++ {
			w, pre, _ := childrenOf(master)
			if w+pre > seen {
				seen = w + pre
			}
			if st, err := os.ReadFile(fmt.Sprintf("/proc/%d/stat", master)); err != nil || strings.Contains(string(st), ") Z ") {
				if seen == 0 && !strings.Contains(stderr.String(), "panic:") {
					res.refused = true
					return
				}
				break
			}
			time.Sleep(20 * time.Millisecond)
		}
	}
	findPipes := func() {
		if fds, err := filepath.Glob(fmt.Sprintf("/proc/%d/fd/*", master)); err == nil {
			for _, fd := range fds {
				if tgt, err := os.Readlink(fd); err == nil && strings.HasPrefix(tgt, "/tmp/zinc-server-pipe-") {
					pipes[tgt] = true
				}
			}
		}
	}
	defer findPipes()
	if w, _, _ := childrenOf(master); w < minInt(sc.initP, sc.maxP) && !sc.early {
		res.err = fmt.Sprintf("master started only %d of %d initial workers within 40s (inconclusive): %s", w, sc.initP, clip(stderr.String(), 300))
		return
	}

	// sampler
	type sample struct {
		t        int64
		workers  int
		preexec  int
	}
	var samples []sample
	var smu sync.Mutex
	stop := make(chan struct{})
	var swg sync.WaitGroup
	swg.Add(1)
	go func() {
		defer swg.Done()
		for {
			select {
			case <-stop:
				return
			default:
			}
			w, p, _ := childrenOf(master)
			if w > sc.maxP {
				// the process table is not read atomically: a worker seen alive at the start
				// of the scan and its replacement seen at the end were never alive together.
				// An overshoot counts when an immediate second scan sees it too
				if w2, p2, _ := childrenOf(master); w2 < w {
					w, p = w2, p2
				}
			}
			smu.Lock()
			samples = append(samples, sample{time.Now().UnixNano(), w, p})
			smu.Unlock()
			time.Sleep(2 * time.Millisecond)
		}
	}()

	// clients
	var outstanding int64
	var cmu sync.Mutex
	type reqRec struct {
		tok, kind, body string
		err             string
		start, end      int64
	}
	var recs []reqRec
	var cwg sync.WaitGroup
	url := fmt.Sprintf("http://127.0.0.1:%d/", port)
	// how long a stalled connection may stay open before it is called "never closed": far beyond
	// --timeout, so that a machine under load does not decide the verdict
	stallWait := 60 * time.Second
	for ci := 0; ci < sc.clients; ci++ {
		cwg.Add(1)
		go func(ci int) {
			defer cwg.Done()
			rng := rand.New(rand.NewSource(c.Seed*7919 + int64(idx)*131 + int64(ci)))
			client := &http.Client{Timeout: 40 * time.Second, Transport: &http.Transport{DisableKeepAlives: true, DialContext: func(ctx context.Context, _, _ string) (net.Conn, error) {
				var d net.Dialer
				return d.DialContext(ctx, netw, dialAddr)
			}}}
			for k := 0; k < sc.requests; k++ {
				kind := "instant"
				switch sc.mix {
				case "busy":
					kind = "busy"
				case "mixed":
					kind = []string{"instant", "busy", "busy"}[rng.Intn(3)]
				case "hang":
					kind = []string{"instant", "busy", "busy", "busy"}[rng.Intn(4)]
					if ci == 0 && k == 1 {
						kind = "hang"
					}
				case "hang2", "hang3":
					// several requests outlive --timeout at (almost) the same moment
					kind = []string{"instant", "busy"}[rng.Intn(2)]
					nh := 2
					if sc.mix == "hang3" {
						nh = 3
					}
					if ci < nh && k == 0 {
						kind = "hang"
					}
				}
				if sc.mix == "garbage-burst" {
					// nearly every connection makes its worker report BUSY and end at once: the
					// report and the exit of one worker reach the master on two channels, in
					// either order, dozens of times per run
					kind = "garbage"
					if k == sc.requests-1 {
						kind = "instant"
					}
				}
				if sc.mix == "garbage" {
					kind = []string{"instant", "busy", "garbage"}[rng.Intn(3)]
					if k == 0 && ci%2 == 0 {
						kind = "garbage"
					}
				}
				tok := fmt.Sprintf("t%d-%d-%d", idx, ci, k)
				if sc.mix == "stall" && k == 0 && ci < 2 {
					kind = []string{"stall-headers", "stall-body"}[ci]
				}
				if kind == "stall-headers" || kind == "stall-body" {
					// a request that is accepted but never completed: headers without the closing
					// empty line, or a body shorter than its Content-Length. It outlives --timeout,
					// so its worker has to be terminated: the client sees the connection closed.
					// Waiting 6 x --timeout before calling it "never" keeps load effects out.
					atomic.AddInt64(&outstanding, 1)
					rec := reqRec{tok: tok0(idx, ci, k), kind: kind, start: time.Now().UnixNano()}
					if conn, err := net.DialTimeout(netw, dialAddr, 5*time.Second); err == nil {
						if kind == "stall-headers" {
							conn.Write([]byte("POST /?t=" + rec.tok + " HTTP/1.1\r\nHost: x\r\nContent-Type: application/json\r\n"))
						} else {
							conn.Write([]byte("POST /?t=" + rec.tok + " HTTP/1.1\r\nHost: x\r\nContent-Type: application/json\r\nContent-Length: 64\r\n\r\n{\"VarInpu"))
						}
						conn.SetReadDeadline(time.Now().Add(stallWait))
						_, rerr := io.ReadAll(conn)
						if ne, ok := rerr.(net.Error); ok && ne.Timeout() {
							rec.err = fmt.Sprintf("held: the connection was still open %d s after the request stalled (--timeout %d s)", int(stallWait/time.Second), sc.timeout)
						}
						conn.Close()
					} else {
						rec.err = "dial: " + err.Error()
					}
					rec.end = time.Now().UnixNano()
					atomic.AddInt64(&outstanding, -1)
					cmu.Lock()
					recs = append(recs, rec)
					cmu.Unlock()
					continue
				}
				if sc.mix == "slowhead" && k == 0 && ci == 0 {
					kind = "slowhead"
				}
				if kind == "slowhead" {
					// a complete, well-formed request whose head arrives in two parts 0.7 x --timeout
					// apart and whose handler then takes another 0.7 x --timeout (harness-side sleep):
					// from the moment it was accepted it outlives --timeout, so it must not be
					// answered as if nothing had happened
					atomic.AddInt64(&outstanding, 1)
					rec := reqRec{tok: tok0(idx, ci, k), kind: kind, start: time.Now().UnixNano()}
					part := time.Duration(700*sc.timeout) * time.Millisecond
					body, _ := json.Marshal(map[string]string{"VarInput": "", "SourceCode": c20Program("instant", rec.tok, rng)})
					if conn, err := net.DialTimeout(netw, dialAddr, 5*time.Second); err == nil {
						conn.Write([]byte(fmt.Sprintf("POST /?t=%s&sleep=%d HTTP/1.1\r\nHost: x\r\n", rec.tok, 700*sc.timeout)))
						time.Sleep(part)
						conn.Write([]byte(fmt.Sprintf("Content-Type: application/json\r\nContent-Length: %d\r\n\r\n", len(body))))
						conn.Write(body)
						conn.SetReadDeadline(time.Now().Add(time.Duration(6*sc.timeout) * time.Second))
						data, _ := io.ReadAll(conn)
						conn.Close()
						rec.body = string(data)
					} else {
						rec.err = "dial: " + err.Error()
					}
					rec.end = time.Now().UnixNano()
					atomic.AddInt64(&outstanding, -1)
					cmu.Lock()
					recs = append(recs, rec)
					cmu.Unlock()
					continue
				}
				if kind == "garbage" {
					// a connection that carries no HTTP request: bytes that are not a request line,
					// a truncated request, or nothing at all. The worker that accepted it gives up
					// and ends (with status 0 in the real command); the pool must recover.
					atomic.AddInt64(&outstanding, 1)
					rec := reqRec{tok: tok, kind: kind, start: time.Now().UnixNano()}
					if conn, err := net.DialTimeout(netw, dialAddr, 5*time.Second); err == nil {
						switch rng.Intn(4) {
						case 0:
							conn.Write([]byte("\x00\x01\x02 not http\r\n\r\n"))
						case 1:
							conn.Write([]byte("GET / HTT"))
						case 2:
							conn.Write([]byte("POST\r\n\r\n"))
						}
						conn.SetReadDeadline(time.Now().Add(300 * time.Millisecond))
						io.ReadAll(conn)
						conn.Close()
					} else {
						rec.err = err.Error()
					}
					rec.end = time.Now().UnixNano()
					atomic.AddInt64(&outstanding, -1)
					cmu.Lock()
					recs = append(recs, rec)
					cmu.Unlock()
					continue
				}
				extra := ""
				if sc.mix == "idlegap" {
					// a worker that has answered a request sits idle for longer than --timeout, then
					// gets a request that takes a few hundred milliseconds (harness-side sleep): what
					// the earlier request left behind in the worker (a timer, a deadline) must not hit
					// the later one
					if k > 0 {
						time.Sleep(time.Duration(1300*sc.timeout) * time.Millisecond)
					}
					if k%2 == 1 {
						extra = fmt.Sprintf("&sleep=%d", 400)
					}
				}
				body, _ := json.Marshal(map[string]string{"VarInput": "", "SourceCode": c20Program(kind, tok, rng)})
				atomic.AddInt64(&outstanding, 1)
				rec := reqRec{tok: tok, kind: kind, start: time.Now().UnixNano()}
				resp, err := client.Post(url+"?t="+tok+extra, "application/json", bytes.NewReader(body))
				if err != nil {
					rec.err = err.Error()
				} else {
					b, _ := io.ReadAll(resp.Body)
					resp.Body.Close()
					rec.body = string(b)
				}
				rec.end = time.Now().UnixNano()
				atomic.AddInt64(&outstanding, -1)
				cmu.Lock()
				recs = append(recs, rec)
				cmu.Unlock()
				if rng.Intn(4) == 0 {
					time.Sleep(time.Duration(rng.Intn(30)) * time.Millisecond)
				}
			}
		}(ci)
	}
	// scripted kills
	if sc.kills > 0 {
		cwg.Add(1)
		go func() {
			defer cwg.Done()
			rng := rand.New(rand.NewSource(c.Seed + int64(idx)))
			for k := 0; k < sc.kills; k++ {
				time.Sleep(time.Duration(150+rng.Intn(250)) * time.Millisecond)
				_, _, pids := childrenOf(master)
				burst := sc.killBurst
				if burst < 1 {
					burst = 1
				}
				rng.Shuffle(len(pids), func(a, b int) { pids[a], pids[b] = pids[b], pids[a] })
				for b := 0; b < burst && b < len(pids); b++ {
					cmu.Lock()
					res.killedPids[pids[b]] = true
					cmu.Unlock()
				}
				for b := 0; b < burst && b < len(pids); b++ {
					syscall.Kill(pids[b], syscall.SIGKILL)
				}
			}
		}()
	}
	cdone := make(chan struct{})
	go func() { cwg.Wait(); close(cdone) }()
	masterGone := false
	watch := time.NewTicker(100 * time.Millisecond)
	defer watch.Stop()
	wdog := time.After(4 * time.Minute)
waitClients:
	for {
		select {
		case <-cdone:
			break waitClients
		case <-watch.C:
			if _, err := os.Stat(fmt.Sprintf("/proc/%d", master)); err != nil {
				masterGone = true
				break waitClients
			}
			if st, err := os.ReadFile(fmt.Sprintf("/proc/%d/stat", master)); err == nil {
				if i := strings.LastIndex(string(st), ")"); i >= 0 && i+2 < len(st) && (st[i+2] == 'Z' || st[i+2] == 'X') {
					masterGone = true
					break waitClients
				}
			}
		case <-wdog:
			res.err = "client watchdog fired (inconclusive)"
			close(stop)
			swg.Wait()
			return
		}
	}
	if masterGone {
		close(stop)
		swg.Wait()
		res.masterDied = "the master process exited while requests were outstanding: " + clip(stderr.String(), 300)
		return
	}
	// quiescent point: no request outstanding, live set unchanged for 1.5 s
	qdeadline := time.Now().Add(60 * time.Second)
	lastSet := ""
	stableSince := time.Now()
	for time.Now().Before(qdeadline) {
		w, p, pids := childrenOf(master)
		sort.Ints(pids)
		set := fmt.Sprint(w, p, pids)
		if set != lastSet || p > 0 {
			lastSet = set
			stableSince = time.Now()
		} else if time.Since(stableSince) > 1500*time.Millisecond && atomic.LoadInt64(&outstanding) == 0 {
			// "returns to at least --init-procs once the system is quiet": a pool that is
			// still short of a worker is given the rest of the 60 s to get it (on a loaded
			// machine a replacement can take seconds to show up); only the state it settles in
			// is judged
			if w < minInt(sc.initP, sc.maxP) && time.Until(qdeadline) > 2*time.Second {
				time.Sleep(25 * time.Millisecond)
				continue
			}
			res.quiescent = true
			res.liveQuiet = w
			break
		}
		time.Sleep(25 * time.Millisecond)
	}
	close(stop)
	swg.Wait()

	if os.Getenv("VERIF_C20_ONLY") != "" {
		last := ""
		for _, s := range samples {
			cur := fmt.Sprintf("w=%d pre=%d", s.workers, s.preexec)
			if cur != last {
				fmt.Printf("  [%s] t=%dms %s\n", sc.name, (s.t-samples[0].t)/1e6, cur)
				last = cur
			}
		}
		fmt.Printf("  [%s] pipes=%v master=%d\n", sc.name, pipes, master)
	}
	{
		last := ""
		var tl []string
		for _, s := range samples {
			cur := fmt.Sprintf("w=%d pre=%d", s.workers, s.preexec)
			if cur != last {
				tl = append(tl, fmt.Sprintf("t=%dms %s", (s.t-samples[0].t)/1e6, cur))
				last = cur
			}
		}
		if len(tl) > 60 {
			tl = tl[:60]
		}
		res.timeline = strings.Join(tl, "; ")
	}
	// ---------------- judge
	res.samples = len(samples)
	for _, s := range samples {
		if s.workers > res.maxLive {
			res.maxLive = s.workers
			res.maxLiveAt = fmt.Sprintf("%d live workers (+%d being spawned)", s.workers, s.preexec)
		}
		if s.workers+s.preexec > res.maxChildren {
			res.maxChildren = s.workers + s.preexec
		}
	}
	// handler log
	type iv struct {
		start, end int64
		tok        string
	}
	perPid := map[int][]iv{}
	open := map[string]iv{}
	tokStarts := map[string]int{}
	tokPid := map[string]int{}
	data, _ := os.ReadFile(logPath)
	type ev struct {
		t    int64
		kind string
	}
	var evs []ev
	for _, line := range strings.Split(string(data), "\n") {
		f := strings.Fields(line)
		if len(f) != 4 {
			continue
		}
		pid, _ := strconv.Atoi(f[1])
		ts, _ := strconv.ParseInt(f[3], 10, 64)
		switch f[0] {
		case "S":
			tokStarts[f[2]]++
			tokPid[f[2]] = pid
			key := fmt.Sprintf("%d/%s", pid, f[2])
			open[key] = iv{start: ts, tok: f[2]}
			evs = append(evs, ev{ts, "req_start"})
		case "E":
			key := fmt.Sprintf("%d/%s", pid, f[2])
			if o, ok := open[key]; ok {
				o.end = ts
				perPid[pid] = append(perPid[pid], o)
				delete(open, key)
			}
			evs = append(evs, ev{ts, "req_end"})
		case "W":
			evs = append(evs, ev{ts, "worker_start"})
		}
	}
	for key, o := range open {
		// a request that never ended: its interval extends to the end of the run
		pid, _ := strconv.Atoi(strings.SplitN(key, "/", 2)[0])
		o.end = 1 << 62
		perPid[pid] = append(perPid[pid], o)
	}
	for pid, ivs := range perPid {
		sort.Slice(ivs, func(a, b int) bool { return ivs[a].start < ivs[b].start })
		for k := 1; k < len(ivs); k++ {
			if ivs[k].start < ivs[k-1].end {
				res.logProblems = append(res.logProblems, fmt.Sprintf("worker %d served %s and %s at the same time", pid, ivs[k-1].tok, ivs[k].tok))
			}
		}
	}
	// event n-grams and window hits (all workers busy while a spawn is between fork and exec)
	sort.Slice(evs, func(a, b int) bool { return evs[a].t < evs[b].t })
	for k := 0; k+3 < len(evs); k++ {
		res.events4[evs[k].kind+">"+evs[k+1].kind+">"+evs[k+2].kind+">"+evs[k+3].kind] = true
	}
	busyAt := func(t int64) int {
		n := 0
		for _, ivs := range perPid {
			for _, v := range ivs {
				if v.start <= t && t < v.end {
					n++
					break
				}
			}
		}
		return n
	}
	for k := 0; k < len(samples); k += 5 {
		s := samples[k]
		if s.preexec > 0 && busyAt(s.t) >= s.workers && s.workers > 0 {
			res.windowHits++
		}
	}
	// responses
	res.requests = len(recs)
	hangPids := map[int]bool{}
	for _, r := range recs {
		n := tokStarts[r.tok]
		if n > 1 {
			res.logProblems = append(res.logProblems, fmt.Sprintf("request %s was handled %d times", r.tok, n))
		}
		switch {
		case r.kind == "slowhead":
			res.stalls++
			if strings.Contains(r.body, " 200 ") && strings.HasSuffix(strings.TrimSpace(r.body), r.tok) {
				res.unexpected = append(res.unexpected, fmt.Sprintf("slowhead request %s lived %.1f s (head in two parts %.1f s apart, handler %.1f s) with --timeout %d s and was answered normally by a worker that was not terminated", r.tok, float64(r.end-r.start)/1e9, 0.7*float64(sc.timeout), 0.7*float64(sc.timeout), sc.timeout))
			}
		case r.kind == "stall-headers" || r.kind == "stall-body":
			res.stalls++
			if strings.HasPrefix(r.err, "held:") {
				res.unexpected = append(res.unexpected, fmt.Sprintf("%s request %s: %s - its worker was not terminated", r.kind, r.tok, r.err))
			}
		case r.kind == "garbage":
			res.garbage++
		case r.kind == "hang":
			res.hangs++
			if r.err == "" && r.body == r.tok {
				res.unexpected = append(res.unexpected, fmt.Sprintf("hang request %s (outlives --timeout) was answered normally", r.tok))
			}
			if p, ok := tokPid[r.tok]; ok {
				hangPids[p] = true
			}
		case r.err != "" || r.body != r.tok:
			// allowed only when the worker that served it was killed by the script
			if p, ok := tokPid[r.tok]; ok && res.killedPids[p] {
				res.failed++
				continue
			}
			if sc.kills > 0 && tokStarts[r.tok] == 0 {
				// accepted by a worker that was killed before it logged the start
				res.failed++
				continue
			}
			if res.maxLive == 0 && tokStarts[r.tok] == 0 {
				// not a timing effect: at no sample of the whole run was there any worker
				res.unexpected = append(res.unexpected, fmt.Sprintf("request %s was accepted by the listening socket but no worker process existed at any time of the run (%d process-table samples): %s", r.tok, res.samples, clip(r.err, 120)))
				continue
			}
			if r.err != "" && float64(r.end-r.start)/1e9 >= 0.8*float64(sc.timeout) {
				// on a loaded machine an ordinary request can itself outlive --timeout: the server
				// then rightly terminates its worker; a wall-clock effect, not judged
				res.slowVictims++
				continue
			}
			if r.err == "" && r.body != r.tok && strings.HasPrefix(r.body, "t") {
				res.crossed = append(res.crossed, fmt.Sprintf("request %s received %q", r.tok, clip(r.body, 60)))
			} else {
				res.unexpected = append(res.unexpected, fmt.Sprintf("request %s (%s) failed: %s %s", r.tok, r.kind, clip(r.err, 120), clip(r.body, 80)))
			}
		default:
			res.ok++
		}
	}
	if res.quiescent {
		_, _, pids := childrenOf(master)
		for _, p := range pids {
			if hangPids[p] {
				res.unexpected = append(res.unexpected, fmt.Sprintf("worker %d served a request that outlived --timeout and is still alive at the quiescent point", p))
			}
		}
	}
	return
}

// c20MasterDeath (informational, never a verdict - the statement speaks of a pool that has a
// master): the master is killed (-9) while its workers are still starting up, or while they serve;
// how many worker processes are still alive a few seconds later is written into the evidence. A
// worker that never notices keeps the listening socket and would answer requests outside any pool.
func c20MasterDeath(c *Ctx, bin string) {
	for vi, v := range []struct {
		name        string
		workerDelay int
		killAfterMs int
	}{{"while-workers-start", 1500, 400}, {"while-workers-idle", 0, 1500}} {
		dir := filepath.Join(c.Scratch, fmt.Sprintf("pm-death-%d", vi))
		os.MkdirAll(dir, 0o755)
		port := freePort()
		if port == 0 {
			continue
		}
		pidFile := filepath.Join(dir, "master.pid")
		cmd := exec.Command(bin, "-addr", fmt.Sprintf("tcp://127.0.0.1:%d", port), "-init", "3", "-max", "3", "-timeout", "2", "-log", filepath.Join(dir, "events.log"), "-pidfile", pidFile, "-workerdelay", fmt.Sprint(v.workerDelay))
		cmd.Dir = dir
		cmd.SysProcAttr = &syscall.SysProcAttr{Setpgid: true}
		if err := cmd.Start(); err != nil {
			continue
		}
		time.Sleep(time.Duration(v.killAfterMs) * time.Millisecond)
		_, _, before := childrenOf(cmd.Process.Pid)
		syscall.Kill(cmd.Process.Pid, syscall.SIGKILL)
		cmd.Wait()
		alive := func() int {
			n := 0
			for _, p := range before {
				if data, err := os.ReadFile(fmt.Sprintf("/proc/%d/stat", p)); err == nil {
					if f := strings.Fields(string(data)); len(f) > 2 && f[2] != "Z" {
						n++
					}
				}
			}
			return n
		}
		left := alive()
		for t := 0; t < 40 && left > 0; t++ {
			time.Sleep(100 * time.Millisecond)
			left = alive()
		}
		c.Count("master_killed_"+v.name+"_children_at_kill", int64(len(before)))
		c.Count("master_killed_"+v.name+"_workers_alive_4s_later", int64(left))
		if left > 0 {
			fmt.Printf("NOTE (not a verdict): master killed %s: %d of %d worker processes still alive 4 s later\n", v.name, left, len(before))
		}
		// leave nothing behind
		syscall.Kill(-cmd.Process.Pid, syscall.SIGKILL)
		for _, p := range before {
			syscall.Kill(p, syscall.SIGKILL)
		}
	}
}

func readPid(path string) int {
	data, err := os.ReadFile(path)
	if err != nil {
		return 0
	}
	n, _ := strconv.Atoi(strings.TrimSpace(string(data)))
	return n
}

func checkC20(c *Ctx) {
	c.rule = "the real ZnPMServer master and real worker processes (pmharness: pkg/server + playground handler, hook H1) are started per scenario; scenarios = configurations 1 <= init <= max <= 4 (and pools with more head-room than one spawn batch of ten: 2/16, 2/13, 1/24, 3/14 under a backlog of very short requests) x client concurrency 1..16 x request mix (instant, busy loops, one / two / three requests that outlive --timeout at the same moment, connections that carry no HTTP request so that the accepting worker ends with status 0, requests that stall after part of their headers / part of their body) x scripted kill -9 of one or several live workers at once x execve delay injected with strace (0/5/20/60/150 ms, widens the window between 'spawned' and 'registered') x slow worker start-up x traffic that begins while the master is still starting its initial workers x --init-procs above --max-procs x the master running as process 1 of its own PID namespace x state reports handed to the bookkeeping 120-250 ms late (hook H7: reports overtaken by exits and registrations) x bursts of connections that make their worker report BUSY and end at once x a unix:// listening socket x --init-procs 0 x --max-procs 0 (held by refusing to start) x a --timeout too large for a duration x requests that reach a worker which has been idle for longer than --timeout since its last answer x a request whose head arrives slowly and whose handler is slow (together longer than --timeout). Monitors: /proc children of the master every 2 ms (live workers <= max at every sample; init <= live <= max at a quiescent point = no request outstanding and live set unchanged for 1.5 s); offline checker over the handler log written at the worker boundary (per-worker request intervals never overlap, every token handled once, response == own token, timed-out worker gone); race-detector reports of a -race build are recorded for information only. distinct_nontrivial = distinct (scenario parameters) + distinct 4-grams over {worker_start, req_start, req_end} events seen"
	c.assumptions = []string{"a child that has been forked but has not exec'd yet is reported separately and not counted as a live worker", "strace execve delay injection only delays, it does not change behaviour", "not reaching a quiescent point within 60 s is inconclusive, not a violation"}
	if _, err := exec.LookPath("strace"); err != nil {
		c.Inconclusive("strace not found: " + err.Error())
		return
	}
	bin, err := buildTool(c, "./pmharness", "pmharness", false)
	if err != nil {
		c.Inconclusive(err.Error())
		return
	}
	var binRace string
	var scenarios []c20Scenario
	add := func(s c20Scenario) {
		s.name = fmt.Sprintf("init%d-max%d-c%dx%d-%s-delay%d-slow%d-kill%dx%d-race%v", s.initP, s.maxP, s.clients, s.requests, s.mix, s.execDelay, s.workerSlow, s.kills, s.killBurst, s.race)
		if s.early {
			s.name += "-early"
		}
		if s.pidns {
			s.name += "-pidns"
		}
		if s.unix {
			s.name += "-unix"
		}
		if s.reportDelay > 0 {
			s.name += fmt.Sprintf("-reportdelay%d", s.reportDelay)
		}
		if s.timeout != 2 && s.timeout != 1 {
			s.name += fmt.Sprintf("-timeout%d", s.timeout)
		}
		scenarios = append(scenarios, s)
	}
	if c.Quick() {
		// the spawn-reservation window (a freshly registered worker reports busy while a later
		// spawn of the same batch is still in flight) is hit in roughly every second run of
		// these: repeat them
		for rep := 0; rep < 4; rep++ {
			add(c20Scenario{initP: 1, maxP: 3, timeout: 2, clients: 8, requests: 6 + rep, mix: "busy", execDelay: 60})
			add(c20Scenario{initP: 2, maxP: 4, timeout: 2, clients: 16, requests: 5 + rep, mix: "mixed", execDelay: 60})
			add(c20Scenario{initP: 1, maxP: 4, timeout: 2, clients: 12, requests: 5 + rep, mix: "busy", execDelay: 40})
		}
		add(c20Scenario{initP: 1, maxP: 2, timeout: 2, clients: 8, requests: 10, mix: "busy", execDelay: 150})
		add(c20Scenario{initP: 2, maxP: 3, timeout: 2, clients: 12, requests: 8, mix: "busy", execDelay: 20})
		add(c20Scenario{initP: 3, maxP: 3, timeout: 2, clients: 6, requests: 8, mix: "mixed"})
		add(c20Scenario{initP: 1, maxP: 1, timeout: 2, clients: 4, requests: 6, mix: "busy"})
		add(c20Scenario{initP: 2, maxP: 4, timeout: 2, clients: 6, requests: 6, mix: "hang"})
		add(c20Scenario{initP: 3, maxP: 3, timeout: 2, clients: 5, requests: 4, mix: "hang2"})
		add(c20Scenario{initP: 2, maxP: 4, timeout: 2, clients: 6, requests: 4, mix: "hang2"})
		add(c20Scenario{initP: 4, maxP: 4, timeout: 2, clients: 6, requests: 4, mix: "hang3"})
		add(c20Scenario{initP: 3, maxP: 3, timeout: 2, clients: 6, requests: 8, mix: "busy", kills: 2, killBurst: 2})
		add(c20Scenario{initP: 2, maxP: 3, timeout: 2, clients: 4, requests: 6, mix: "garbage"})
		add(c20Scenario{initP: 2, maxP: 2, timeout: 2, clients: 4, requests: 14, mix: "garbage-burst"})
		add(c20Scenario{initP: 3, maxP: 4, timeout: 2, clients: 6, requests: 12, mix: "garbage-burst", execDelay: 5})
		add(c20Scenario{initP: 2, maxP: 2, timeout: 2, clients: 4, requests: 10, mix: "garbage-burst", reportDelay: 250})
		add(c20Scenario{initP: 2, maxP: 4, timeout: 2, clients: 6, requests: 8, mix: "mixed", reportDelay: 120})
		add(c20Scenario{initP: 3, maxP: 3, timeout: 2, clients: 6, requests: 6, mix: "mixed", kills: 2, reportDelay: 200})
		add(c20Scenario{initP: 2, maxP: 3, timeout: 1, clients: 4, requests: 5, mix: "stall"})
		add(c20Scenario{initP: 2, maxP: 3, timeout: 2, clients: 3, requests: 4, mix: "slowhead"})
		add(c20Scenario{initP: 1, maxP: 1, timeout: 1, clients: 1, requests: 5, mix: "idlegap"})
		add(c20Scenario{initP: 2, maxP: 2, timeout: 1, clients: 2, requests: 4, mix: "idlegap"})
		add(c20Scenario{initP: 4, maxP: 2, timeout: 2, clients: 6, requests: 6, mix: "busy"})
		add(c20Scenario{initP: 20, maxP: 4, timeout: 2, clients: 8, requests: 6, mix: "mixed", kills: 2})
		add(c20Scenario{initP: 2, maxP: 3, timeout: 2, clients: 4, requests: 6, mix: "mixed", pidns: true})
		add(c20Scenario{initP: 2, maxP: 3, timeout: 2, clients: 6, requests: 6, mix: "mixed", unix: true})
		add(c20Scenario{initP: 0, maxP: 2, timeout: 2, clients: 2, requests: 3, mix: "instant"})
		add(c20Scenario{initP: 2, maxP: 0, timeout: 2, clients: 2, requests: 2, mix: "busy"})
		add(c20Scenario{initP: 1, maxP: 2, timeout: 9999999999, clients: 2, requests: 3, mix: "instant"})
		add(c20Scenario{initP: 3, maxP: 3, timeout: 2, clients: 6, requests: 6, mix: "busy", execDelay: 60, early: true})
		add(c20Scenario{initP: 2, maxP: 4, timeout: 2, clients: 8, requests: 6, mix: "mixed", execDelay: 40, early: true})
		add(c20Scenario{initP: 4, maxP: 4, timeout: 2, clients: 4, requests: 6, mix: "busy", early: true})
		add(c20Scenario{initP: 3, maxP: 4, timeout: 2, clients: 6, requests: 5, mix: "garbage", execDelay: 20})
		add(c20Scenario{initP: 2, maxP: 4, timeout: 2, clients: 8, requests: 8, mix: "mixed", kills: 2, killBurst: 2, execDelay: 40})
		add(c20Scenario{initP: 2, maxP: 4, timeout: 2, clients: 8, requests: 10, mix: "mixed", kills: 3})
		add(c20Scenario{initP: 2, maxP: 3, timeout: 2, clients: 8, requests: 8, mix: "busy", workerSlow: 80})
		add(c20Scenario{initP: 1, maxP: 3, timeout: 2, clients: 8, requests: 8, mix: "mixed", race: true})
		// more head-room than one spawn batch (the master grows by ten workers at a time): a
		// backlog of very short requests makes workers report busy in quick succession while
		// the batch before is still being started
		add(c20Scenario{initP: 2, maxP: 16, timeout: 2, clients: 24, requests: 25, mix: "instant"})
		add(c20Scenario{initP: 2, maxP: 13, timeout: 2, clients: 24, requests: 12, mix: "mixed", execDelay: 5})
		add(c20Scenario{initP: 1, maxP: 24, timeout: 2, clients: 32, requests: 20, mix: "instant"})
		add(c20Scenario{initP: 3, maxP: 14, timeout: 2, clients: 20, requests: 10, mix: "busy", early: true})
	} else {
		for _, hr := range [][2]int{{2, 16}, {2, 13}, {1, 24}, {3, 14}, {1, 11}, {5, 15}, {2, 32}, {8, 20}} {
			add(c20Scenario{initP: hr[0], maxP: hr[1], timeout: 2, clients: 24, requests: 25, mix: "instant"})
			add(c20Scenario{initP: hr[0], maxP: hr[1], timeout: 2, clients: 24, requests: 12, mix: "mixed", execDelay: 5})
			add(c20Scenario{initP: hr[0], maxP: hr[1], timeout: 2, clients: 32, requests: 10, mix: "busy", early: true})
			add(c20Scenario{initP: hr[0], maxP: hr[1], timeout: 2, clients: 24, requests: 10, mix: "mixed", kills: 3, killBurst: 2})
		}
		for initP := 1; initP <= 4; initP++ {
			for maxP := initP; maxP <= 4; maxP++ {
				for _, d := range []int{0, 5, 20, 60, 150} {
					for _, cl := range []int{1, 4, 16} {
						add(c20Scenario{initP: initP, maxP: maxP, timeout: 2, clients: cl, requests: 8, mix: []string{"busy", "mixed"}[(initP+maxP+cl)%2], execDelay: d})
					}
				}
				add(c20Scenario{initP: initP, maxP: maxP, timeout: 2, clients: 6, requests: 6, mix: "hang", execDelay: 20})
				add(c20Scenario{initP: initP, maxP: maxP, timeout: 2, clients: 8, requests: 10, mix: "mixed", kills: 4, execDelay: 20})
				add(c20Scenario{initP: initP, maxP: maxP, timeout: 2, clients: 6, requests: 4, mix: "hang2"})
				add(c20Scenario{initP: initP, maxP: maxP, timeout: 2, clients: 5, requests: 6, mix: "garbage"})
				add(c20Scenario{initP: initP, maxP: maxP, timeout: 1, clients: 4, requests: 5, mix: "stall"})
				add(c20Scenario{initP: initP, maxP: maxP, timeout: 1, clients: initP, requests: 4, mix: "idlegap"})
				add(c20Scenario{initP: initP, maxP: maxP, timeout: 2, clients: 6, requests: 6, mix: "busy", execDelay: 60, early: true})
				add(c20Scenario{initP: initP, maxP: maxP, timeout: 2, clients: 6, requests: 6, mix: "mixed", early: true})
				add(c20Scenario{initP: initP, maxP: maxP, timeout: 2, clients: 6, requests: 4, mix: "hang3", execDelay: 20})
				add(c20Scenario{initP: initP, maxP: maxP, timeout: 2, clients: 8, requests: 8, mix: "busy", kills: 3, killBurst: 2})
				add(c20Scenario{initP: initP, maxP: maxP, timeout: 2, clients: 8, requests: 8, mix: "mixed", kills: 2, killBurst: 3, execDelay: 40})
				add(c20Scenario{initP: initP, maxP: maxP, timeout: 2, clients: 8, requests: 8, mix: "busy", workerSlow: 120, execDelay: 5})
				add(c20Scenario{initP: initP, maxP: maxP, timeout: 2, clients: 8, requests: 8, mix: "mixed", race: true})
			}
		}
	}
	if only := os.Getenv("VERIF_C20_ONLY"); only != "" {
		kept := []c20Scenario{}
		for _, s := range scenarios {
			if strings.Contains(s.name, only) {
				kept = append(kept, s)
			}
		}
		scenarios = kept
	}
	for _, s := range scenarios {
		if s.race && binRace == "" {
			binRace, err = buildTool(c, "./pmharness", "pmharness-race", true)
			if err != nil {
				c.Inconclusive(err.Error())
				return
			}
		}
	}
	if os.Getenv("VERIF_C20_ONLY") == "" || os.Getenv("VERIF_C20_ONLY") == "masterdeath" {
		c20MasterDeath(c, bin)
	}
	results := make([]c20Result, len(scenarios))
	// the schedules of interest are timing sensitive: scenarios with an injected exec delay
	// run three at a time, the others eight at a time
	runPhase := func(par int, pick func(s c20Scenario) bool) {
		sem := make(chan struct{}, par)
		var wg sync.WaitGroup
		for i := range scenarios {
			if !pick(scenarios[i]) {
				continue
			}
			wg.Add(1)
			sem <- struct{}{}
			go func(i int) {
				defer wg.Done()
				defer func() { <-sem }()
				b := bin
				if scenarios[i].race {
					b = binRace
				}
				results[i] = runC20Scenario(c, b, scenarios[i], i)
				// the port is chosen by binding and releasing it: another process on the
				// machine can take it in between ("address already in use" ends the master at
				// start-up). That says nothing about Zn: try again with another port
				for try := 0; try < 3 && strings.HasPrefix(results[i].err, "master ended during start-up") && strings.Contains(results[i].err, "in use"); try++ {
					c.Count("scenarios_rerun_port_taken", 1)
					results[i] = runC20Scenario(c, b, scenarios[i], i+2000+1000*try)
				}
				// the delay injector is a tracer: when strace itself fails (ptrace error under
				// load) it takes the traced master down with it - that is the tool, not Zn.
				// The scenario is run once more; if the tracer fails again it is not judged
				if results[i].masterDied != "" && strings.Contains(results[i].masterDied, "strace: ") {
					c.Count("scenarios_rerun_after_tracer_failure", 1)
					results[i] = runC20Scenario(c, b, scenarios[i], i+1000)
					if results[i].masterDied != "" && strings.Contains(results[i].masterDied, "strace: ") {
						c.Count("scenarios_not_judged_tracer_failure", 1)
						results[i].masterDied = ""
						results[i].skipped = true
					}
				}
			}(i)
		}
		wg.Wait()
	}
	runPhase(3, func(s c20Scenario) bool { return s.execDelay > 0 })
	runPhase(8, func(s c20Scenario) bool { return s.execDelay == 0 })
	// leftover pipes of killed masters
	if files, _ := filepath.Glob("/tmp/zinc-server-pipe-*"); len(files) > 0 {
		for _, f := range files {
			if st, err := os.Stat(f); err == nil && time.Since(st.ModTime()) > 30*time.Second {
				os.Remove(f)
			}
		}
	}
	totalHits, delayed := 0, 0
	grams := map[string]bool{}
	for _, r := range results {
		sc := r.sc
		c.Nontrivial("scenario|" + sc.name)
		rp := map[string]interface{}{"scenario": sc.name, "how": "pmharness master started by zncheck C20 with these parameters; see DESIGN §6 C20"}
		if r.err != "" {
			c.Inconclusive(sc.name + ": " + r.err)
			continue
		}
		if r.masterDied != "" {
			c.Violation("pool:master-died:"+sc.name, sc.name+": "+r.masterDied, rp)
			continue
		}
		if r.refused {
			c.Count("configurations_refused_at_start", 1)
			continue
		}
		if r.skipped {
			continue
		}
		c.Count("evaluations", int64(r.requests))
		c.Count("process_table_samples", int64(r.samples))
		c.Count("requests_answered_with_own_token", int64(r.ok))
		c.Count("requests_lost_to_scripted_kills", int64(r.failed))
		c.Count("requests_outliving_timeout", int64(r.hangs))
		c.Count("connections_without_http_request", int64(r.garbage))
		c.Count("requests_stalled_mid_transfer", int64(r.stalls))
		c.Count("ordinary_requests_that_hit_the_server_timeout_not_judged", int64(r.slowVictims))
		for g := range r.events4 {
			grams[g] = true
			c.Nontrivial("4gram|" + g)
		}
		if sc.execDelay > 0 {
			delayed++
			totalHits += r.windowHits
		}
		if r.maxLive > sc.maxP {
			c.Violation("pool:overshoot:"+sc.name, fmt.Sprintf("%s: %s while --max-procs is %d (sampled from /proc)\nprocess-table timeline: %s", sc.name, r.maxLiveAt, sc.maxP, r.timeline), rp)
		}
		if !r.quiescent {
			c.Inconclusive(sc.name + ": no quiescent point reached within 60 s")
		} else if r.liveQuiet < minInt(sc.initP, sc.maxP) || r.liveQuiet > sc.maxP {
			c.Violation("pool:quiescent:"+sc.name, fmt.Sprintf("%s: %d live workers at the quiescent point, expected between --init-procs %d and --max-procs %d", sc.name, r.liveQuiet, sc.initP, sc.maxP), rp)
		}
		for _, p := range r.logProblems {
			c.Violation("pool:exclusive:"+sc.name+p, sc.name+": "+p, rp)
		}
		for _, p := range r.crossed {
			c.Violation("pool:crossed:"+sc.name+p, sc.name+": "+p, rp)
		}
		for _, p := range r.unexpected {
			c.Violation("pool:request:"+sc.name+p, sc.name+": "+p, rp)
		}
		// race-detector reports of the master are recorded for information only: C20 does not
		// state race freedom (the pinned master races on its child table at shutdown)
		for sig := range r.raceSigs {
			c.Distinct("race_report_signatures_informational", sig)
		}
		c.Count("race_report_blocks_informational", int64(r.raceBlocks))
		c.Sample(map[string]interface{}{"scenario": sc.name, "samples": r.samples, "max_live_workers": r.maxLive, "max_children_incl_spawning": r.maxChildren, "live_at_quiescent_point": r.liveQuiet, "requests": r.requests, "own_token": r.ok, "window_hits": r.windowHits})
	}
	c.sampleCap = 40
	c.Extra("critical_window_hits", totalHits)
	c.Extra("distinct_event_4grams", len(grams))
	c.Extra("scenarios", len(scenarios))
	if delayed > 0 && totalHits < 3 {
		c.Inconclusive(fmt.Sprintf("the window 'all workers busy while a spawn is in flight' was observed only %d times: the <= max clause is not exercised enough", totalHits))
	}
}

func minInt(a, b int) int {
	if a < b {
		return a
	}
	return b
}
