package main

// corpus: hand-written valid Zn programs that together use every statement kind and
// expression form. Used as seeds for the mutation / truncation workloads (C05, C13, C17, C18)
// and as a sanity corpus for determinism (C11). Every program must parse; C05 checks that
// at start-up and reports an inconclusive run otherwise.
var corpus = []string{
	// 0 arithmetic + display
	"令甲 = 10\n令乙 = 3\n（显示：甲 + 乙 * 2）\n（显示：{甲 + 乙} * 2）\n（显示：甲 | 乙、甲 % 乙、甲 / 乙）\n输出 甲 - 乙\n",
	// 1 branches
	"令分数 = 75\n如果分数 >= 90：\n\t（显示：“优”）\n再如分数 >= 60：\n\t（显示：“良”）\n否则：\n\t（显示：“差”）\n输出分数\n",
	// 2 while loop with break/continue
	"令计数 = 0\n令总和 = 0\n每当计数 < 10：\n\t计数 = 计数 + 1\n\t如果计数 % 2 == 0：\n\t\t继续循环\n\t如果计数 > 7：\n\t\t结束循环\n\t总和 = 总和 + 计数\n输出总和\n",
	// 3 iterate list and dict
	"令清单 = 【10，20，30】\n以序、项遍历清单：\n\t（显示：序、项）\n令表 = 【甲 = 1，乙 = 2，丙 = 3】\n以键、值遍历表：\n\t（显示：键、值）\n以值遍历表：\n\t（显示：值）\n遍历清单：\n\t（显示：“轮”）\n",
	// 4 functions
	"如何求和？\n\t输入左、右\n\t输出左 + 右\n\n如何阶乘？\n\t输入数\n\t如果数 <= 1：\n\t\t输出1\n\t输出数 * （阶乘：数 - 1）\n\n（显示：（求和：1、2））\n（阶乘：5），得到结果\n输出结果\n",
	// 5 class
	"定义账户：\n\t其余额 = 0\n\t其名称 = “无名”\n\n\t如何存入？\n\t\t输入金额\n\t\t其余额 = 其余额 + 金额\n\t\t输出其余额\n\n如何新建账户？\n\t输入名、初值\n\t其名称 = 名\n\t其余额 = 初值\n\n令户 =（新建账户：“张三”、100）\n以户（存入：50）\n输出户之余额\n",
	// 6 exceptions
	"如何冒险？\n\t输入数\n\t如果数 > 5：\n\t\t抛出异常：“太大”！\n\t输出数\n\n\t拦截异常：\n\t\t输出 -1\n\n（显示：（冒险：3））\n（显示：（冒险：9））\n抛出异常：“结束”！\n\n拦截异常：\n\t输出其内容\n",
	// 7 text
	"令文 = “你好，世界”\n（显示：文之长度）\n（显示：以文（取样：1、2））\n（显示：“{}有{#.2}元” % 【“他”，3.14159】）\n输出以文（替换：“世界”、“天下”）\n",
	// 8 list methods
	"令列 = 【3，1，2】\n以列（后增：4）\n以列（前增：0）\n（显示：列）\n（显示：列之长度、列之首项、列之末项）\n以列（交换：1、2）\n（显示：列#1、列#{1 + 1}）\n列#1 = 100\n输出列\n",
	// 9 dict methods
	"令典 = 【“甲” = 1，“乙” = 【1，2】，丙 = 【丁 = 4】】\n典#“戊” = 5\n（显示：典之所有索引）\n（显示：典之所有值）\n以典（移除：“甲”）\n（显示：典#“乙”#2、典#“丙”#“丁”）\n输出典之长度\n",
	// 10 const and block declare
	"令：\n\t圆周率恒为3.14\n\t半径、直径设为2\n令面积 = 圆周率 * 半径 * 半径\n输出面积\n",
	// 11 logic
	"令甲 = 真\n令乙 = 假\n如果甲且乙或甲：\n\t（显示：“一”）\n如果甲 为 真 且 乙 不为 真：\n\t（显示：“二”）\n如果1 等于 1 且 2 不等于 3 且 3 大于 2 且 2 小于 3 且 2 不大于 2 且 2 不小于 2：\n\t（显示：“三”）\n输出 1 /= 2\n",
	// 12 comments and punctuation variants
	"注：这是注释\n令A = 1 // 行尾注释\n/* 多行\n注释 */\n令B = 2；令C = 3\n注：“多行\n引号注释”\n(显示:A、B、C)\n输出[A, B, C]\n",
	// 13 numbers
	"令数们 = 【12，+12，-0.5，007.50，1.5E+3，2e-3，125*10^12，125*^-2】\n以数遍历数们：\n\t（显示：数）\n输出数们#8\n",
	// 14 strings
	"令甲 = “双引‘内’号”\n令乙 = 「直角『内』号」\n令丙 = “换行`LF`制表`TAB`反引`BK`码`U+4E2D`”\n令丁 = “多\n行”\n（显示：甲、乙、丙、丁）\n输出“单引”\n",
	// 15 input
	"输入长、宽\n令面积 = 长 * 宽\n输出面积\n",
	// 16 member chain
	"定义点：\n\t其横 = 0\n\t其纵 = 0\n\n\t如何移动？\n\t\t输入甲、乙\n\t\t其横 = 其横 + 甲\n\t\t其纵 = 其纵 + 乙\n\t\t输出其横\n\n令点一 =（新建点）\n以点一（移动：1、2）、（加：10），得到终\n（显示：终）\n输出点一的纵\n",
	// 17 nested structures with line breaks
	"令表 = 【\n\t“名” = “甲”，\n\t“列” = 【\n\t\t1，\n\t\t2\n\t】\n】\n（显示：\n\t表#“名”、\n\t表#“列”#1）\n输出表\n",
	// 18 custom exception
	"定义自定错误：\n\t其内容 = “”\n\t其代码 = 0\n\n如何新建自定错误？\n\t输入文、码\n\t其内容 = 文\n\t其代码 = 码\n\n如何试？\n\t抛出自定错误：“坏了”、7！\n\n\t拦截异常：\n\t\t输出“普通”\n\t拦截自定错误：\n\t\t输出其代码\n\n输出（试）\n",
	// 19 4-space indent
	"令总 = 0\n以数遍历【1，2，3】：\n    如果数 > 1：\n        总 = 总 + 数\n    否则：\n        总 = 总 - 数\n输出总\n",
	// 20 import std lib
	"导入《@JSON》\n令文 =（生成JSON：【“甲” = 1，“乙” = 【真，假，空】】）\n令回 =（解析JSON：文）\n输出回#“甲”\n",
	// 21 getter + 设为 + 之/的
	"定义车：\n\t其轮数设为4\n\n\t何为描述？\n\t\t输出“车”\n\n\t如何鸣？\n\t\t输出“嘀”\n\n令我车 =（新建车）\n我车之轮数设为6\n输出我车的轮数\n",
	// 22 CRLF
	"令甲 = 1\r\n如果甲 == 1：\r\n\t（显示：“是”）\r\n输出甲\r\n",
	// 23 backtick identifiers and operators in names
	"令`如果之名` = 5\n令A+B = 2\n令x/y = 3\n输出`如果之名` + A+B + x/y\n",
	// 24 deep nesting
	"如何外？\n\t输入数\n\t如何内？\n\t\t输入值\n\t\t输出值 * 2\n\t令合 = 0\n\t以项遍历【1，2，3】：\n\t\t每当合 < 100：\n\t\t\t合 = 合 +（内：项）+ 数\n\t\t\t如果合 > 50：\n\t\t\t\t结束循环\n\t输出合\n\n输出（外：3）\n",
}
