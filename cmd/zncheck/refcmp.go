package main

import (
	"fmt"
	"math"
	"math/big"
	"math/rand"
	"strconv"
	"strings"

	. "verif/internal/proto"
	zr "verif/internal/znref"
)

// ---------------------------------------------------------------- value conversion

func refToVal(v zr.Value) (Val, bool) {
	switch x := v.(type) {
	case zr.VNum:
		return Num(float64(x)), true
	case zr.VStr:
		return Text(string(x)), true
	case zr.VBool:
		return Bool(bool(x)), true
	case zr.VNull:
		return Null(), true
	case *zr.VList:
		items := []Val{}
		for _, it := range x.Items {
			c, ok := refToVal(it)
			if !ok {
				return Val{}, false
			}
			items = append(items, c)
		}
		return List(items...), true
	case *zr.VDict:
		vals := []Val{}
		for _, k := range x.Keys {
			c, ok := refToVal(x.M[k])
			if !ok {
				return Val{}, false
			}
			vals = append(vals, c)
		}
		return Dict(x.Keys, vals), true
	case *zr.VObj:
		return Val{T: "object", Name: x.Class.Name}, true
	case *zr.VClass:
		return Val{T: "type", Name: x.Name}, true
	case *zr.VFunc:
		return Val{T: "method"}, true
	case *zr.VExc:
		if x.Opaque {
			return Val{}, false
		}
		return Val{T: "exception", Str: x.Msg}, true
	}
	return Val{}, false
}

func valToRef(v Val) zr.Value {
	switch v.T {
	case "num":
		return zr.VNum(v.F())
	case "text":
		return zr.VStr(v.S())
	case "bool":
		return zr.VBool(v.B)
	case "null":
		return zr.VNull{}
	case "list":
		l := &zr.VList{}
		for _, it := range v.Items {
			l.Items = append(l.Items, valToRef(it))
		}
		return l
	case "dict":
		d := zr.NewDict()
		for i, it := range v.Items {
			d.Set(v.Key(i), valToRef(it))
		}
		return d
	}
	return zr.VNull{}
}

// ---------------------------------------------------------------- display comparison

func splitAtoms(line string) []string {
	return strings.FieldsFunc(line, func(r rune) bool {
		return r == ' ' || r == '[' || r == ']' || r == '，' || r == '=' || r == '\t'
	})
}

func atomEq(a, b string) bool {
	if a == b {
		return true
	}
	fa, ea := strconv.ParseFloat(a, 64)
	fb, eb := strconv.ParseFloat(b, 64)
	if ea == nil && eb == nil {
		if math.IsNaN(fa) && math.IsNaN(fb) {
			return true
		}
		return fa == fb
	}
	return false
}

func displayEq(want []string, got string) (bool, string) {
	gl := []string{}
	if got != "" {
		gl = strings.Split(strings.TrimSuffix(got, "\n"), "\n")
	}
	if len(gl) != len(want) {
		return false, fmt.Sprintf("%d display lines, %d expected", len(gl), len(want))
	}
	for i := range want {
		wa, ga := splitAtoms(want[i]), splitAtoms(gl[i])
		if len(wa) != len(ga) {
			return false, fmt.Sprintf("display line %d: %q, expected %q", i+1, gl[i], want[i])
		}
		for j := range wa {
			if !atomEq(wa[j], ga[j]) {
				return false, fmt.Sprintf("display line %d: %q, expected %q", i+1, gl[i], want[i])
			}
		}
	}
	return true, ""
}

// compareOutcome judges a worker response against the reference result.
// status: "ok", "skip" (reference leaves the case unspecified), "diff".
var refKnownCodes = map[int]bool{42: true, 43: true, 44: true, 60: true, 63: true, 64: true}

func compareOutcome(ref zr.Result, resp *Resp) (status, diff string) {
	if _, ok := ref.Err.(*zr.Unspec); ok {
		return "skip", ref.Err.Error()
	}
	switch resp.Kind {
	case "panic", "died", "timeout", "nilnil", "flaky":
		return "diff", "outcome " + resp.Kind + ": " + clip(resp.Panic+resp.Stderr, 300)
	case "budget":
		return "diff", fmt.Sprintf("did not terminate within the tick budget (%s; reference needs %d steps)", resp.Panic, ref.Steps)
	}
	if ok, d := displayEq(ref.Display, resp.Display); !ok {
		return "diff", d
	}
	if ref.Err == nil {
		if resp.Kind != "value" {
			msg := ""
			if resp.Err != nil {
				msg = resp.Err.Class + " error: " + resp.Err.Msg
			}
			return "diff", "expected a value, observed " + resp.Kind + " " + msg
		}
		if ref.ValueUnspec {
			return "ok", ""
		}
		want, ok := refToVal(ref.Val)
		if !ok {
			return "ok", ""
		}
		if !Equal(want, *resp.Val) {
			return "diff", fmt.Sprintf("value %s, expected %s", resp.Val.String(), want.String())
		}
		return "ok", ""
	}
	// reference says: error
	if resp.Kind != "error" {
		got := resp.Kind
		if resp.Val != nil {
			got += " " + resp.Val.String()
		}
		return "diff", fmt.Sprintf("expected an error (%v), observed %s", ref.Err, got)
	}
	if resp.Err.Class == "syntax" {
		return "diff", "expected a runtime error (" + ref.Err.Error() + "), observed a syntax error: " + resp.Err.Msg
	}
	switch e := ref.Err.(type) {
	case *zr.ZErr:
		if e.Code != 0 && resp.Err.Code != 0 && resp.Err.Code != e.Code {
			return "diff", fmt.Sprintf("error code %d (%s), expected %d (%s)", resp.Err.Code, resp.Err.Msg, e.Code, e.Kind)
		}
		// the converse: the codes the reference knows (undefined name, redeclaration, constant,
		// module / library missing, cycle) must not be reported for an error of another kind -
		// e.g. a swallowed fault that surfaces later as "name undefined"
		// (writes to predefined names are excepted: the statements only ask for an error there)
		if e.Code == 0 && e.Kind != "predefined" && refKnownCodes[resp.Err.Code] {
			return "diff", fmt.Sprintf("error code %d (%s) observed, but the error the program must end with is of kind %q", resp.Err.Code, resp.Err.Msg, e.Kind)
		}
	case *zr.Thrown:
		if ex, ok := e.Val.(*zr.VExc); ok && !ex.Opaque {
			if resp.Err.Msg != ex.Msg {
				return "diff", fmt.Sprintf("uncaught exception message %q, expected %q", resp.Err.Msg, ex.Msg)
			}
		}
	}
	return "ok", ""
}

// ---------------------------------------------------------------- names and literals

var nameGlyphs = []rune("甲乙丙丁戊己庚辛壬癸子丑寅卯辰巳午未申酉戌亥")

func genName(r *rand.Rand, prefix string) string {
	n := 1 + r.Intn(2)
	s := prefix
	for i := 0; i < n; i++ {
		s += string(nameGlyphs[r.Intn(len(nameGlyphs))])
	}
	if r.Intn(4) == 0 {
		s += string(rune('a' + r.Intn(26)))
	}
	return s
}

// numLit produces a numeric literal in one of the documented spellings together with its
// correctly rounded value (computed with math/big, not strconv).
func numLit(r *rand.Rand) zr.Num {
	sign := []string{"", "", "", "+", "-"}[r.Intn(5)]
	nInt := 1 + r.Intn(4)
	ints := ""
	for i := 0; i < nInt; i++ {
		ints += string(rune('0' + r.Intn(10)))
	}
	if r.Intn(6) == 0 {
		ints = "00" + ints
	}
	frac := ""
	if r.Intn(3) == 0 {
		n := 1 + r.Intn(4)
		for i := 0; i < n; i++ {
			frac += string(rune('0' + r.Intn(10)))
		}
	}
	expForm, exp := "", 0
	if r.Intn(4) == 0 {
		exp = r.Intn(25) - 12
		if r.Intn(8) == 0 {
			exp = r.Intn(700) - 350
		}
		es := strconv.Itoa(exp)
		switch r.Intn(4) {
		case 0:
			if exp >= 0 {
				es = "+" + es
			}
			expForm = "E" + es
		case 1:
			if exp >= 0 {
				es = "+" + es
			}
			expForm = "e" + es
		case 2:
			if exp >= 0 && r.Intn(2) == 0 {
				es = "+" + es
			}
			expForm = "*10^" + es
		case 3:
			if exp >= 0 && r.Intn(2) == 0 {
				es = "+" + es
			}
			expForm = "*^" + es
		}
	}
	lit := sign + ints
	if frac != "" {
		lit += "." + frac
	}
	lit += expForm
	return zr.Num{Lit: lit, V: decimalValue(sign == "-", ints+frac, exp-len(frac))}
}

// decimalValue returns the float64 nearest to (-1)^neg * digits * 10^exp10.
func decimalValue(neg bool, digits string, exp10 int) float64 {
	n := new(big.Int)
	n.SetString(digits, 10)
	rat := new(big.Rat).SetInt(n)
	if n.Sign() == 0 {
		if neg {
			return math.Copysign(0, -1)
		}
		return 0
	}
	// (shortcuts by the magnitude of the whole number, not of the exponent alone: the digit
	// string may be thousands of digits long)
	mag := exp10 + len(strings.TrimLeft(digits, "0"))
	if mag > 400 {
		if neg {
			return math.Inf(-1)
		}
		return math.Inf(1)
	}
	if mag < -400 {
		if neg {
			return math.Copysign(0, -1)
		}
		return 0
	}
	p := new(big.Int).Exp(big.NewInt(10), big.NewInt(int64(abs(exp10))), nil)
	if exp10 >= 0 {
		rat.Mul(rat, new(big.Rat).SetInt(p))
	} else {
		rat.Quo(rat, new(big.Rat).SetInt(p))
	}
	f, _ := rat.Float64()
	if neg {
		f = -f
		if f == 0 {
			f = math.Copysign(0, -1)
		}
	}
	return f
}

func abs(x int) int {
	if x < 0 {
		return -x
	}
	return x
}

func intLit(n int) zr.Num { return zr.Num{Lit: strconv.Itoa(n), V: float64(n)} }

// describe an outcome for evidence samples
func outcomeBrief(ref zr.Result) string {
	if ref.Err != nil {
		return "error: " + ref.Err.Error()
	}
	v, ok := refToVal(ref.Val)
	if !ok {
		return "value (not compared)"
	}
	return v.String()
}

// handCase: a hand-written program with its expected outcome written down ("|" separates
// acceptable outcomes; "error:*" accepts any error, "error:NN" an error with that code)
type handCase struct{ name, src, want string }

func (c *Ctx) runHand(tag string, cases []handCase) {
	reqs := []Req{}
	for _, h := range cases {
		r := execReq(h.src)
		r.Libs = strings.Contains(h.src, "导入《@")
		reqs = append(reqs, r)
	}
	c.runBatches(reqs, 8, func(i int, req *Req, resp *Resp) {
		c.Eval()
		h := cases[i]
		got := resp.Kind
		if resp.Kind == "value" && resp.Val != nil {
			got = resp.Val.String()
		} else if resp.Kind == "error" && resp.Err != nil {
			got = fmt.Sprintf("error:%d", resp.Err.Code)
		}
		c.Nontrivial(tag + "|" + h.name + "|" + resp.Kind)
		ok := false
		for _, w := range strings.Split(h.want, "|") {
			if got == w || (w == "error:*" && resp.Kind == "error") {
				ok = true
			}
		}
		quiescent(c, tag, h.name, h.src, resp)
		if !ok {
			detail := ""
			if resp.Err != nil {
				detail = " (" + resp.Err.Msg + ")"
			}
			c.Violation(tag+":"+h.name, fmt.Sprintf("%s/%s: the program yields %s%s, expected %s\nprogram:\n%s", tag, h.name, got, detail, h.want, h.src), map[string]interface{}{"req": req})
		}
	})
}


// handFiles: a hand-written program of several files (main.zn imports the others) with its
// expected outcome written down (same notation as handCase)
type handFiles struct {
	name  string
	files map[string]string
	want  string
}

func (c *Ctx) runHandFiles(tag string, cases []handFiles) {
	reqs := []Req{}
	for _, h := range cases {
		fl := []File{}
		libs := false
		for _, p := range SortedKeys(h.files) {
			fl = append(fl, File{Path: p, Data: widen([]byte(h.files[p]))})
			libs = libs || strings.Contains(h.files[p], "导入《@")
		}
		reqs = append(reqs, Req{Op: "exec", Main: "main.zn", Files: fl, Libs: libs, EvalBudget: 200000, ParseBudget: 200000})
	}
	c.runBatches(reqs, 8, func(i int, req *Req, resp *Resp) {
		c.Eval()
		h := cases[i]
		got := resp.Kind
		if resp.Kind == "value" && resp.Val != nil {
			got = resp.Val.String()
		} else if resp.Kind == "error" && resp.Err != nil {
			got = fmt.Sprintf("error:%d", resp.Err.Code)
		}
		c.Nontrivial(tag + "|" + h.name + "|" + resp.Kind)
		c.Count("hand_written_multi_file_programs", 1)
		ok := false
		for _, w := range strings.Split(h.want, "|") {
			if got == w || (w == "error:*" && resp.Kind == "error") {
				ok = true
			}
		}
		all := ""
		for _, p := range SortedKeys(h.files) {
			all += "--- " + p + "\n" + h.files[p]
		}
		quiescent(c, tag, h.name, all, resp)
		if !ok {
			detail := ""
			if resp.Err != nil {
				detail = " (" + resp.Err.Msg + ")"
			}
			c.Violation(tag+":"+h.name, fmt.Sprintf("%s/%s: the program yields %s%s, expected %s\n%s", tag, h.name, got, detail, h.want, all), map[string]interface{}{"req": req})
		}
	})
}
