package main

import (
	"bytes"
	"fmt"
	"strings"
	"unicode/utf8"

	. "verif/internal/proto"
)

func init() { register("C17", "fault_enumeration", checkC17) }

type c17Case struct {
	name string
	data []byte
}

func expectedRunes(data []byte, stripBOM bool) ([]int32, bool) {
	if !utf8.Valid(data) {
		return nil, false
	}
	rs := []rune(string(data))
	if stripBOM && len(rs) > 0 && rs[0] == 0xFEFF {
		rs = rs[1:]
	}
	out := make([]int32, len(rs))
	for i, r := range rs {
		out[i] = int32(r)
	}
	return out, true
}

func eqRunes(a, b []int32) bool {
	if len(a) != len(b) {
		return false
	}
	for i := range a {
		if a[i] != b[i] {
			return false
		}
	}
	return true
}

func widen(b []byte) []int32 {
	out := make([]int32, len(b))
	for i, x := range b {
		out[i] = int32(x)
	}
	return out
}

func checkC17(c *Ctx) {
	c.rule = "byte strings = characters of width 2/3/4 straddling every 4096-byte block boundary at every split offset, boundary sizes, BOM variants, legitimate U+FFFD, every single-byte corruption (overwrite 0x80/0xC0/0xF8/0xFF, delete, truncate) of small valid programs, overlong/surrogate encodings, GBK text; each through FileStream.ReadAll, ByteStream.ReadAll, chunked Read(n) for n in 1..17 and random n, FileStream.ReadAll over a named pipe whose writer pauses at chosen offsets (after the BOM, inside characters) or trickles a few hundred bytes one or two at a time, files of the machine whose reported size is 0 although they have content (procfs / sysfs) against a plain read; the same marker programs as the SourceCode field of a playground request (raw body bytes), and end-to-end LoadFile+Execute of marker programs (as the main file and as an imported module: directly, in a sub-directory, behind a relay module), among them valid files with 22 unusual characters (U+0000, controls, U+2028, U+FEFF, noncharacters, …) in a literal / a comment / between statements / at a line start / at the end: rejected as a whole or run completely. and 8 goroutines that load and run different multi-block files (each with a module) at the same time under the race detector. Oracle: unicode/utf8 (Valid + []rune). distinct_nontrivial = distinct (case family, validity, reader mode) x byte-level shape hashes with at least one multi-byte character or corruption"
	c.assumptions = []string{"Go's unicode/utf8 is the reference decoder", "a leading BOM is judged only for FileStream (source files); ByteStream may keep or drop it"}
	rng := c.Rand("c17")
	cases := []c17Case{}
	add := func(name string, data []byte) { cases = append(cases, c17Case{name, data}) }

	chars := map[int]string{2: "é", 3: "中", 4: "😀"}
	blocks := []int{4096, 8192, 12288}
	for _, b := range blocks {
		for w, ch := range chars {
			for split := 0; split < w; split++ {
				// the character starts at offset b-split, so `split` bytes of it lie before the boundary
				// (split==0: starts exactly at the boundary)
				start := b - split
				data := []byte(strings.Repeat("a", start) + ch + "尾巴\n")
				add(fmt.Sprintf("straddle/b%d/w%d/s%d", b, w, split), data)
				// all-multibyte filler so that earlier boundaries are also hit at odd phases
				filler := strings.Repeat("中", start/3) + strings.Repeat("a", start%3)
				add(fmt.Sprintf("straddle-mb/b%d/w%d/s%d", b, w, split), []byte(filler+ch+"x"))
			}
		}
	}
	for _, b := range blocks {
		for _, sz := range []int{b - 1, b, b + 1, 3*b + 7} {
			add(fmt.Sprintf("size/%d", sz), []byte(strings.Repeat("a", sz)))
			n := sz / 3
			add(fmt.Sprintf("size-mb/%d", sz), []byte(strings.Repeat("文", n)+strings.Repeat("b", sz-3*n)))
		}
	}
	add("size/0", []byte{})
	add("size/1", []byte("a"))
	add("bom/alone", []byte("\xEF\xBB\xBF"))
	add("bom/text", []byte("\xEF\xBB\xBF令甲 = 1\n"))
	add("bom/two", []byte("\xEF\xBB\xBF\xEF\xBB\xBF令甲 = 1\n"))
	add("bom/middle", []byte("令甲\xEF\xBB\xBF = 1\n"))
	add("fffd/legit", []byte("令甲 = “a\xEF\xBF\xBDb”\n输出甲\n"))
	add("fffd/first", []byte("\xEF\xBF\xBD"))
	add("overlong/c080", []byte("ab\xC0\x80cd"))
	add("overlong/e08080", []byte("ab\xE0\x80\x80cd"))
	add("surrogate/eda080", []byte("ab\xED\xA0\x80cd"))
	add("toolarge/f4908080", []byte("ab\xF4\x90\x80\x80cd"))
	add("gbk", []byte("\xC1\xEE\xBC\xD7 = 1\n\xCA\xE4\xB3\xF6\xBC\xD7\n"))
	add("latin1", []byte("caf\xE9"))
	add("trailing-lead", []byte("abc\xE4"))
	add("trailing-lead2", []byte("abc\xE4\xB8"))
	add("lone-cont", []byte("\x80"))

	// single-byte corruptions of small programs
	small := []string{"令甲 = “中文”\n输出甲\n", "（显示：“你好😀”）\n", "令é = 1\n输出é + 1\n"}
	nSmall := len(small)
	if !c.Quick() {
		for i := 0; i < 6; i++ {
			small = append(small, corpus[i])
		}
		nSmall = len(small)
	}
	for si := 0; si < nSmall; si++ {
		base := []byte(small[si])
		for pos := 0; pos < len(base); pos++ {
			for _, nb := range []byte{0x80, 0xC0, 0xF8, 0xFF} {
				if base[pos] == nb {
					continue
				}
				d := append([]byte{}, base...)
				d[pos] = nb
				add(fmt.Sprintf("corrupt/%d/ow%02x@%d", si, nb, pos), d)
			}
			d := append(append([]byte{}, base[:pos]...), base[pos+1:]...)
			add(fmt.Sprintf("corrupt/%d/del@%d", si, pos), d)
			add(fmt.Sprintf("corrupt/%d/trunc@%d", si, pos), append([]byte{}, base[:pos]...))
		}
	}
	// corruption at / around a block boundary in a large file
	for _, b := range blocks[:2] {
		for _, off := range []int{-3, -2, -1, 0, 1, 2} {
			d := []byte(strings.Repeat("文", (b+300)/3))
			d[b+off] = 0xFF
			add(fmt.Sprintf("corrupt-big/b%d/%d", b, off), d)
		}
	}
	// random valid mixes
	alphabet := []string{"a", "é", "中", "😀", "\n", "文", "Ω", "\xEF\xBF\xBD"}
	for i := 0; i < c.Pick(150, 3000); i++ {
		var sb strings.Builder
		n := rng.Intn(3) * 4096
		n += rng.Intn(200)
		for sb.Len() < n {
			sb.WriteString(alphabet[rng.Intn(len(alphabet))])
		}
		d := []byte(sb.String())
		if rng.Intn(3) == 0 && len(d) > 0 {
			d[rng.Intn(len(d))] = byte(0x80 + rng.Intn(0x80))
		}
		add(fmt.Sprintf("random/%d", i), d)
	}

	type job struct {
		ci   int
		mode string
		n    int
		cuts []int
	}
	jobs := []job{}
	for ci := range cases {
		jobs = append(jobs, job{ci, "file", 0, nil}, job{ci, "byte", 0, nil})
		ns := []int{1, 2, 3, 4, 5, 7, 16, 17}
		if !c.Quick() {
			ns = []int{1, 2, 3, 4, 5, 6, 7, 8, 9, 10, 11, 12, 13, 14, 15, 16, 17, 4095, 4096, 4097}
		}
		if len(cases[ci].data) > 3000 {
			ns = []int{3, 5, 17, 4095, 4096, 4097, 1 + rng.Intn(9000)}
		}
		for _, n := range ns {
			jobs = append(jobs, job{ci, "fileN", n, nil})
			if n%2 == 1 {
				jobs = append(jobs, job{ci, "byteN", n, nil})
			}
		}
	}
	// the same files delivered through a named pipe in parts (short reads at chosen offsets:
	// after the BOM, inside a character, one byte at a time at the start)
	nf := 0
	for ci := range cases {
		d := cases[ci].data
		if len(d) == 0 || len(d) > 400 || (c.Quick() && nf > 400) {
			continue
		}
		cutSets := [][]int{{3}, {1}, {2}, {1, 2, 3}, {3, 4}, {1, 2, 3, 4, 5, 6}, {len(d) - 1}, {len(d) - 2}, {len(d) / 2}}
		for k := 0; k < 3; k++ {
			cs := []int{}
			for p := 1 + rng.Intn(4); p < len(d); p += 1 + rng.Intn(9) {
				cs = append(cs, p)
				if len(cs) > 6 {
					break
				}
			}
			cutSets = append(cutSets, cs)
		}
		for _, cs := range cutSets {
			jobs = append(jobs, job{ci, "fifo", 0, cs})
			nf++
		}
	}
	// … and a writer that delivers a few hundred bytes one (or two) at a time: hundreds of reads in a
	// row complete no character, the file still has to be decoded to its last character
	{
		texts := map[string]string{
			"trickle/cjk-80":      "令甲 = “" + strings.Repeat("字", 80) + "”\n输出甲\n",
			"trickle/emoji-60":    "令甲 = “" + strings.Repeat("😀", 60) + "”\n输出甲\n",
			"trickle/mixed-bom":   "\xEF\xBB\xBF" + strings.Repeat("é字😀a", 40) + "\n",
			"trickle/cjk-200-by2": strings.Repeat("中文", 100) + "\n",
			"trickle/invalid-tail": strings.Repeat("字", 70) + "\xE4\xB8",
		}
		for _, name := range SortedKeys(texts) {
			d := []byte(texts[name])
			add(name, d)
			step := 1
			if strings.HasSuffix(name, "by2") {
				step = 2
			}
			cs := []int{}
			for p := step; p < len(d); p += step {
				cs = append(cs, p)
			}
			jobs = append(jobs, job{len(cases) - 1, "fifo", 2, cs})
			nf++
		}
	}
	c.Count("fifo_deliveries", int64(nf))
	reqs := make([]Req, len(jobs))
	for i, j := range jobs {
		reqs[i] = Req{Op: "readall", Data: widen(cases[j.ci].data), Mode: j.mode, N: j.n, Cuts: j.cuts}
	}
	c.runBatches(reqs, 100, func(i int, req *Req, resp *Resp) {
		c.Eval()
		j := jobs[i]
		cs := cases[j.ci]
		isFile := strings.HasPrefix(j.mode, "fi")
		want, valid := expectedRunes(cs.data, isFile)
		fam := strings.SplitN(cs.name, "/", 2)[0]
		c.Distinct("families", fam+"/"+j.mode)
		if !utf8.Valid(cs.data) || len(cs.data) != len([]rune(string(cs.data))) {
			c.Nontrivial(fmt.Sprintf("%s|%s|%d|%v|%d", cs.name, j.mode, j.n, valid, len(cs.data)))
		}
		key := fmt.Sprintf("decode:%s:%s/%s/%d%v", fam, cs.name, j.mode, j.n, j.cuts)
		rp := map[string]interface{}{"req": req, "case": cs.name}
		switch resp.Kind {
		case "ok":
			if !valid {
				c.Violation(key, fmt.Sprintf("%s (%d bytes, not valid UTF-8) read via %s(n=%d): accepted without error, %d runes returned", cs.name, len(cs.data), j.mode, j.n, len(resp.Runes)), rp)
				return
			}
			got := resp.Runes
			if !isFile {
				// BOM handling of ByteStream is not judged
				w2, _ := expectedRunes(cs.data, true)
				if eqRunes(got, w2) {
					return
				}
			}
			if !eqRunes(got, want) {
				c.Violation(key, fmt.Sprintf("%s (%d bytes, valid UTF-8) read via %s(n=%d): %d runes returned, %d expected (first difference at rune %d)", cs.name, len(cs.data), j.mode, j.n, len(got), len(want), firstDiff(got, want)), rp)
			}
		case "error":
			if valid {
				c.Violation(key, fmt.Sprintf("%s (valid UTF-8) read via %s(n=%d): rejected: %s", cs.name, j.mode, j.n, resp.Err.Msg), rp)
			}
		default:
			c.Violation(key, fmt.Sprintf("%s via %s(n=%d): %s %s %s", cs.name, j.mode, j.n, resp.Kind, clip(resp.Panic, 200), clip(resp.Stderr, 200)), rp)
		}
	})

	// files whose reported size says nothing about their content (procfs / sysfs report 0): decoded
	// like any other file - the same characters a plain read of the path delivers
	{
		paths := []string{"/proc/version", "/proc/self/comm", "/proc/sys/kernel/ostype", "/proc/sys/kernel/osrelease", "/proc/filesystems", "/proc/self/cmdline", "/proc/sys/kernel/hostname", "/sys/kernel/mm/transparent_hugepage/enabled", "/proc/self/limits"}
		preqs := []Req{}
		for _, p := range paths {
			preqs = append(preqs, Req{Op: "readall", Mode: "path", Text: p})
		}
		c.runBatches(preqs, 3, func(i int, req *Req, resp *Resp) {
			c.Eval()
			if resp.Kind == "died" || len(resp.Chunks) == 0 {
				c.Count("special_files_not_present", 1)
				return
			}
			c.Nontrivial("special-file|" + paths[i] + "|" + resp.Kind)
			c.Count("special_files_read", 1)
			valid := !(len(resp.Ints) > 1 && resp.Ints[1] == -1)
			switch {
			case valid && resp.Kind != "ok":
				c.Violation("decode:special:"+paths[i], fmt.Sprintf("%s (%d bytes of valid UTF-8 when read plainly) is rejected: %v", paths[i], resp.Ints[0], resp.Err), map[string]interface{}{"path": paths[i]})
			case valid && !eqRunes(resp.Runes, resp.Chunks[0]):
				c.Violation("decode:special:"+paths[i], fmt.Sprintf("%s: a plain read delivers %d bytes / %d characters, FileStream.ReadAll %d characters without an error", paths[i], resp.Ints[0], len(resp.Chunks[0]), len(resp.Runes)), map[string]interface{}{"path": paths[i]})
			case !valid && resp.Kind == "ok":
				c.Violation("decode:special:"+paths[i], fmt.Sprintf("%s is not valid UTF-8 but was accepted", paths[i]), map[string]interface{}{"path": paths[i]})
			}
		})
	}

	// end-to-end: marker programs
	mk := func(lines int, filler string) []byte {
		var sb strings.Builder
		for i := 1; i <= lines; i++ {
			sb.WriteString(fmt.Sprintf("（显示：“M%d%s”）\n", i, filler))
		}
		return []byte(sb.String())
	}
	type e2e struct {
		name    string
		data    []byte
		markers int
	}
	e2es := []e2e{}
	for _, lines := range []int{3, 40, 400} {
		base := mk(lines, "文")
		e2es = append(e2es, e2e{fmt.Sprintf("valid/%d", lines), base, lines})
		e2es = append(e2es, e2e{fmt.Sprintf("bom/%d", lines), append([]byte("\xEF\xBB\xBF"), base...), lines})
		// corrupt a byte inside the string literal of a line at 25%, 50%, 90%
		for _, frac := range []int{5, 25, 50, 90} {
			d := append([]byte{}, base...)
			pos := len(d) * frac / 100
			// move to the next byte of a multi-byte char inside a literal
			for pos < len(d) && d[pos] < 0x80 {
				pos++
			}
			if pos < len(d) {
				d[pos] = 0xFF
				e2es = append(e2es, e2e{fmt.Sprintf("corrupt/%d/%d%%", lines, frac), d, lines})
			}
		}
		// legit U+FFFD inside a literal
		d := []byte(strings.Replace(string(base), "文", "\xEF\xBF\xBD", 1))
		e2es = append(e2es, e2e{fmt.Sprintf("fffd/%d", lines), d, lines})
		// GBK bytes in the middle
		d = []byte(strings.Replace(string(base), "文", "\xCE\xC4", 1))
		e2es = append(e2es, e2e{fmt.Sprintf("gbk/%d", lines), d, lines})
	}
	// valid files holding unusual (but valid) characters in a literal, in a comment, or between
	// statements: the file may be rejected as a whole (nothing runs), or it runs completely
	specials := []rune{0x0000, 0x0001, 0x0008, 0x000B, 0x000C, 0x001A, 0x001B, 0x007F, 0x0085, 0x00A0, 0x00AD, 0x200B, 0x2028, 0x2029, 0x202E, 0xFEFF, 0xFFFD, 0xFFFE, 0xFFFF, 0xE000, 0x1F600, 0x10FFFF}
	special := map[string]rune{}
	for _, sp := range specials {
		for _, place := range []string{"literal", "comment", "between", "line-start", "file-end"} {
			var sb strings.Builder
			for i := 1; i <= 6; i++ {
				switch {
				case i == 3 && place == "literal":
					sb.WriteString(fmt.Sprintf("（显示：“M%d甲%c乙”）\n", i, sp))
					continue
				case i == 3 && place == "comment":
					sb.WriteString(fmt.Sprintf("注：说明 %c 说明\n", sp))
				case i == 3 && place == "between":
					sb.WriteString(fmt.Sprintf("（显示：“M%d文”） %c\n", i, sp))
					continue
				case i == 3 && place == "line-start":
					sb.WriteString(fmt.Sprintf("%c（显示：“M%d文”）\n", sp, i))
					continue
				}
				sb.WriteString(fmt.Sprintf("（显示：“M%d文”）\n", i))
			}
			if place == "file-end" {
				sb.WriteRune(sp)
			}
			name := fmt.Sprintf("special/U+%04X/%s", sp, place)
			e2es = append(e2es, e2e{name, []byte(sb.String()), 6})
			special[name] = sp
		}
	}
	ereqs := make([]Req, len(e2es))
	for i, e := range e2es {
		ereqs[i] = Req{Op: "exec", Main: "main.zn", Files: []File{{Path: "main.zn", Data: widen(e.data)}}, EvalBudget: 100000}
	}
	c.runBatches(ereqs, 8, func(i int, req *Req, resp *Resp) {
		c.Eval()
		e := e2es[i]
		valid := utf8.Valid(e.data)
		c.Nontrivial("e2e|" + e.name)
		shown := strings.Count(resp.Display, "M")
		key := "e2e:" + strings.SplitN(e.name, "/", 2)[0] + ":" + e.name
		rp := map[string]interface{}{"req": req, "case": e.name}
		if sp, ok := special[e.name]; ok && valid {
			switch {
			case resp.Kind == "error" && shown == 0:
				c.Count("special_rejected_as_a_whole", 1)
			case resp.Kind == "value" && shown == e.markers && (!strings.HasSuffix(e.name, "/literal") || strings.ContainsRune(resp.Display, sp)):
				c.Count("special_ran_completely", 1)
			default:
				c.Violation(key, fmt.Sprintf("valid UTF-8 file with U+%04X (%s): outcome %s, %d of %d marker lines displayed - neither rejected as a whole nor run completely and unaltered\ndisplay: %q", sp, e.name, resp.Kind, shown, e.markers, clip(resp.Display, 200)), rp)
			}
			return
		}
		if valid {
			if resp.Kind != "value" || shown != e.markers {
				c.Violation(key, fmt.Sprintf("valid file %s (%d marker lines): outcome %s, %d markers displayed", e.name, e.markers, resp.Kind, shown), rp)
			}
			return
		}
		if resp.Kind != "error" || shown != 0 {
			c.Violation(key, fmt.Sprintf("file %s is not valid UTF-8 but was executed: outcome %s, %d of %d markers displayed", e.name, resp.Kind, shown, e.markers), rp)
		} else if resp.Err.Class == "runtime" {
			c.Violation(key, fmt.Sprintf("file %s is not valid UTF-8 but reached the evaluator: %s", e.name, resp.Err.Msg), rp)
		}
	})
	// the same files as imported modules: directly, in a sub-directory, and behind a valid relay
	// module. Imports run before the importer's statements, so a module that is not valid UTF-8 means
	// that nothing at all is displayed and the run ends with an error; a valid one runs completely.
	{
		type me struct {
			e     e2e
			shape string
		}
		mes := []me{}
		mreqs := []Req{}
		for _, e := range e2es {
			if _, ok := special[e.name]; ok {
				continue
			}
			for _, shape := range []string{"direct", "subdir", "relay"} {
				var fl []File
				switch shape {
				case "direct":
					fl = []File{{Path: "main.zn", Data: widen([]byte("导入“模块”\n（显示：“MAIN”）\n"))}, {Path: "模块.zn", Data: widen(e.data)}}
				case "subdir":
					fl = []File{{Path: "main.zn", Data: widen([]byte("导入“库-模块”\n（显示：“MAIN”）\n"))}, {Path: "库/模块.zn", Data: widen(e.data)}}
				default:
					fl = []File{{Path: "main.zn", Data: widen([]byte("导入“中转”\n（显示：“MAIN”）\n"))}, {Path: "中转.zn", Data: widen([]byte("导入“模块”\n（显示：“RELAY”）\n"))}, {Path: "模块.zn", Data: widen(e.data)}}
				}
				mes = append(mes, me{e, shape})
				mreqs = append(mreqs, Req{Op: "exec", Main: "main.zn", Files: fl, EvalBudget: 100000})
			}
		}
		c.runBatches(mreqs, 8, func(i int, req *Req, resp *Resp) {
			c.Eval()
			m := mes[i]
			valid := utf8.Valid(m.e.data)
			c.Nontrivial("module|" + m.shape + "|" + m.e.name)
			c.Count("module_files_checked", 1)
			shown := strings.Count(resp.Display, "M") - strings.Count(resp.Display, "MAIN")
			mainShown := strings.Contains(resp.Display, "MAIN")
			key := "module:" + m.shape + ":" + m.e.name
			rp := map[string]interface{}{"req": req, "case": m.e.name, "shape": m.shape}
			if valid {
				if resp.Kind != "value" || shown != m.e.markers || !mainShown {
					c.Violation(key, fmt.Sprintf("valid module file %s imported (%s): outcome %s, %d of %d module markers, main ran: %v", m.e.name, m.shape, resp.Kind, shown, m.e.markers, mainShown), rp)
				}
				return
			}
			if resp.Kind != "error" || shown != 0 || mainShown || strings.Contains(resp.Display, "RELAY") {
				c.Violation(key, fmt.Sprintf("module file %s is not valid UTF-8 but the program that imports it (%s) was executed: outcome %s, %d of %d module markers displayed, importer ran: %v\ndisplay: %q", m.e.name, m.shape, resp.Kind, shown, m.e.markers, mainShown, clip(resp.Display, 200)), rp)
			}
		})
	}
	// the other way a source reaches the interpreter: the SourceCode field of a playground request.
	// A body whose bytes are not valid UTF-8 must not be executed as a silently altered program.
	jsonEsc := func(b []byte) []byte {
		out := []byte{}
		for _, ch := range b {
			switch ch {
			case '\\':
				out = append(out, '\\', '\\')
			case '"':
				out = append(out, '\\', '"')
			case '\n':
				out = append(out, '\\', 'n')
			case '\r':
				out = append(out, '\\', 'r')
			case '\t':
				out = append(out, '\\', 't')
			default:
				out = append(out, ch)
			}
		}
		return out
	}
	pgs := []e2e{}
	for _, e := range e2es {
		if _, sp := special[e.name]; sp || e.markers > 40 {
			continue
		}
		pgs = append(pgs, e)
	}
	preqs := make([]Req, len(pgs))
	for i, e := range pgs {
		body := append([]byte(`{"VarInput":"","SourceCode":"`), jsonEsc(bytes.TrimPrefix(e.data, []byte("\xEF\xBB\xBF")))...)
		body = append(body, []byte(`"}`)...)
		preqs[i] = Req{Op: "pg", Data: widen(body), EvalBudget: 100000}
	}
	c.runBatches(preqs, 8, func(i int, req *Req, resp *Resp) {
		c.Eval()
		e := pgs[i]
		valid := utf8.Valid(e.data)
		c.Nontrivial("playground|" + e.name)
		shown := strings.Count(resp.Display, "M")
		key := "playground:" + e.name
		rp := map[string]interface{}{"req": req, "case": e.name}
		if resp.Kind != "value" {
			c.Violation(key, fmt.Sprintf("playground request %s: %s %s", e.name, resp.Kind, clip(resp.Panic, 300)), rp)
			return
		}
		if valid && shown != e.markers {
			c.Violation(key, fmt.Sprintf("playground request with the valid program %s: %d of %d marker lines displayed (status %v)", e.name, shown, e.markers, resp.Ints), rp)
		}
		if !valid && shown != 0 {
			c.Violation(key, fmt.Sprintf("playground request whose SourceCode (%s) is not valid UTF-8 was executed: %d of %d marker lines displayed, status %v, response %q", e.name, shown, e.markers, resp.Ints, clip(resp.Val.String(), 120)), rp)
		}
	})
	// source files read at the same time: 8 goroutines each load and run a different multi-block
	// main file with a module of its own, again and again (a -race build; every execution must
	// yield the value of its own file)
	if bin, err := buildTool(c, "./srvharness", "srvharness", true); err != nil {
		c.Inconclusive(err.Error())
	} else if sum, blocks, sigs, err := runHarness(c, bin, "bigfiles", 8, c.Pick(40, 400), c.Seed, "bigfiles"); err != nil {
		c.Inconclusive("bigfiles: " + err.Error())
	} else {
		c.Count("concurrent_file_executions", int64(sum.Requests))
		c.Nontrivial(fmt.Sprintf("bigfiles|%d requests", sum.Requests))
		if sum.Requests < 100 {
			c.Inconclusive("bigfiles: too few executions")
		}
		if sum.Crossed > 0 || sum.Errors > 0 {
			c.Violation("concurrent:files", fmt.Sprintf("%d of %d concurrent executions of different source files did not yield the value of their own file (errors: %d): %s", sum.Crossed, sum.Requests, sum.Errors, clip(strings.Join(sum.Samples, " ; "), 600)), map[string]interface{}{"scenario": "srvharness -mode bigfiles -g 8"})
		}
		if blocks > 0 {
			keys := []string{}
			for k := range sigs {
				keys = append(keys, k)
			}
			c.Violation("concurrent:files:race", fmt.Sprintf("the race detector reports %d data race(s) while different source files are read at the same time: %s", blocks, clip(strings.Join(keys, " ; "), 600)), map[string]interface{}{"scenario": "srvharness -mode bigfiles -g 8 (race build)"})
		}
	}
	c.Sample(map[string]interface{}{"case": cases[0].name, "bytes": len(cases[0].data), "modes": "file, byte, fileN(n), byteN(n)"})
	c.Sample(map[string]interface{}{"case": "corrupt/0/ow80@3", "bytes_hex": fmt.Sprintf("% x", []byte(small[0])[:12])})
	c.Sample(map[string]interface{}{"e2e": e2es[3].name, "markers": e2es[3].markers})
	c.exhaustive = false
}

func firstDiff(a, b []int32) int {
	for i := 0; i < len(a) && i < len(b); i++ {
		if a[i] != b[i] {
			return i
		}
	}
	if len(a) < len(b) {
		return len(a)
	}
	return len(b)
}
