package main

import (
	"encoding/json"
	"fmt"
	"os"
	"os/exec"
	"path/filepath"
	"regexp"
	"sort"
	"strings"
	"time"
)

type harnessSummary struct {
	Mode       string   `json:"mode"`
	Goroutines int      `json:"goroutines"`
	Requests   int      `json:"requests"`
	Crossed    int      `json:"crossed"`
	Errors     int      `json:"errors"`
	Distinct   int      `json:"distinct"`
	Samples    []string `json:"samples"`
}

// buildTool builds a /verif command (linking /repo with -tags verif) into the scratch dir.
func buildTool(c *Ctx, pkg, name string, race bool) (string, error) {
	bin := filepath.Join(c.Scratch, name)
	args := []string{"build", "-tags", "verif"}
	args = append(args, modArgs(c.Root, c.Scratch)...)
	if race {
		args = append(args, "-race")
	}
	args = append(args, "-o", bin, pkg)
	cmd := exec.Command("go", args...)
	cmd.Dir = c.Root
	cmd.Env = goEnv()
	out, err := cmd.CombinedOutput()
	if err != nil {
		return "", fmt.Errorf("%s build failed: %v\n%s", name, err, out)
	}
	return bin, nil
}

var reRaceFunc = regexp.MustCompile(`(?m)^\s+(github\.com/DemoHn/Zn/[^\s(]+(?:\([^)]*\))?\.[^\s(]+)\(`)

// raceReports reads GORACE log files with the given prefix and returns de-duplicated
// report signatures (the /repo functions of the two conflicting stacks).
func raceReports(prefix string) (blocks int, sigs map[string]string) {
	sigs = map[string]string{}
	files, _ := filepath.Glob(prefix + "*")
	for _, f := range files {
		data, err := os.ReadFile(f)
		if err != nil {
			continue
		}
		parts := strings.Split(string(data), "WARNING: DATA RACE")
		for _, p := range parts[1:] {
			blocks++
			fs := []string{}
			seen := map[string]bool{}
			for _, m := range reRaceFunc.FindAllStringSubmatch(p, -1) {
				if !seen[m[1]] {
					seen[m[1]] = true
					fs = append(fs, m[1])
				}
			}
			if len(fs) > 6 {
				fs = fs[:6]
			}
			sort.Strings(fs)
			sig := strings.Join(fs, " | ")
			if _, ok := sigs[sig]; !ok {
				if len(p) > 1500 {
					p = p[:1500]
				}
				sigs[sig] = p
			}
		}
	}
	return
}

func runHarness(c *Ctx, bin, mode string, g, n int, seed int64, tag string) (harnessSummary, int, map[string]string, error) {
	dir := filepath.Join(c.Scratch, "h-"+tag)
	os.MkdirAll(dir, 0o755)
	logPrefix := filepath.Join(dir, "race")
	cmd := exec.Command(bin, "-mode", mode, "-g", fmt.Sprint(g), "-n", fmt.Sprint(n), "-seed", fmt.Sprint(seed), "-dir", dir)
	cmd.Env = append(os.Environ(), "GORACE=halt_on_error=0 log_path="+logPrefix)
	cmd.Dir = dir
	done := make(chan struct{})
	var out []byte
	var err error
	go func() { out, err = cmd.Output(); close(done) }()
	select {
	case <-done:
	case <-time.After(5 * time.Minute):
		if cmd.Process != nil {
			cmd.Process.Kill()
		}
		<-done
		return harnessSummary{}, 0, nil, fmt.Errorf("harness watchdog fired (inconclusive)")
	}
	var sum harnessSummary
	lines := strings.Split(strings.TrimSpace(string(out)), "\n")
	if len(lines) == 0 || json.Unmarshal([]byte(lines[len(lines)-1]), &sum) != nil {
		return sum, 0, nil, fmt.Errorf("harness produced no summary (exit: %v): %s", err, clip(string(out), 300))
	}
	blocks, sigs := raceReports(logPrefix)
	return sum, blocks, sigs, nil
}

// ---------------------------------------------------------------- C16 (b)

func checkC16Concurrent(c *Ctx) {
	c.rule += " | (b) a -race build drives 2..32 goroutines through one ZnPlaygroundHandler, through ZnHttpHandlers (two of them sharing one Interpreter with different entry files) and through separate Interpreter objects (some executions running polluters); each request's program returns its own token; monitors: response == own token (crossed responses), race-detector report blocks (GORACE log, de-duplicated by the /repo functions of the conflicting stacks)."
	bin, err := buildTool(c, "./srvharness", "srvharness", true)
	if err != nil {
		c.Inconclusive(err.Error())
		return
	}
	rounds := c.Pick(3, 40)
	totalReq, totalBlocks := 0, 0
	for round := 0; round < rounds; round++ {
		for _, mode := range []string{"playground", "http", "separate"} {
			g := []int{2, 4, 8, 16, 32}[(round+len(mode))%5]
			n := c.Pick(120, 300)
			sum, blocks, sigs, err := runHarness(c, bin, mode, g, n, c.Seed*100+int64(round), fmt.Sprintf("%s-%d", mode, round))
			if err != nil {
				c.Inconclusive(mode + ": " + err.Error())
				continue
			}
			c.Count("evaluations", int64(sum.Requests))
			c.Count("concurrent_requests_"+mode, int64(sum.Requests))
			c.Nontrivial(fmt.Sprintf("conc|%s|g%d|round%d", mode, g, round))
			totalReq += sum.Requests
			totalBlocks += blocks
			rp := map[string]interface{}{"scenario": fmt.Sprintf("srvharness -mode %s -g %d -n %d -seed %d (build: go build -race -tags verif ./srvharness)", mode, g, n, c.Seed*100+int64(round)), "samples": sum.Samples}
			if sum.Crossed > 0 {
				c.Violation("concurrent:crossed:"+mode, fmt.Sprintf("%s: %d of %d concurrent requests (%d goroutines) received a response that is not their own: %s", mode, sum.Crossed, sum.Requests, g, clip(strings.Join(sum.Samples, " ; "), 500)), rp)
			}
			for sig, block := range sigs {
				rp2 := map[string]interface{}{"scenario": rp["scenario"], "report": block}
				c.Violation("concurrent:race:"+sig, fmt.Sprintf("%s: data race reported (%d report blocks in this run) between: %s\n%s", mode, blocks, sig, clip(block, 700)), rp2)
			}
		}
	}
	c.Extra("concurrent_requests_total", totalReq)
	c.Extra("race_report_blocks", totalBlocks)
}
