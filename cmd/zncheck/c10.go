package main

import (
	"fmt"
	"math"
	"os"
	"path/filepath"
	"regexp"
	"sort"
	"strings"
	"time"

	. "verif/internal/proto"
)

func init() { register("C10", "exploration", checkC10) }

// memberNames extracts candidate member names from the working tree at check time:
// every string literal with a non-ASCII character in the value / common / stdlib packages.
func memberNames() []string {
	set := map[string]bool{}
	re := regexp.MustCompile(`"([^"\\\n]*[^\x00-\x7f][^"\\\n]*)"`)
	for _, pat := range []string{"/pkg/value/*.go", "/pkg/common/*.go", "/stdlib/json/*.go", "/stdlib/file/*.go", "/pkg/exec/globals.go"} {
		pat = repoRoot() + pat
		files, _ := filepath.Glob(pat)
		for _, f := range files {
			if strings.HasSuffix(f, "_test.go") {
				continue
			}
			data, err := os.ReadFile(f)
			if err != nil {
				continue
			}
			for _, m := range re.FindAllStringSubmatch(string(data), -1) {
				if len([]rune(m[1])) <= 8 && !strings.ContainsAny(m[1], " ：，！%{}") {
					set[m[1]] = true
				}
			}
		}
	}
	for _, extra := range []string{"不存在的成员", "URL", "", "a"} {
		set[extra] = true
	}
	out := []string{}
	for k := range set {
		out = append(out, k)
	}
	sort.Strings(out)
	return out
}

func c10Receivers() []Val {
	return []Val{
		Num(0), Num(math.Copysign(0, -1)), Num(1), Num(-1), Num(0.5), Num(-7.5), Num(9007199254740993), Num(1e308), Num(5e-324),
		Num(math.Inf(1)), Num(math.Inf(-1)), Num(math.NaN()),
		Text(""), Text("a"), Text("你好，世界"), Text("😀x"), Text("一二三四五六七八九十百千"), Text("1.5"), Text("{}"), Text("{#.2}{"), Text("1*^2"), Text(strings.Repeat("长", 300)),
		Bool(true), Bool(false), Null(),
		List(), List(Num(1), Num(2), Num(3)), List(Text("a"), Text("b")), List(List(Num(1)), Dict([]string{"k"}, []Val{Num(1)}), Null()),
		Dict(nil, nil), Dict([]string{"甲", "乙"}, []Val{Num(1), Text("x")}), Dict([]string{"列", "典"}, []Val{List(Num(1)), Dict([]string{"内"}, []Val{Null()})}),
		// keys that are legal but unusual: the empty text, a blank, NUL, a quote, a number spelling, a long one
		Dict([]string{"", " ", "\x00"}, []Val{List(Num(1), Num(2)), Dict([]string{""}, []Val{Dict([]string{""}, []Val{List()})}), Num(3)}),
		Dict([]string{"”", "1", "1.0", strings.Repeat("键", 200)}, []Val{Num(1), List(Dict([]string{""}, []Val{List(Null())})), Text(""), Null()}),
		{T: "object", Name: "用户类"}, {T: "object", Name: "HTTP请求"}, {T: "object", Name: "HTTP响应"}, {T: "object", Name: "样品"},
		{T: "type", Name: "异常"}, {T: "type", Name: "数值"}, {T: "type", Name: "HTTP请求"}, {T: "type", Name: "HTTP响应"}, {T: "type", Name: "样品"}, {T: "type", Name: "空类"},
		{T: "method", Name: "显示"}, {T: "method", Name: "取随机数"}, {T: "method", Name: "解析JSON"}, {T: "method", Name: "生成JSON"},
		{T: "method", Name: "读取文件"}, {T: "method", Name: "写入文件"}, {T: "method", Name: "读取目录"}, {T: "method", Name: "自定"},
		{T: "exception", Str: "出错了"}, {T: "govalue"},
	}
}

func c10Args() []Val {
	return []Val{
		Num(0), Num(1), Num(2), Num(-1), Num(-5), Num(0.5), Num(2.5), Num(1e18), Num(-1e18), Num(9.3e18), Num(math.Inf(1)), Num(math.Inf(-1)), Num(math.NaN()),
		Text(""), Text("a"), Text("甲"), Text("😀"), Text("{\"a\":1}"), Text("[1,2"), Text("verif-c10-out.txt"),
		Bool(true), Null(),
		List(), List(Num(1), Text("a")), List(List()), Dict(nil, nil), Dict([]string{"甲"}, []Val{Num(math.NaN())}), Dict([]string{""}, []Val{List(Num(1))}),
		{T: "object", Name: "用户类"}, {T: "type", Name: "异常"}, {T: "method", Name: "显示"}, {T: "exception", Str: "e"}, {T: "self"},
	}
}

// recvLen: length of a list / dictionary / text receiver (characters for texts)
func recvLen(v Val) (int, bool) {
	switch v.T {
	case "list", "dict":
		return len(v.Items), true
	case "text":
		return len([]rune(v.S())), true
	}
	return 0, false
}

func valKind(v Val) string {
	if v.T == "object" || v.T == "type" || v.T == "method" {
		return v.T + ":" + v.Name
	}
	return v.T
}

func checkC10(c *Ctx) {
	// the deepest inputs of this check need a few GiB in the worker: a wider memory budget than the default
	c.Pool.Env = append(c.Pool.Env, "ZNWORKER_RSS_LIMIT_MB=10240")
	c.Pool.LongRetry = true
	c.rule = "API driver: every receiver of a 54-value pool (dictionaries with unusual but legal keys - the empty text, a blank, NUL, a quote, number spellings, a 200-character key - among them) (all value types incl. objects, types, library functions, exception, Go value) x every member name extracted from the working tree (+unknown names) x {get, set, call, new, fn, str, dup, twin (continue on the copy), cmp, json} x argument tuples (arity 0..1 exhaustive over a 33-value boundary pool, arity 2 exhaustive in thorough, arity 2..4 random; for list / dictionary / text receivers additionally every position and position pair in [-2, length+2]; for dictionary receivers every member with key paths that begin with the receiver's own keys), applied as step sequences on one receiver; plus scripted histories that copy a list / dictionary of 0..9 elements and alternate insertions and removals between the value and its copy, displaying both. Program driver: one- and two-statement Zn programs applying every operator / index / member / call / new / throw / loop form to input variables drawn from the same pools; plus user methods / type methods whose body ends in each of 25 failures (with no handler, a handler without and with 输出) whose call is placed in each of 26 consumer positions. Whole-program driver: programs made of definitions / comments / imports only and programs yielding each kind of value and ill-formed programs whose error report steps over characters of every plane, through Execute and through the playground HTTP handler; runaway recursion (plain, mutual, through a type method, through a constructor) without a logical budget. Input-variable driver: texts without any statement (line breaks, comments, imports only), every right-hand-side kind, failing and ill-formed texts through ExecVarInputText. Traversal driver: every mutating list / dictionary method applied to the collection a 遍历 is running over (lists of 1, 2, 3, 6 items; directly, in a called method, through an alias parameter). Host driver: 21 programs served by ZnHttpHandler that answer with an HTTP响应 object whose 头部 / 状态码 / 内容 have the wrong type or whose status is 0, negative, fractional, 99, 1000, 1e19, infinite or NaN. Huge-result driver: 替换 / 拼接 / 分隔 on ordinary-sized texts whose result would need 2^49 bytes. Violation = recovered Go panic, nil element without error, worker exit, or hang. distinct_nontrivial = distinct (receiver kind, step kind, member, arg kinds, outcome kind)"
	c.assumptions = []string{"library functions run inside the worker's private scratch directory", "member tables are read from /repo sources at check time by a string-literal scan"}
	rng := c.Rand("c10")
	members := memberNames()
	c.Extra("member_names", len(members))
	recvs := c10Receivers()
	args := c10Args()

	// ---------------------------------------------------------------- API driver
	type apiJob struct {
		recv  Val
		steps []Step
	}
	jobs := []apiJob{}
	chunk := 40
	for _, rv := range recvs {
		steps := []Step{}
		flush := func() {
			for len(steps) > 0 {
				n := chunk
				if n > len(steps) {
					n = len(steps)
				}
				jobs = append(jobs, apiJob{rv, append([]Step{}, steps[:n]...)})
				steps = steps[n:]
			}
		}
		for _, m := range members {
			steps = append(steps, Step{Kind: "get", Name: m})
			steps = append(steps, Step{Kind: "call", Name: m})
			for _, a := range args {
				steps = append(steps, Step{Kind: "set", Name: m, Args: []Val{a}})
				steps = append(steps, Step{Kind: "call", Name: m, Args: []Val{a}})
			}
			if !c.Quick() {
				for _, a := range args {
					for _, b := range args {
						steps = append(steps, Step{Kind: "call", Name: m, Args: []Val{a, b}})
					}
				}
			}
			// positions relative to the receiver's own length (off-by-one boundaries)
			if L, ok := recvLen(rv); ok && L <= 12 {
				for i := -2; i <= L+2; i++ {
					steps = append(steps, Step{Kind: "call", Name: m, Args: []Val{Num(float64(i))}})
					steps = append(steps, Step{Kind: "call", Name: m, Args: []Val{Text("x"), Num(float64(i))}})
					steps = append(steps, Step{Kind: "call", Name: m, Args: []Val{Num(float64(i)), Text("x")}})
					for j := -2; j <= L+2; j++ {
						steps = append(steps, Step{Kind: "call", Name: m, Args: []Val{Num(float64(i)), Num(float64(j))}})
					}
				}
			}
			// text receivers: positions between the number of characters and the number of bytes
			// (and a little beyond), where a count taken in the wrong unit passes a bounds check
			if rv.T == "text" && m == "取样" {
				nb := len(rv.S())
				for k := len([]rune(rv.S())); k <= nb+2 && k <= 1200; k++ {
					steps = append(steps, Step{Kind: "call", Name: m, Args: []Val{Num(1), Num(float64(k))}}, Step{Kind: "call", Name: m, Args: []Val{Num(float64(k)), Num(float64(k))}}, Step{Kind: "call", Name: m, Args: []Val{Num(2), Num(float64(k))}})
				}
			}
			// key paths of a dictionary receiver: every member called with the receiver's own keys
			// first (a path that starts inside the dictionary and leads to whatever lies there - a
			// number, a text, a list, 空 - and then goes on)
			if rv.T == "dict" {
				for ki, kr := range rv.KeysR {
					k := Text(StringOf(kr))
					steps = append(steps, Step{Kind: "call", Name: m, Args: []Val{k}}, Step{Kind: "call", Name: m, Args: []Val{k, Text("x")}}, Step{Kind: "call", Name: m, Args: []Val{k, k}},
						Step{Kind: "call", Name: m, Args: []Val{k, Num(1)}}, Step{Kind: "call", Name: m, Args: []Val{k, Text("x"), Text("y")}}, Step{Kind: "call", Name: m, Args: []Val{k, Text(""), Text("")}})
					for kj, kr2 := range rv.KeysR {
						if kj != ki {
							steps = append(steps, Step{Kind: "call", Name: m, Args: []Val{k, Text(StringOf(kr2))}}, Step{Kind: "call", Name: m, Args: []Val{k, Text(StringOf(kr2)), k}})
						}
					}
				}
			}
			nr := c.Pick(12, 60)
			for i := 0; i < nr; i++ {
				ar := 2 + rng.Intn(3)
				t := make([]Val, ar)
				for j := range t {
					t[j] = args[rng.Intn(len(args))]
				}
				steps = append(steps, Step{Kind: "call", Name: m, Args: t})
			}
		}
		for _, kind := range []string{"new", "fn"} {
			steps = append(steps, Step{Kind: kind})
			for _, a := range args {
				steps = append(steps, Step{Kind: kind, Args: []Val{a}})
				for _, b := range args {
					steps = append(steps, Step{Kind: kind, Args: []Val{a, b}})
				}
			}
			for i := 0; i < c.Pick(30, 300); i++ {
				ar := 3 + rng.Intn(2)
				t := make([]Val, ar)
				for j := range t {
					t[j] = args[rng.Intn(len(args))]
				}
				steps = append(steps, Step{Kind: kind, Args: t})
			}
		}
		steps = append(steps, Step{Kind: "str"}, Step{Kind: "dup"}, Step{Kind: "json"})
		for _, a := range args {
			steps = append(steps, Step{Kind: "cmp", Args: []Val{a}})
		}
		// shuffle so that mutations interleave with everything else
		rng.Shuffle(len(steps), func(i, j int) { steps[i], steps[j] = steps[j], steps[i] })
		// every chunk starts by copying the receiver and keeps switching between the value and
		// its copy, displaying both: updates of one must never corrupt the other
		inter := make([]Step, 0, len(steps)+len(steps)/4+2)
		for i, st := range steps {
			if i%(chunk-10) == 0 {
				inter = append(inter, Step{Kind: "dup"})
			}
			inter = append(inter, st)
			if i%4 == 3 {
				inter = append(inter, Step{Kind: "twin"})
			}
			if i%8 == 7 {
				inter = append(inter, Step{Kind: "str"})
			}
		}
		steps = inter
		flush()
	}
	// scripted value / copy histories for collections of every small size (slice capacities
	// differ with the size): structural updates alternate between a value and its copy
	for n := 0; n <= 9; n++ {
		keys, vals, items := []string{}, []Val{}, []Val{}
		for k := 0; k < n; k++ {
			keys = append(keys, fmt.Sprintf("键%d", k))
			vals = append(vals, Num(float64(k)))
			items = append(items, Num(float64(k)))
		}
		for variant := 0; variant < 4; variant++ {
			d := []Step{{Kind: "dup"}}
			l := []Step{{Kind: "dup"}}
			tw := Step{Kind: "twin"}
			show := []Step{{Kind: "str"}, {Kind: "json"}, {Kind: "get", Name: "所有索引"}, {Kind: "get", Name: "所有值"}, {Kind: "get", Name: "长度"}}
			lshow := []Step{{Kind: "str"}, {Kind: "json"}, {Kind: "get", Name: "长度"}, {Kind: "get", Name: "首项"}, {Kind: "get", Name: "末项"}}
			w := func(k string) Step { return Step{Kind: "call", Name: "写入", Args: []Val{Text(k), Num(9)}} }
			rm := func(k string) Step { return Step{Kind: "call", Name: "移除", Args: []Val{Text(k)}} }
			push := func(m string) Step { return Step{Kind: "call", Name: m, Args: []Val{Num(7)}} }
			switch variant {
			case 0: // insert into both
				d = append(d, w("新甲"), tw, w("新乙"))
				l = append(l, push("后增"), tw, push("后增"))
			case 1: // remove from both (different positions)
				d = append(d, rm("键0"), tw, rm(fmt.Sprintf("键%d", n-1)))
				l = append(l, Step{Kind: "call", Name: "左移"}, tw, Step{Kind: "call", Name: "右移"})
			case 2: // remove then insert
				d = append(d, rm("键1"), tw, w("新丙"), tw, w("新丁"))
				l = append(l, Step{Kind: "call", Name: "右移"}, tw, push("前增"), tw, push("后增"))
			case 3: // insert, insert, remove on alternating sides
				d = append(d, w("新甲"), w("新乙"), tw, rm("键0"), w("新戊"), tw, rm("新甲"))
				l = append(l, push("后增"), push("后增"), tw, Step{Kind: "call", Name: "左移"}, push("后增"), tw, Step{Kind: "call", Name: "右移"})
			}
			d = append(append(append(append(d, show...), tw), show...), tw)
			l = append(append(append(append(l, lshow...), tw), lshow...), tw)
			d = append(d, rm("键0"), tw, rm("键1"), tw)
			d = append(append(append(d, show...), tw), show...)
			jobs = append(jobs, apiJob{Dict(keys, vals), d}, apiJob{List(items...), l})
		}
	}
	reqs := make([]Req, len(jobs))
	for i, j := range jobs {
		rv := j.recv
		reqs[i] = Req{Op: "api", Recv: &rv, Steps: j.steps, Mode: "nostate"}
	}
	c.runBatches(reqs, 20, func(i int, req *Req, resp *Resp) {
		j := jobs[i]
		if resp.Kind != "ok" {
			c.Count("evaluations", int64(len(j.steps)))
			c.Violation(fmt.Sprintf("api:%s:%s/%d", resp.Kind, valKind(j.recv), i), fmt.Sprintf("API history on receiver %s: worker outcome %s %s %s", j.recv.String(), resp.Kind, clip(resp.Panic, 300), clip(resp.Stderr, 500)), map[string]interface{}{"req": req})
			return
		}
		for si, sr := range resp.Steps {
			c.Eval()
			st := j.steps[si]
			ak := []string{}
			for _, a := range st.Args {
				ak = append(ak, valKind(a))
			}
			c.Nontrivial(fmt.Sprintf("%s|%s|%s|%s|%s", valKind(j.recv), st.Kind, st.Name, strings.Join(ak, ","), sr.Kind))
			c.Count("api_"+sr.Kind, 1)
			if sr.Kind == "panic" || sr.Kind == "nil" || sr.Kind == "budget" {
				as := []string{}
				for _, a := range st.Args {
					as = append(as, a.String())
				}
				// a minimal replay: only this step on a fresh receiver is tried first by the reader; the full history is kept too
				rv := j.recv
				c.Violation(fmt.Sprintf("api:%s:%s.%s.%s(%s)", sr.Kind, valKind(j.recv), st.Kind, st.Name, strings.Join(ak, ",")),
					fmt.Sprintf("%s %q on receiver %s with arguments [%s] -> %s %s", st.Kind, st.Name, j.recv.String(), strings.Join(as, ", "), sr.Kind, clip(sr.Panic, 300)),
					map[string]interface{}{"reqs": []Req{{Op: "api", Recv: &rv, Steps: j.steps[:si+1], Mode: "nostate"}}})
			}
		}
	})

	// ---------------------------------------------------------------- program driver
	names := []string{"甲", "乙", "丙", "丁", "戊"}
	type pjob struct {
		src    string
		inputs map[string]Val
		shape  string
	}
	pjobs := []pjob{}
	pool := append(append([]Val{}, recvs...), args[:len(args)-1]...) // without "self"
	pick := func() Val { return pool[rng.Intn(len(pool))] }
	header := "输入甲、乙、丙、丁、戊\n"
	addProg := func(shape, body string, vals ...Val) {
		in := map[string]Val{}
		for i, n := range names {
			if i < len(vals) {
				in[n] = vals[i]
			} else {
				in[n] = Null()
			}
		}
		pjobs = append(pjobs, pjob{header + body, in, shape})
	}
	ops := []string{"+", "-", "*", "/", "|", "%", "==", "等于", "/=", "不等于", ">", "大于", "<", "小于", ">=", "不小于", "<=", "不大于", "为", "不为", "且", "或"}
	// all operators x all ordered pairs of receivers (exhaustive)
	for _, op := range ops {
		for ai, a := range recvs {
			for bi, b := range recvs {
				if c.Quick() && (ai*7+bi*3)%5 != 0 && !(ai < 24 && bi < 24) {
					continue
				}
				addProg("binop/"+op, "输出 甲 "+op+" 乙\n", a, b)
			}
		}
	}
	memberForms := func(m string, a, b, cc, d Val) {
		addProg("member-get", "输出甲之"+m+"\n", a)
		addProg("member-set", "甲之"+m+" = 乙\n（显示：甲）\n", a, b)
		addProg("call0", "以甲（"+m+"）\n（显示：甲）\n", a)
		addProg("call1", "以甲（"+m+"：乙）\n（显示：甲）\n", a, b)
		addProg("call1-self", "以甲（"+m+"：甲）\n（显示：甲）\n", a)
		addProg("call1-wrapself", "以甲（"+m+"：【甲】）\n（显示：甲）\n（显示：（生成JSON：【甲】））\n", a)
		addProg("call1-wrapself-dict", "以甲（"+m+"：【“k” = 甲】）\n（显示：甲）\n令抄 = 甲\n输出 抄 为 甲\n", a)
		addProg("call2-wrapself", "以甲（"+m+"：乙、【甲，【甲】】）\n（显示：甲）\n", a, b)
		addProg("call2", "以甲（"+m+"：乙、丙）\n（显示：甲）\n", a, b, cc)
		addProg("call2-self", "以甲（"+m+"：甲、乙）\n（显示：甲）\n（显示：甲之文本）\n", a, b)
		addProg("call3", "以甲（"+m+"：乙、丙、丁）\n（显示：甲）\n", a, b, cc, d)
		addProg("chain", "以甲（"+m+"：乙）、（"+m+"：丙），得到果\n（显示：果）\n", a, b, cc)
	}
	for _, m := range members {
		if m == "" || strings.ContainsAny(m, "-/ ") && m != "转小写-英文" && m != "转大写-英文" {
			continue
		}
		n := c.Pick(6, 60)
		for i := 0; i < n; i++ {
			memberForms(m, pick(), pick(), pick(), pick())
		}
		// every receiver once with the natural forms
		for _, rv := range recvs {
			if L, ok := recvLen(rv); ok && L <= 12 {
				for _, pr := range [][2]int{{L, L + 1}, {L + 1, L + 1}, {0, L + 1}, {1, L + 1}, {L + 1, 1}, {-L, L}, {L, -L - 1}} {
					addProg("call2-len", "以甲（"+m+"：乙、丙）\n（显示：甲）\n", rv, Num(float64(pr[0])), Num(float64(pr[1])))
				}
				addProg("call1-len", "以甲（"+m+"：乙）\n（显示：甲）\n", rv, Num(float64(L+1)))
				addProg("index-len", "（显示：甲#乙）\n甲#乙 = 1\n（显示：甲）\n", rv, Num(float64(L+1)))
			}
			addProg("member-get", "输出甲之"+m+"\n", rv)
			addProg("call1", "以甲（"+m+"：乙）\n（显示：甲）\n", rv, pick())
			addProg("call1-wrapself", "以甲（"+m+"：【甲】）\n（显示：甲）\n（显示：（生成JSON：【甲】））\n", rv)
			addProg("call1-wrapself-nested", "令外 = 【“k” = 甲】\n以外#“k”（"+m+"：【外】）\n（显示：外）\n", rv)
		}
	}
	for i := 0; i < c.Pick(3000, 60000); i++ {
		a, b, cc := pick(), pick(), pick()
		switch rng.Intn(14) {
		case 0:
			addProg("index-get", "输出甲#乙\n", a, b)
		case 1:
			addProg("index-get-brace", "输出甲#{乙}\n", a, b)
		case 2:
			addProg("index-set", "甲#乙 = 丙\n（显示：甲）\n", a, b, cc)
		case 3:
			addProg("index-set-self", "甲#乙 = 甲\n（显示：甲）\n（显示：（生成JSON：甲））\n", a, b)
		case 4:
			addProg("new", "令果 =（新建甲：乙、丙）\n（显示：果）\n", a, b, cc)
		case 5:
			addProg("new0", "令果 =（新建甲）\n（显示：果）\n", a)
		case 6:
			addProg("fncall", "（甲：乙、丙），得到果\n（显示：果）\n", a, b, cc)
		case 7:
			addProg("throw", "抛出甲：乙！\n", a, b)
		case 8:
			addProg("throw-catch", "抛出甲：乙！\n\n拦截异常：\n\t（显示：其内容）\n", a, b)
		case 9:
			addProg("iterate", "以键、值遍历甲：\n\t（显示：键、值）\n", a)
		case 10:
			addProg("branch", "如果甲：\n\t（显示：1）\n再如乙：\n\t（显示：2）\n", a, b)
		case 11:
			addProg("while", "每当甲：\n\t结束循环\n", a)
		case 12:
			addProg("format", "输出甲 % 乙\n", a, b)
		case 13:
			addProg("assign-decl", "令果、又 = 甲\n果 = 乙\n（显示：果、又）\n输出【甲，乙，【果 = 丙】】\n", a, b, cc)
		}
	}
	// results of user methods whose body ends in every kind of failure, used in every consumer
	// position: a failure inside a callee must never come back as an absent (nil) result
	failBodies := []string{
		"抛出异常：“x”！", "令坏 = 1 / 0", "（显示：“{” % 【】）", "（显示：“{}{}” % 【1】）", "（显示：“{#.2}” % 【“a”】）", "（显示：3x7）", "（显示：1e+）",
		"（显示：未定义名）", "（显示：【1】#5）", "（显示：“a” * 2）", "以5（缺失）", "（试：1、2、3）", "令 参 = 1", "（显示：（读取文件：“/不存在/的/文件”））",
		"导入《不存在的模块》", "（解析JSON：“{”）", "以“12x”（转换数值）", "输出 “{” % 【】", "输出 3x7", "如果 “{” % 【】：\n\t\t输出 1",
		"每当 “{” % 【】：\n\t\t输出 1", "以项遍历 “{” % 【】：\n\t\t输出 1", "令局 = 【“{” % 【】】", "其缺 = “{” % 【】", "（显示：其）",
	}
	consumers := []string{
		"（显示：（试：甲））", "令果 = （试：甲）\n（显示：果）", "输出 （试：甲）", "输出 （试：甲）之长度", "输出 （试：甲）之文本", "令果 = 【（试：甲），1】\n（显示：果）",
		"令果 = 【“k” = （试：甲）】\n（显示：果）", "输出 （试：甲） + 1", "输出 1 + （试：甲）", "输出 （试：甲） == 空", "输出 （试：甲） 为 （试：甲）", "如果 （试：甲）：\n\t输出 1",
		"每当 （试：甲）：\n\t结束循环", "以项遍历 （试：甲）：\n\t（显示：项）", "输出 乙#{（试：甲）}", "乙#1 = （试：甲）\n（显示：乙）", "以（试：甲）（长度）", "以乙（后增：（试：甲））\n（显示：乙）",
		"（试：甲），得到果\n（显示：果）\n（显示：（生成JSON：【果】））", "（试：（试：甲））", "令果恒为（试：甲）\n（显示：果）", "输出 “{}” % 【（试：甲）】", "抛出异常：（试：甲）！", "（显示：（生成JSON：【“k” = （试：甲）】））",
		"令物 = （新建壳：（试：甲））\n（显示：物之内）\n（显示：物）", "输出 以（试：甲）（文本）、（长度）",
	}
	for _, fb := range failBodies {
		for hi, handler := range []string{"", "\n\t拦截异常：\n\t\t（显示：“h”）", "\n\t拦截异常：\n\t\t输出 “h”"} {
			for _, cons := range consumers {
				src := "定义壳：\n\t其内 = 0\n如何新建壳？\n\t输入值\n\t其内 = 值\n如何试？\n\t输入参\n\t（显示：“in”）\n\t" + fb + "\n\t输出 参" + handler + "\n" + cons + "\n（显示：“after”）\n"
				addProg(fmt.Sprintf("fnresult/h%d", hi), src, Num(1), List(Num(1), Num(2)))
				// the same with the failure in a type method
				msrc := "定义壳：\n\t其内 = 0\n如何新建壳？\n\t输入值\n\t其内 = 值\n定义器：\n\t其数 = 1\n\t如何试？\n\t\t输入参\n\t\t" + strings.ReplaceAll(fb, "\n\t\t", "\n\t\t\t") + "\n\t\t输出 参" + strings.ReplaceAll(handler, "\n\t", "\n\t\t") + "\n令机 = （新建器）\n" + strings.ReplaceAll(cons, "（试：甲）", "以机（试：甲）") + "\n（显示：“after”）\n"
				if !strings.Contains(cons, "（试：（试") && !strings.Contains(cons, "以（试") {
					addProg(fmt.Sprintf("methodresult/h%d", hi), msrc, Num(1), List(Num(1), Num(2)))
				}
			}
		}
	}
	// methods whose body holds no executable statement at all (only nested definitions), or ends
	// without 输出: the call must still yield an element
	for bi, body := range []string{"如何内？\n\t\t输出 1", "定义内型：\n\t\t其甲 = 1", "如何内？\n\t\t输出 1\n\t定义内型：\n\t\t其甲 = 1", "令局 = 1", "如果 假：\n\t\t输出 1", "每当 假：\n\t\t输出 1", "以项遍历【】：\n\t\t输出 1", "注：空"} {
		for _, cons := range consumers {
			src := "定义壳：\n\t其内 = 0\n如何新建壳？\n\t输入值\n\t其内 = 值\n如何试？\n\t输入参\n\t" + body + "\n" + cons + "\n（显示：“after”）\n"
			addProg(fmt.Sprintf("fnresult-nobody/%d", bi), src, Num(1), List(Num(1), Num(2)))
			msrc := "定义壳：\n\t其内 = 0\n如何新建壳？\n\t输入值\n\t其内 = 值\n定义器：\n\t其数 = 1\n\t如何试？\n\t\t输入参\n\t\t" + strings.ReplaceAll(body, "\n\t", "\n\t\t") + "\n令机 = （新建器）\n" + strings.ReplaceAll(cons, "（试：甲）", "以机（试：甲）") + "\n（显示：“after”）\n"
			if !strings.Contains(cons, "（试：（试") && !strings.Contains(cons, "以（试") {
				addProg(fmt.Sprintf("methodresult-nobody/%d", bi), msrc, Num(1), List(Num(1), Num(2)))
			}
		}
	}
	// format strings x argument lists (crash freedom; semantics are C14's)
	tmpls := []string{"{}", "{#}", "{#.2}", "{#+}", "{#.3%}", "{#.2E}", "{", "}", "{{}}", "{#.}", "{#.99999999999999999999}", "{#+.2E%}", "{x}", "a{}b{#}c", "{#E}", "{#%}"}
	for _, t := range tmpls {
		for _, a := range pool {
			addProg("format-tmpl", "输出乙 % 【甲】\n", a, Text(t))
			addProg("format-tmpl2", "输出乙 % 【甲，甲】\n", a, Text(t+t))
		}
	}
	// input-variable texts (ExecVarInputText): statement-free texts, every kind of right-hand
	// side, and failures inside the text
	vtexts := []string{"", "\n", "\n\n\n", "\r\n", " ", "\t", "；", "；；", "注：只有一行注释", "注：「多行\n注释」\n", "/* 块 */", "// 行", "导入《@JSON》", "导入《@样品库》", "导入“不存在”",
		"A = 1\n\n", "\nA = 1", "注：x\nA = 1", "如何X？\n\t输出 1", "定义X：\n\t其a = 1", "输入A", "输出 1", "A", "1", "A = ", "= 1", "A = A", "A = 其", "A = 其B", "A = 此", "A = 3x7", "A = “{” % 【】",
		"A = 1；A = 2", "A = 1；B = A + 1", "真 = 1", "数值 = 1", "A = 数值", "A = 异常", "A = 显示", "A = （显示：1）", "A = （新建异常：“x”）", "A = （新建异常）", "A = 【1，2】#3", "A = 【】#0", "A#1 = 2", "A之B = 3",
		"A = 以1（加：2）", "A = 以“x”（取样：0、1）", "A = 1 / 0", "A = “x” * 2", "抛出异常：“x”！", "如果真：\n\tA = 1", "每当真：\n\tA = 1", "以K遍历【1】：\n\tA = 1"}
	exprs := []string{"1", "-0", "1*10^400", "“”", "“x”", "真", "空", "【】", "【1，【2】】", "【“a” = 1】", "【=】", "数值", "异常", "显示", "取随机数", "（新建异常：“m”）", "以【1，2】（后增：3）", "以“ab”（字符组）", "1 + 2 * 3", "{1 + 2} * 3", "“{}” % 【1】", "【1】#1", "【“a” = 1】#“a”", "以数值（自增：1）"}
	for _, e := range exprs {
		vtexts = append(vtexts, "A = "+e, "A = "+e+"；B = A", "A = "+e+"\nB = 【A，A】", "A = 【"+e+"，"+e+"】", "A = "+e+"之长度", "A = 以"+e+"（文本）")
	}
	vreqs := make([]Req, len(vtexts))
	for i, t := range vtexts {
		vreqs[i] = Req{Op: "varinput", Text: t, ParseBudget: 64*(len(t)+16) + 2000, EvalBudget: 100000, Libs: true}
	}
	c.runBatches(vreqs, 40, func(i int, req *Req, resp *Resp) {
		c.Eval()
		c.Count("varinput_"+resp.Kind, 1)
		c.Nontrivial("varinput|" + vtexts[i] + "|" + resp.Kind)
		switch resp.Kind {
		case "ok", "error":
		default:
			c.Violation("varinput:"+resp.Kind+":"+vtexts[i], fmt.Sprintf("input-variable text %q: outcome %s %s %s", vtexts[i], resp.Kind, clip(resp.Panic, 300), clip(resp.Stderr, 300)), map[string]interface{}{"req": req})
		}
	})
	// whole programs through Execute and through the playground HTTP handler (which renders the
	// result): programs that consist of definitions / comments / imports only, and programs
	// whose result is each kind of value
	whole := []string{"", "\n", "注：只有注释\n", "如何f？\n\t输出 1\n", "定义型：\n\t其甲 = 1\n", "定义型：\n\t其甲 = 1\n如何新建型？\n\t输入值\n\t其甲 = 值\n", "导入《@JSON》\n", "导入《@样品库》\n",
		"如何f？\n\t输出 1\n定义型：\n\t其甲 = 1\n注：完\n", "输出 显示\n", "输出 异常\n", "输出 （新建异常：“x”）\n", "定义型：\n\t其甲 = 1\n输出 型\n", "定义型：\n\t其甲 = 1\n输出（新建型）\n",
		"如何f？\n\t输出 1\n输出 f\n", "导入《@样品库》\n输出 样品\n", "导入《@样品库》\n输出（新建样品）\n", "导入《@样品库》\n输出 取常数\n", "导入《@样品库》\n输出（新建HTTP响应：200、“x”）\n", "输出 空\n", "输出 数值\n",
		"如何f？\n\t如何g？\n\t\t输出 1\n输出（f）\n", "令甲 = 1\n", "1\n", "“a”\n", "【1，2】\n", "如果 假：\n\t输出 1\n", "每当 假：\n\t输出 1\n", "抛出异常：“x”！\n", "输出 1 / 0\n", "如果：\n"}
	// ill-formed programs whose error report has to step over characters of every plane (the report
	// is part of the outcome: a host that renders it must get a text, not a Go panic)
	for plane := rune(0); plane <= 16; plane++ {
		for _, off := range []rune{0x1, 0x100, 0xFFFD} {
			cp := plane<<16 + off
			whole = append(whole, "令甲 = “"+string(cp)+"” 】】\n", "令甲 = 1\n令乙 = 「"+string(cp)+string(cp)+"」 + ）\n")
		}
	}
	for _, cp := range []rune{0xE0001, 0xE0067, 0xE007F, 0xE0100, 0xE01EF, 0x3FFFD, 0x3FFFE, 0x40000, 0xF0000, 0x10FFFD, 0x10FFFF} {
		whole = append(whole, "令甲 = “"+string(cp)+"” 】】\n", "（显示：“"+string(cp)+"”、\n")
	}
	wreqs := []Req{}
	for _, w := range whole {
		r1 := execReq(w)
		r1.Libs = true
		r1.EvalBudget = 20000
		wreqs = append(wreqs, r1, Req{Op: "pg", Src: Runes(w), EvalBudget: 20000}, Req{Op: "pg", Src: Runes(w), Text: "甲 = 1", EvalBudget: 20000})
	}
	// runaway recursion (no logical budget here: the interpreter itself has to stop it with an
	// error before the Go stack is exhausted, which would end the whole process)
	for wi, w := range []string{
		"如何深？\n\t输入层\n\t输出 1 +（深：层 + 1）\n输出（深：1）\n",
		"如何甲？\n\t输出（乙）\n如何乙？\n\t输出（甲）\n输出（甲）\n",
		"定义环：\n\t其数 = 0\n\t如何转？\n\t\t输出 以其（转）\n输出 以（新建环）（转）\n",
		"定义环：\n\t其数 = 0\n如何新建环？\n\t其数 =（新建环）\n输出（新建环）\n",
		"如何深？\n\t输入层\n\t输出 1 +（深：层 + 1）\n\n\t拦截异常：\n\t\t输出 -1\n输出（深：1）\n",
		// the recursive call sits inside nested blocks / a deep operand / nested literals: each
		// call costs much more Go stack than a bare one
		c10NestedRecursion(12, "block"), c10NestedRecursion(40, "block"), c10NestedRecursion(300, "operand"), c10NestedRecursion(30, "literal"), c10NestedRecursion(1500, "literal"),
		// gigantic flat expressions (the chain limit of the parser is 100000 links)
		"输出 " + strings.Repeat("1 + ", 99000) + "1\n", "令甲 = 【1】\n输出 甲" + strings.Repeat("之长度", 1) + " + " + strings.Repeat("1 * ", 99000) + "1\n",
		"令甲 = 真\n输出 " + strings.Repeat("甲 且 ", 99000) + "甲\n",
	} {
		if c.Quick() && wi != 1 && wi != 2 && wi != 5 && wi != 7 && wi != 8 && wi != 10 {
			continue // (each takes seconds: every other one in the quick tier)
		}
		r1 := execReq(w)
		r1.EvalBudget = 0
		wreqs = append(wreqs, r1)
		whole = append(whole, w)
	}
	c.runBatches(wreqs, 10, func(i int, req *Req, resp *Resp) {
		c.Eval()
		c.Count("whole_"+resp.Kind, 1)
		c.Nontrivial(fmt.Sprintf("whole|%s|%s|%s", req.Op, RunesToString(req.Src), resp.Kind))
		switch resp.Kind {
		case "value", "error":
		default:
			c.Violation("whole:"+resp.Kind+":"+req.Op+"|"+RunesToString(req.Src), fmt.Sprintf("program %q through %s -> %s %s %s", RunesToString(req.Src), req.Op, resp.Kind, clip(resp.Panic, 300), clip(resp.Stderr, 300)), map[string]interface{}{"req": req})
		}
	})
	// values nested millions of levels deep, built at run time at linear cost (a method hangs a
	// copied 1500-level template below the innermost list of its argument, thousands of times),
	// then copied, displayed, compared, searched, reversed, thrown …: every helper that walks a
	// value must come back with a value or a Zn error, not with a Go stack overflow
	c10HugeResults(c)
	c10DeepValues(c)
	preqs := make([]Req, len(pjobs))
	for i, p := range pjobs {
		r := execReq(p.src)
		r.Inputs = p.inputs
		r.Libs = true
		r.EvalBudget = 20000
		preqs[i] = r
	}
	c.runBatches(preqs, 200, func(i int, req *Req, resp *Resp) {
		c.Eval()
		p := pjobs[i]
		kinds := []string{}
		for _, n := range names[:3] {
			kinds = append(kinds, valKind(p.inputs[n]))
		}
		body := strings.TrimPrefix(p.src, header)
		c.Nontrivial(fmt.Sprintf("prog|%s|%s|%s|%s", p.shape, body, strings.Join(kinds, ","), resp.Kind))
		c.Count("prog_"+resp.Kind, 1)
		switch resp.Kind {
		case "value", "error":
			if resp.Kind == "value" && resp.Val != nil && strings.HasPrefix(resp.Val.Str, "PANIC:") {
				c.Violation("prog:display-panic:"+p.shape+"|"+body+"|"+strings.Join(kinds, ","), "displaying the result panicked: "+resp.Val.Str+"\n"+p.src, map[string]interface{}{"req": req})
			}
			if i%4001 == 0 {
				c.Sample(map[string]interface{}{"program": body, "inputs": strings.Join(kinds, ","), "outcome": resp.Kind})
			}
		default:
			c.Violation("prog:"+resp.Kind+":"+p.shape+"|"+body+"|"+strings.Join(kinds, ","),
				fmt.Sprintf("program\n%swith inputs 甲=%s 乙=%s 丙=%s -> %s %s %s", p.src, p.inputs["甲"].String(), p.inputs["乙"].String(), p.inputs["丙"].String(), resp.Kind, clip(resp.Panic, 300), clip(resp.Stderr, 400)),
				map[string]interface{}{"req": req})
		}
	})
	// ---------------------------------------------------------------- collections changed while they are traversed
	// what such a loop yields is left open (U2) - but it yields something: a value or a Zn error,
	// never a Go panic. Every mutating method of lists and dictionaries inside a 遍历 / 每当 over the
	// same collection, directly, through a method, through an alias parameter
	{
		type mw struct{ name, src string }
		mws := []mw{}
		listOps := []string{"以甲（右移）", "以甲（左移）", "以甲（后增：9）", "以甲（前增：9）", "以甲（交换：1、2）", "以甲（合并：【7，8】）", "以甲（新增：0、5）", "甲#1 = 0", "甲 = 【】", "甲 = 【1】", "以甲（右移）\n\t以甲（右移）", "令乙 = 以甲（逆序）"}
		for _, n := range []int{1, 2, 3, 6} {
			items := []string{}
			for k := 1; k <= n; k++ {
				items = append(items, fmt.Sprint(k))
			}
			lit := "【" + strings.Join(items, "，") + "】"
			for oi, op := range listOps {
				mws = append(mws,
					mw{fmt.Sprintf("list%d/value-loop/op%d", n, oi), "令甲 = " + lit + "\n以值遍历甲：\n\t" + op + "\n输出 甲\n"},
					mw{fmt.Sprintf("list%d/index-loop/op%d", n, oi), "令甲 = " + lit + "\n以序、值遍历甲：\n\t" + op + "\n\t（显示：序、值）\n输出 甲\n"},
					mw{fmt.Sprintf("list%d/in-method/op%d", n, oi), "令甲 = " + lit + "\n如何改？\n\t" + op + "\n以值遍历甲：\n\t（改）\n输出 甲\n"},
					mw{fmt.Sprintf("list%d/alias-parameter/op%d", n, oi), "如何跑？\n\t输入甲\n\t以值遍历甲：\n\t\t" + strings.ReplaceAll(op, "\n\t", "\n\t\t") + "\n\t输出 甲\n输出（跑：" + lit + "）\n"})
			}
		}
		dictOps := []string{"以典（移除：“a”）", "以典（移除：键）", "以典（写入：“z”、1）", "典#“y” = 2", "典 = 【=】", "以典（移除：“a”）\n\t以典（移除：“b”）\n\t以典（移除：“c”）"}
		for oi, op := range dictOps {
			mws = append(mws,
				mw{fmt.Sprintf("dict/pair-loop/op%d", oi), "令典 = 【“a” = 1，“b” = 2，“c” = 3】\n以键、值遍历典：\n\t" + op + "\n输出 典\n"},
				mw{fmt.Sprintf("dict/value-loop/op%d", oi), "令典 = 【“a” = 1，“b” = 2，“c” = 3】\n令键 = “b”\n以值遍历典：\n\t" + op + "\n输出 典\n"})
		}
		mreqs := make([]Req, len(mws))
		for i, m := range mws {
			mreqs[i] = execReq(m.src)
			mreqs[i].EvalBudget = 200000
		}
		c.runBatches(mreqs, 40, func(i int, req *Req, resp *Resp) {
			c.Eval()
			m := mws[i]
			c.Nontrivial("mutate-while-iterating|" + m.name + "|" + resp.Kind)
			c.Count("traversed_collections_changed_in_the_loop", 1)
			switch resp.Kind {
			case "value", "error", "budget":
			default:
				c.Violation("prog:mutate-while-iterating:"+m.name, fmt.Sprintf("%s: %s %s %s\nprogram:\n%s", m.name, resp.Kind, clip(resp.Panic, 300), clip(resp.Stderr, 300), m.src), map[string]interface{}{"req": req})
			}
		})
	}
	// ---------------------------------------------------------------- the host that serves a program
	// a program served by ZnHttpHandler hands back an HTTP响应 object whose parts have the wrong
	// type, or a status no response can carry: the handler must answer, not panic (in the
	// prefork worker a panic in the handler goroutine ends the process)
	if bin, err := buildTool(c, "./srvharness", "srvharness", false); err != nil {
		c.Inconclusive(err.Error())
	} else if sum, _, _, err := runHarness(c, bin, "badresp", 1, 1, c.Seed, "badresp"); err != nil {
		c.Inconclusive("badresp: " + err.Error())
	} else {
		c.Count("malformed_http_responses_served", int64(sum.Requests))
		for _, sm := range sum.Samples {
			c.Nontrivial("badresp|" + sm)
		}
		if sum.Requests < 15 {
			c.Inconclusive("badresp: too few requests served")
		}
		if sum.Errors > 0 || sum.Crossed > 0 {
			bad := []string{}
			for _, sm := range sum.Samples {
				if strings.Contains(sm, "panicked") {
					bad = append(bad, sm)
				}
			}
			c.Violation("host:http-response", fmt.Sprintf("ZnHttpHandler panicked while answering %d of %d programs that return a malformed HTTP响应 (control well-formed response wrong: %d):\n%s", sum.Errors, sum.Requests, sum.Crossed, clip(strings.Join(bad, "\n"), 1500)), map[string]interface{}{"scenario": "srvharness -mode badresp"})
		}
	}
}

// c10NestedRecursion: a method that calls itself for ever, the call sitting inside n nested
// blocks / operand braces / list literals.
func c10NestedRecursion(n int, how string) string {
	var sb strings.Builder
	sb.WriteString("如何深？\n\t输入层\n")
	switch how {
	case "block":
		for i := 0; i < n; i++ {
			sb.WriteString(strings.Repeat("\t", i+1) + []string{"如果 真：\n", "以项遍历【1】：\n", "每当 真：\n"}[i%3])
		}
		sb.WriteString(strings.Repeat("\t", n+1) + "输出（深：层 + 1）\n")
	case "operand":
		sb.WriteString("\t输出 " + strings.Repeat("{1 + ", n) + "（深：层 + 1）" + strings.Repeat("}", n) + "\n")
	case "literal":
		sb.WriteString("\t输出 " + strings.Repeat("【", n) + "（深：层 + 1）" + strings.Repeat("】", n) + "\n")
	}
	sb.WriteString("输出（深：1）\n")
	return sb.String()
}

// c10DeepProgram: 甲 becomes a list nested (rounds+1)*1500 levels deep (dictionary levels mixed in
// when dict is set); each trigger then runs in a method of its own whose handler turns a Zn error
// into a value, so that one program exercises them all.
func c10DeepProgram(rounds int, dict bool, triggers []string) string {
	const K = 1500
	var tmpl, chain strings.Builder
	for i := 0; i < K; i++ {
		if dict && i%3 == 1 {
			tmpl.WriteString("【k = ")
		} else {
			tmpl.WriteString("【")
		}
	}
	tmpl.WriteString("0" + strings.Repeat("】", K))
	// 节点#1 is the template just stored; K-1 more steps lead to its innermost list
	for i := 1; i < K; i++ {
		// (step i leaves the container of level i-1: a dictionary when (i-1)%3 == 1)
		if dict && (i-1)%3 == 1 {
			chain.WriteString("#“k”")
		} else {
			chain.WriteString("#1")
		}
	}
	var sb strings.Builder
	sb.WriteString("导入《@JSON》\n令模板 = " + tmpl.String() + "\n令甲 = 【0】\n令乙 = 【0】\n\n如何加深？\n\t输入节点、次数\n\t节点#1 = 模板\n\t如果次数 > 0：\n\t\t（加深：节点#1" + chain.String() + "、次数 - 1）\n\n")
	sb.WriteString(fmt.Sprintf("（加深：甲、%d）\n（加深：乙、%d）\n令结果 = 【】\n", rounds, rounds))
	for i, t := range triggers {
		sb.WriteString(fmt.Sprintf("如何试%d？\n\t%s\n\t输出 “值”\n\n\t拦截异常：\n\t\t输出 “错”\n", i, strings.ReplaceAll(t, "\n", "\n\t")))
		sb.WriteString(fmt.Sprintf("以结果（后增：（试%d））\n", i))
	}
	sb.WriteString("输出 结果\n")
	return sb.String()
}

// c10HugeResults: text operations whose *result* would be astronomically large although every
// operand is of ordinary size (a 16 MB text replaced into itself, a long connector between two
// million items, a text repeated by formatting): a value or a Zn error, never a Go panic of the
// allocator and never a dead process
func c10HugeResults(c *Ctx) {
	grow := "令S = “a”\n令I = 0\n每当 I < 24：\n\tS = 以S（拼接：S）\n\tI = I + 1\n令T = 以S（拼接：S）\n"
	progs := map[string]string{
		"replace-every-character-by-a-long-text": grow + "令R = 以S（替换：“a”、T）\n输出 R之长度\n",
		"replace-the-empty-text-by-a-long-text":  grow + "令R = 以S（替换：“”、T）\n输出 R之长度\n",
		"replace-in-a-method-with-a-handler":     grow + "如何试？\n\t输入甲、乙\n\t输出 以甲（替换：“a”、乙）之长度\n\n\t拦截异常：\n\t\t输出 -1\n输出（试：S、T）\n",
		"join-a-long-list-with-a-long-connector": grow + "令列 = 【“x”】\n令J = 0\n每当 J < 21：\n\t以列（合并：列）\n\tJ = J + 1\n令R = 以列（拼接：T）\n输出 R之长度\n",
		"split-a-long-text-by-the-empty-text":    "令S = “a”\n令I = 0\n每当 I < 22：\n\tS = 以S（拼接：S）\n\tI = I + 1\n输出 以S（分隔：“”）之长度\n",
	}
	names := SortedKeys(progs)
	reqs := []Req{}
	for _, n := range names {
		r := execReq(progs[n])
		r.EvalBudget = 0
		reqs = append(reqs, r)
	}
	c.runBatches(reqs, 1, func(i int, req *Req, resp *Resp) {
		c.Eval()
		c.Nontrivial("huge|" + names[i] + "|" + resp.Kind)
		c.Count("huge_result_programs", 1)
		if resp.Kind == "timeout" {
			c.Count("huge_result_not_judged_watchdog", 1)
			return
		}
		if resp.Kind != "value" && resp.Kind != "error" {
			c.Violation("huge:"+names[i], fmt.Sprintf("%s: the host does not survive an operation on ordinary-sized texts whose result would be huge: outcome %s %s\nprogram:\n%s", names[i], resp.Kind, clip(resp.Panic+resp.Stderr, 400), progs[names[i]]), map[string]interface{}{"req": req})
		}
	})
}

func c10DeepValues(c *Ctx) {
	triggers := []string{
		"令丙 = 甲", "令丙 = 【1、甲、2】", "令丙 = 【a = 甲】", "令丙 = 【】\n以丙（后增：甲）", "令丙 = 甲之逆序", "令丙 = 【a = 甲】之所有值",
		"令同 = 甲 为 乙", "令同 = 甲 不为 乙", "令同 = 甲 == 乙", "令同 = 以【乙】（包含：甲）", "令同 = 以【乙】（寻找：甲）",
		"令长 = 甲之文本之长度", "令长 = {“{}” % 【甲】}之长度", "令长 = 【a = 甲】之文本之长度", "抛出异常：甲！",
		"令文 =（生成JSON：【a = 甲】）",
	}
	type variant struct {
		rounds int
		dict   bool
	}
	vs := []variant{{2200, false}}
	if !c.Quick() {
		vs = append(vs, variant{2200, true}, variant{4500, false})
	}
	// (a control with few rounds first: the program itself is a valid one and every trigger
	// yields a value)
	ctl := execReq(c10DeepProgram(2, false, triggers))
	ctl.Libs = true
	ctl.EvalBudget = 0
	resp := c.Pool.DoT(ctl, 5*time.Minute)
	c.Eval()
	if resp.Kind != "value" || resp.Val == nil {
		msg := ""
		if resp.Err != nil {
			msg = fmt.Sprintf("%d %s", resp.Err.Code, clip(resp.Err.Text, 400))
		}
		c.Inconclusive("deep-values control program did not yield a value: " + resp.Kind + " " + msg + " " + clip(resp.Stderr, 300))
		return
	}
	control := resp.Val.String()
	c.Nontrivial("deep|control|" + control)
	c.Sample(map[string]string{"deep-values": "control (3 rounds)", "outcome": control})
	for _, v := range vs {
		// one program per trigger group in the thorough tier would cost a build each: one program
		// runs them all; which trigger was running when a process died is in its stderr
		r := execReq(c10DeepProgram(v.rounds, v.dict, triggers))
		r.Libs = true
		r.EvalBudget = 0
		resp := c.Pool.DoT(r, 20*time.Minute)
		c.Eval()
		c.Count("deep_value_programs", 1)
		c.Count("deep_value_levels", int64((v.rounds+1)*1500))
		name := fmt.Sprintf("rounds=%d,dict=%v", v.rounds, v.dict)
		switch resp.Kind {
		case "value", "error":
			got := resp.Kind
			if resp.Val != nil {
				got = resp.Val.String()
			}
			c.Nontrivial("deep|" + name + "|" + got)
			// copying, displaying, reversing, formatting and throwing have no bound of their own:
			// with the deep value they must end as they do with the shallow one (comparisons
			// and JSON generation may refuse the depth with an error instead)
			if resp.Kind == "value" && resp.Val != nil && len(resp.Val.Items) == len(triggers) && len(strings.Split(control, ",")) == len(triggers) {
				ctl := strings.Split(control, ",")
				dp := strings.Split(got, ",")
				for ti, t := range triggers {
					if strings.Contains(t, "令同") || strings.Contains(t, "JSON") {
						continue
					}
					if strings.Contains(ctl[ti], "值") != strings.Contains(dp[ti], "值") {
						c.Violation("deep-outcome:"+name+":"+t, fmt.Sprintf("with a list nested %d levels deep the statement %q ends differently (%s) than with one nested 4500 levels deep (%s)", (v.rounds+1)*1500, t, dp[ti], ctl[ti]), map[string]interface{}{"req": r})
					}
				}
			} else {
				detail := ""
				if resp.Err != nil {
					detail = fmt.Sprintf(" [%d] %s", resp.Err.Code, clip(resp.Err.Text, 600))
				}
				c.Violation("deep-shape:"+name, "the deep-values program ("+name+") did not return its list of outcomes: "+clip(got, 300)+detail, map[string]interface{}{"req": r})
			}
			c.Sample(map[string]string{"deep-values": name, "outcome": got})
		case "timeout":
			c.Inconclusive("deep-values program " + name + " did not finish in 20 minutes")
		default:
			c.Violation("deep:"+name, fmt.Sprintf("a list nested %d levels deep, built at run time by a method that hangs a 1500-level template below the innermost list of its argument %d times, then copied / displayed / compared / searched / thrown: the host process ended (%s) instead of yielding a value or a Zn error\n%s\n%s", (v.rounds+1)*1500, v.rounds+1, resp.Kind, clip(resp.Panic, 300), clip(resp.Stderr, 600)), map[string]interface{}{"req": r})
		}
	}
}
