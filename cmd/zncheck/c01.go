package main

import (
	"fmt"
	"math"
	"math/rand"
	"os"
	"strings"

	. "verif/internal/proto"
	zr "verif/internal/znref"
)

func init() { register("C01", "exploration", checkC01) }

var c01Ops = []string{"+", "-", "*", "/", "|", "%", "==", "/=", ">", "<", ">=", "<=", "为", "不为", "且", "或"}

// probe method: displays its first argument, yields the second
var probeDef = &zr.FuncDef{Name: "探", Params: []string{"号", "值"}, Body: []zr.Stmt{
	zr.Show(zr.N("号")),
	zr.Return{E: zr.N("值")},
}}

type c01Case struct {
	prog   *zr.Program
	inputs map[string]Val
	shape  string
}

func c01BoundaryPool() []Val {
	return []Val{
		Num(0), Num(math.Copysign(0, -1)), Num(1), Num(-1), Num(0.5), Num(-0.5), Num(7), Num(-7), Num(2.5), Num(-2.5), Num(3), Num(-3),
		Num(9007199254740992), Num(9007199254740993), Num(-9007199254740991), Num(1.7976931348623157e308), Num(-1.7976931348623157e308),
		Num(5e-324), Num(-5e-324), Num(2.2250738585072014e-308), Num(1e-7), Num(123456789.125), Num(0.1), Num(0.2), Num(0.3),
		Num(math.Inf(1)), Num(math.Inf(-1)), Num(math.NaN()),
		Bool(true), Bool(false), Null(), Text(""), Text("a"), Text("1"), Text("真"), Text("甲乙"),
		List(), List(Num(1), Num(2)), List(Num(1), Text("a")), Dict(nil, nil), Dict([]string{"甲"}, []Val{Num(1)}),
		Dict([]string{"甲", "乙", "丙"}, []Val{Num(1), Num(2), Num(3)}), Dict([]string{"甲", "乙", "丙"}, []Val{Num(1), Num(9), Num(8)}), Dict([]string{"丙", "乙", "甲"}, []Val{Num(3), Num(2), Num(1)}),
	}
}

// natural parse of a flat operand/operator sequence by the manual's precedence table
func naturalTree(operands []zr.Expr, ops []string) (zr.Expr, bool) {
	precOf := func(op string) int {
		switch op {
		case "或":
			return 1
		case "且":
			return 2
		case "==", "/=", ">", "<", ">=", "<=", "为", "不为":
			return 3
		case "+", "-":
			return 5
		}
		return 6
	}
	var parse func(lo, hi int) (zr.Expr, bool) // operands lo..hi inclusive
	parse = func(lo, hi int) (zr.Expr, bool) {
		if lo == hi {
			return operands[lo], true
		}
		// find the lowest-precedence operator; rightmost among equals (left assoc)
		best, bi := 99, -1
		cnt := 0
		for i := lo; i < hi; i++ {
			p := precOf(ops[i])
			if p < best {
				best, bi, cnt = p, i, 1
			} else if p == best {
				bi = i
				cnt++
			}
		}
		// (comparisons share one precedence level and group left to right like the others)
		_ = cnt
		l, ok := parse(lo, bi)
		if !ok {
			return nil, false
		}
		r, ok := parse(bi+1, hi)
		if !ok {
			return nil, false
		}
		return zr.Bin{Op: ops[bi], L: l, R: r}, true
	}
	return parse(0, len(operands)-1)
}

type c01Gen struct {
	r       *rand.Rand
	numVars []string
	boolVars []string
	textVars []string
	probeN  int
	maxProbes int
}

func (g *c01Gen) probe(v zr.Expr) zr.Expr {
	if g.probeN >= g.maxProbes {
		return v
	}
	g.probeN++
	return zr.CallE("探", intLit(g.probeN), v)
}

func (g *c01Gen) leaf(want string) zr.Expr {
	r := g.r
	switch want {
	case "num":
		switch {
		case r.Intn(3) == 0 && len(g.numVars) > 0:
			return zr.N(g.numVars[r.Intn(len(g.numVars))])
		case r.Intn(3) == 0:
			return intLit(r.Intn(10))
		default:
			return numLit(r)
		}
	case "bool":
		if r.Intn(2) == 0 && len(g.boolVars) > 0 {
			return zr.N(g.boolVars[r.Intn(len(g.boolVars))])
		}
		return zr.N([]string{"真", "假"}[r.Intn(2)])
	case "text":
		if r.Intn(2) == 0 && len(g.textVars) > 0 {
			return zr.N(g.textVars[r.Intn(len(g.textVars))])
		}
		return zr.S([]string{"", "a", "文", "1", "甲乙丙"}[r.Intn(5)])
	}
	return zr.N("空")
}

func (g *c01Gen) expr(depth int, want string) zr.Expr {
	r := g.r
	if r.Intn(40) == 0 { // ill-typed injection
		want = []string{"num", "bool", "text", "null"}[r.Intn(4)]
	}
	if depth <= 0 || r.Intn(6) == 0 {
		l := g.leaf(want)
		if r.Intn(5) == 0 {
			return g.probe(l)
		}
		return l
	}
	var e zr.Expr
	switch want {
	case "num":
		op := []string{"+", "-", "*", "/", "|", "%"}[r.Intn(6)]
		e = zr.Bin{Op: op, L: g.expr(depth-1, "num"), R: g.expr(depth-1, "num")}
	case "bool":
		switch r.Intn(4) {
		case 0:
			op := []string{">", "<", ">=", "<="}[r.Intn(4)]
			e = zr.Bin{Op: op, L: g.expr(depth-1, "num"), R: g.expr(depth-1, "num")}
		case 1:
			op := []string{"==", "/=", "为", "不为"}[r.Intn(4)]
			t := []string{"num", "num", "bool", "text"}[r.Intn(4)]
			t2 := t
			if r.Intn(5) == 0 {
				t2 = []string{"num", "bool", "text", "null"}[r.Intn(4)]
			}
			e = zr.Bin{Op: op, L: g.expr(depth-1, t), R: g.expr(depth-1, t2)}
		default:
			op := []string{"且", "或"}[r.Intn(2)]
			e = zr.Bin{Op: op, L: g.expr(depth-1, "bool"), R: g.expr(depth-1, "bool")}
		}
	default:
		return g.leaf(want)
	}
	if r.Intn(8) == 0 {
		e = zr.Group{E: e}
	}
	if r.Intn(10) == 0 {
		e = g.probe(e)
	}
	return e
}

func exprShape(e zr.Expr) string {
	switch v := e.(type) {
	case zr.Bin:
		return "(" + exprShape(v.L) + v.Op + exprShape(v.R) + ")"
	case zr.Group:
		return "{" + exprShape(v.E) + "}"
	case zr.Num:
		return "n"
	case zr.Str:
		return "s"
	case zr.Name:
		return "v"
	case zr.Call:
		return "p"
	}
	return "?"
}

func (c *Ctx) runRefCases(kind string, progs []*zr.Program, inputs []map[string]Val, shapes []string, layout func(i int) zr.Layout, extra func(i int, src string, ref zr.Result, resp *Resp)) {
	if note := " Second entry points: every 4th reference case without inputs or program-level 输出 is also run as the body of a module imported by a one-line main program (same display, same failure, the importer runs on), every 6th is also posted to the playground handler (same display, status 200 + the value's display form / status 500 as Execute yields a value / an error)."; !strings.Contains(c.rule, "Second entry points") {
		c.rule += note
	}
	reqs := make([]Req, len(progs))
	refs := make([]zr.Result, len(progs))
	srcs := make([]string, len(progs))
	for i, p := range progs {
		l := zr.Layout{}
		if layout != nil {
			l = layout(i)
		}
		srcs[i] = zr.Render(p, l)
		ip := zr.NewInterp()
		ip.Inputs = map[string]zr.Value{}
		var in map[string]Val
		if inputs != nil {
			in = inputs[i]
		}
		for k, v := range in {
			ip.Inputs[k] = valToRef(v)
		}
		refs[i] = ip.Run(p)
		r := execReq(srcs[i])
		r.Inputs = in
		r.EvalBudget = 50*refs[i].Steps + 2000
		reqs[i] = r
	}
	type directRun struct {
		kind, str, display string
		null               bool
	}
	direct := make([]directRun, len(progs))
	c.runBatches(reqs, 250, func(i int, req *Req, resp *Resp) {
		c.Eval()
		direct[i] = directRun{kind: resp.Kind, display: resp.Display}
		if resp.Val != nil {
			direct[i].str = resp.Val.Str
			direct[i].null = resp.Val.T == "null"
		}
		status, diff := compareOutcome(refs[i], resp)
		c.Count(kind+"_"+status, 1)
		shape := ""
		if shapes != nil {
			shape = shapes[i]
		}
		if f := os.Getenv("VERIF_DUMP_SHAPE"); f != "" && strings.Contains(shape, f) { // developer aid
			fmt.Printf("---- %s [%s] %s\n%sreference: %s display=%q\nobserved: %s display=%q\n", shape, status, diff, srcs[i], outcomeBrief(refs[i]), refs[i].Display, resp.Outcome(), resp.Display)
		}
		if status == "skip" {
			c.Count("skipped_unspecified", 1)
			return
		}
		oc := "value"
		if refs[i].Err != nil {
			oc = "error"
		}
		c.Nontrivial(kind + "|" + shape + "|" + oc)
		c.Count(kind+"_expected_"+oc, 1)
		c.Count("display_lines_compared", int64(len(refs[i].Display)))
		c.Count("reference_steps", int64(refs[i].Steps))
		if status == "diff" {
			inDesc := ""
			for _, k := range SortedKeys(req.Inputs) {
				inDesc += fmt.Sprintf(" %s=%s", k, req.Inputs[k].String())
			}
			c.Violation(kind+":"+shapeClass(shape)+":"+srcs[i]+inDesc, diff+"\nprogram:\n"+srcs[i]+"inputs:"+inDesc+"\nreference: "+outcomeBrief(refs[i])+fmt.Sprintf(" display=%q", refs[i].Display),
				map[string]interface{}{"req": req, "expected": outcomeBrief(refs[i]) + fmt.Sprintf(" display=%q", refs[i].Display)})
		} else if i%1500 == 0 {
			c.Sample(map[string]interface{}{"kind": kind, "program": srcs[i], "expected": outcomeBrief(refs[i]), "display": refs[i].Display, "observed": resp.Kind})
		}
		if extra != nil {
			extra(i, srcs[i], refs[i], resp)
		} else {
			// every successful run ends with nothing left behind in the VM (call stack, scope
			// depths, evaluation depth): hooks H3 / H3b / H4
			quiescent(c, kind, shape, srcs[i], resp)
		}
	})
	if kind != "expr" {
		c.runAsModules(kind, progs, srcs, refs, shapes, 4)
	}
	// "the other host": the same source posted to the playground handler (the way cmd/zinc-playground
	// and the prefork workers run programs) must do what Execute did with it: same display, status
	// 200 and the value's display form as the body where Execute yielded a value, status 500 where
	// it ended with an error
	{
		idx := []int{}
		preqs := []Req{}
		for i, p := range progs {
			if i%6 != 2 || len(p.Inputs) > 0 || len(p.Imports) > 0 || (direct[i].kind != "value" && direct[i].kind != "error") {
				continue
			}
			if _, unspec := refs[i].Err.(*zr.Unspec); unspec {
				continue
			}
			idx = append(idx, i)
			preqs = append(preqs, Req{Op: "pg", Src: Runes(srcs[i]), EvalBudget: 50*refs[i].Steps + 4000})
		}
		c.runBatches(preqs, 250, func(k int, req *Req, resp *Resp) {
			c.Eval()
			i := idx[k]
			d := direct[i]
			c.Count(kind+"_through_playground", 1)
			code := 0
			if len(resp.Ints) > 0 {
				code = resp.Ints[0]
			}
			body := ""
			if resp.Val != nil {
				body = resp.Val.S()
			}
			problem := ""
			switch {
			case resp.Kind != "value":
				problem = "the handler did not answer: " + resp.Kind + " " + clip(resp.Panic+resp.Stderr, 300)
			case resp.Display != d.display:
				problem = fmt.Sprintf("display %q, through Execute %q", clip(resp.Display, 300), clip(d.display, 300))
			case d.kind == "value" && code != 200:
				problem = fmt.Sprintf("status %d (%s) although Execute yields a value", code, clip(body, 200))
			case d.kind == "error" && code == 200:
				problem = fmt.Sprintf("status 200 (%s) although Execute ends with an error", clip(body, 200))
			case d.kind == "value" && !d.null && body != d.str:
				problem = fmt.Sprintf("body %q, but the value Execute yields displays as %q", clip(body, 200), clip(d.str, 200))
			case d.kind == "value" && d.null && body != "":
				problem = fmt.Sprintf("body %q for a program that yields 空", clip(body, 200))
			}
			c.Nontrivial(kind + "-playground|" + fmt.Sprint(code) + "|" + shapeClass(shapesAt(shapes, i)))
			if problem != "" {
				c.Violation(kind+"-playground:"+shapeClass(shapesAt(shapes, i))+":"+srcs[i], "posted to the playground handler: "+problem+"\nprogram:\n"+srcs[i], map[string]interface{}{"req": req})
			}
		})
	}
}

func shapesAt(shapes []string, i int) string {
	if shapes == nil {
		return ""
	}
	return shapes[i]
}

// topLevelReturn: does the program body (outside method / type definitions) hold a 输出 anywhere?
func topLevelReturn(stmts []zr.Stmt) bool {
	for _, st := range stmts {
		switch x := st.(type) {
		case zr.Return:
			return true
		case zr.If:
			if topLevelReturn(x.Then) || topLevelReturn(x.Else) {
				return true
			}
			for _, e := range x.Elifs {
				if topLevelReturn(e.Body) {
					return true
				}
			}
		case zr.While:
			if topLevelReturn(x.Body) {
				return true
			}
		case zr.Iter:
			if topLevelReturn(x.Body) {
				return true
			}
		case zr.Verbatim:
			return true // opaque to this walker: not used for the module variant
		}
	}
	return false
}

// runAsModules: "the second entry point". The same generated programs, each as the body of a module
// that a one-line main program imports: a module body is a body like any other, so it must display
// what the reference says the program displays, fail where the program fails, and let the importer
// run on (one more display line) where it does not. Programs with inputs, imports of their own or a
// 输出 at program level (what that means in a module body is not stated anywhere) are left out.
func (c *Ctx) runAsModules(kind string, progs []*zr.Program, srcs []string, refs []zr.Result, shapes []string, every int) {
	idx := []int{}
	reqs := []Req{}
	for i, p := range progs {
		if i%every != 1 || len(p.Inputs) > 0 || len(p.Imports) > 0 || topLevelReturn(p.Body) {
			continue
		}
		if _, unspec := refs[i].Err.(*zr.Unspec); unspec {
			continue
		}
		hasRet := false
		for _, ct := range p.Catches {
			hasRet = hasRet || topLevelReturn(ct.Body)
		}
		if hasRet {
			continue
		}
		idx = append(idx, i)
		reqs = append(reqs, Req{Op: "exec", Main: "main.zn", EvalBudget: 50*refs[i].Steps + 4000, ParseBudget: 64 * (len(srcs[i]) + 200),
			Files: []File{{Path: "main.zn", Data: widen([]byte("导入“模”\n（显示：“主完”）\n"))}, {Path: "模.zn", Data: widen([]byte(srcs[i]))}}})
	}
	c.runBatches(reqs, 250, func(k int, req *Req, resp *Resp) {
		c.Eval()
		i := idx[k]
		ref := refs[i]
		ref.ValueUnspec = true
		if ref.Err == nil {
			ref.Display = append(append([]string{}, ref.Display...), "主完")
		}
		status, diff := compareOutcome(ref, resp)
		c.Count(kind+"_as_module_"+status, 1)
		shape := ""
		if shapes != nil {
			shape = shapes[i]
		}
		if status == "skip" {
			return
		}
		c.Nontrivial(kind + "-as-module|" + shape + "|" + resp.Kind)
		if status == "diff" {
			c.Violation(kind+"-as-module:"+shapeClass(shape)+":"+srcs[i], "as the body of an imported module (main program: 导入“模” / （显示：“主完”）): "+diff+"\nmodule 模.zn:\n"+srcs[i]+"\nreference: "+outcomeBrief(refs[i])+fmt.Sprintf(" display=%q", ref.Display),
				map[string]interface{}{"req": req, "expected": fmt.Sprintf("display=%q", ref.Display)})
		}
	})
}

func shapeClass(shape string) string {
	if len(shape) > 24 {
		return shape[:24]
	}
	return shape
}

func checkC01(c *Ctx) {
	c.rule = "programs 输出‹expr›: (a0) every binary operator with the same operand on both sides (the variable itself, a copy, the same list item; collections holding a NaN among the values); (a) every binary operator x every ordered pair of a 44-value boundary pool passed as input variables; (b) every unbraced triple a op1 b op2 c over the 16 operators x operand classes, rendered without braces from its natural (manual precedence) tree; (e) operands that update a variable in place (自增 / 自减) next to operands that read it; (d) 为 / == / 不为 / /= between container literals (lists and dictionaries nested to depth 2 over 空, numbers, texts, booleans) and a variant with one leaf changed, an entry dropped / added, keys reordered or renamed; (c) random trees (literals in every documented numeric spelling with math/big values, variables, probes that display their evaluation order), braces only where the manual's precedence requires them. Oracle: independent reference evaluator (IEEE doubles, floor division, a-floor(a/b)*b, structural equality, short circuit). distinct_nontrivial = distinct (family, expression shape incl. operators, expected outcome kind) among cases the reference specifies"
	c.assumptions = []string{"reference evaluator znref implements the manual/property semantics; cases it marks unspecified are skipped and counted", "doubles compared bit-wise (NaN==NaN, +0 != -0)"}
	rng := c.Rand("c01")
	var progs []*zr.Program
	var inputs []map[string]Val
	var shapes []string
	add := func(p *zr.Program, in map[string]Val, shape string) {
		progs = append(progs, p)
		inputs = append(inputs, in)
		shapes = append(shapes, shape)
	}

	// (a0) the same operand on both sides: every operator x every pool value (and collections that
	// hold a NaN / ±0 / nested collections) as `甲 op 甲`, `甲 op {甲}` and through a copy `乙`:
	// equality is structural (IEEE for numbers: a NaN equals nothing, not even itself), whichever
	// elements happen to be compared
	{
		nan := Num(math.NaN())
		selfPool := append(c01BoundaryPool(), List(nan), List(Num(1), List(nan)), Dict([]string{"甲"}, []Val{nan}), Dict([]string{"a", "b"}, []Val{Num(1), List(Num(2), nan)}),
			List(Num(0), Num(math.Copysign(0, -1))), List(Num(math.Inf(1))), List(List(), Dict(nil, nil)))
		for _, op := range c01Ops {
			for _, a := range selfPool {
				for form := 0; form < 3; form++ {
					var e zr.Expr
					body := []zr.Stmt{}
					switch form {
					case 0:
						e = zr.Bin{Op: op, L: zr.N("甲"), R: zr.N("甲")}
					case 1:
						body = append(body, zr.LetS("乙", zr.N("甲")))
						e = zr.Bin{Op: op, L: zr.N("甲"), R: zr.N("乙")}
					default:
						body = append(body, zr.LetS("表", zr.ListLit{Items: []zr.Expr{zr.N("甲")}}))
						e = zr.Bin{Op: op, L: zr.Index{Recv: zr.N("表"), Idx: intLit(1)}, R: zr.Index{Recv: zr.N("表"), Idx: intLit(1)}}
					}
					p := &zr.Program{Inputs: []string{"甲"}, Body: append(body, zr.Return{E: e})}
					add(p, map[string]Val{"甲": a}, fmt.Sprintf("self/%s/%s/%d", op, a.T, form))
				}
			}
		}
	}
	// (a) operator x boundary pairs
	pool := c01BoundaryPool()
	for _, op := range c01Ops {
		for ai, a := range pool {
			for bi, b := range pool {
				if c.Quick() && (ai+2*bi)%3 != 0 && ai < 28 && bi < 28 {
					continue
				}
				reps := 1
				if a.T == "dict" && b.T == "dict" {
					reps = 8 // hash-map iteration order inside the interpreter varies per evaluation
				}
				for k := 0; k < reps; k++ {
					p := &zr.Program{Inputs: []string{"甲", "乙"}, Body: []zr.Stmt{zr.Return{E: zr.Bin{Op: op, L: zr.N("甲"), R: zr.N("乙")}}}}
					add(p, map[string]Val{"甲": a, "乙": b}, "pair/"+op+"/"+a.T+"/"+b.T)
				}
			}
		}
	}
	// (b) unbraced triples
	opnds := []zr.Expr{intLit(3), zr.Num{Lit: "-7", V: -7}, zr.Num{Lit: "2.5", V: 2.5}, intLit(0), zr.N("真"), zr.N("假"), zr.S("a")}
	for _, o1 := range c01Ops {
		for _, o2 := range c01Ops {
			for i := 0; i < c.Pick(6, 60); i++ {
				ops := []zr.Expr{opnds[rng.Intn(len(opnds))], opnds[rng.Intn(len(opnds))], opnds[rng.Intn(len(opnds))]}
				// bias towards well-typed triples
				if rng.Intn(3) > 0 {
					for k := range ops {
						ops[k] = opnds[rng.Intn(4)]
					}
				}
				t, ok := naturalTree(ops, []string{o1, o2})
				if !ok {
					continue
				}
				add(&zr.Program{Body: []zr.Stmt{zr.Return{E: t}}}, nil, "triple/"+o1+"/"+o2)
			}
		}
	}
	// 4- and 5-operand flat sequences
	for i := 0; i < c.Pick(1500, 60000); i++ {
		n := 4 + rng.Intn(3)
		ops := make([]string, n-1)
		es := make([]zr.Expr, n)
		for k := range es {
			es[k] = opnds[rng.Intn(4)]
			if rng.Intn(6) == 0 {
				es[k] = opnds[rng.Intn(len(opnds))]
			}
		}
		for k := range ops {
			ops[k] = c01Ops[rng.Intn(len(c01Ops))]
		}
		t, ok := naturalTree(es, ops)
		if !ok {
			continue
		}
		add(&zr.Program{Body: []zr.Stmt{zr.Return{E: t}}}, nil, "flat/"+strings.Join(ops, ""))
	}
	// (c) random trees
	for i := 0; i < c.Pick(5000, 400000); i++ {
		g := &c01Gen{r: rng, maxProbes: 6}
		p := &zr.Program{}
		in := map[string]Val{}
		body := []zr.Stmt{probeDef}
		// variables
		nv := rng.Intn(4)
		for k := 0; k < nv; k++ {
			name := genName(rng, "数"+string(nameGlyphs[k]))
			switch rng.Intn(3) {
			case 0:
				body = append(body, zr.LetS(name, numLit(rng)))
			case 1:
				body = append(body, zr.ConstS(name, numLit(rng)))
			case 2:
				p.Inputs = append(p.Inputs, name)
				v := pool[rng.Intn(28)]
				in[name] = v
			}
			g.numVars = append(g.numVars, name)
		}
		if rng.Intn(2) == 0 {
			name := genName(rng, "真假")
			body = append(body, zr.LetS(name, zr.N([]string{"真", "假"}[rng.Intn(2)])))
			g.boolVars = append(g.boolVars, name)
		}
		if rng.Intn(3) == 0 {
			name := genName(rng, "文")
			body = append(body, zr.LetS(name, zr.S([]string{"", "a", "文", "1"}[rng.Intn(4)])))
			g.textVars = append(g.textVars, name)
		}
		depth := 1 + rng.Intn(c.Pick(6, 10))
		e := g.expr(depth, []string{"num", "num", "bool"}[rng.Intn(3)])
		body = append(body, zr.Return{E: e})
		p.Body = body
		add(p, in, "tree/"+exprShape(e))
	}
	// (d) structural equality of container literals written in the program (so that 空 and other
	// shared elements are the very same element on both sides): B is A with one leaf changed,
	// an entry dropped / added, keys reordered, or nothing changed
	for i := 0; i < c.Pick(800, 30000); i++ {
		a := c01Container(rng, 2)
		b, how := c01Mutate(rng, a)
		op := []string{"为", "==", "不为", "/="}[rng.Intn(4)]
		e := zr.Bin{Op: op, L: a, R: b}
		body := []zr.Stmt{zr.Return{E: e}}
		if rng.Intn(3) == 0 { // through variables (copies)
			body = []zr.Stmt{zr.LetS("甲", a), zr.LetS("乙", b), zr.Return{E: zr.Bin{Op: op, L: zr.N("甲"), R: zr.N("乙")}}}
		}
		add(&zr.Program{Body: body}, nil, "containers/"+op+"/"+how+"/"+exprShape(a))
	}
	// (e) an operand that changes a variable in place while the other operand reads the same
	// variable: operands are evaluated once, left to right, and an operand's value is the value
	// at the time it was evaluated
	for _, op := range []string{"+", "-", "*", "/", "|", "%", "==", ">", "<=", "为"} {
		for _, m := range []string{"自增", "自减"} {
			for k := 1; k <= 3; k++ {
				inc := zr.MCall{Recv: zr.N("数"), Chain: []zr.CallPart{{Fn: m, Args: []zr.Expr{intLit(k)}}}}
				for vi, e := range []zr.Expr{
					zr.Bin{Op: op, L: zr.N("数"), R: inc},
					zr.Bin{Op: op, L: inc, R: zr.N("数")},
					zr.Bin{Op: op, L: zr.Bin{Op: "+", L: zr.N("数"), R: intLit(0)}, R: inc},
					zr.Bin{Op: op, L: zr.N("数"), R: zr.Bin{Op: "+", L: inc, R: zr.N("数")}},
					zr.Bin{Op: op, L: zr.Bin{Op: "*", L: zr.N("数"), R: zr.N("数")}, R: zr.Bin{Op: "-", L: inc, R: inc}},
				} {
					add(&zr.Program{Body: []zr.Stmt{zr.LetS("数", intLit(5)), zr.Show(zr.S("r"), e), zr.Return{E: zr.N("数")}}}, nil, fmt.Sprintf("inplace/%s/%s/%d", op, m, vi))
				}
			}
		}
	}
	c.runRefCases("expr", progs, inputs, shapes, nil, nil)
	// (f) a text operand is the text its variable was given: reading it as a number (转换数值, in a
	// statement before or in an operand of the same expression) does not change what it compares
	// equal to (hand-written, expected values written down)
	// literals written with hundreds of digits (their value brought back into range by the exponent)
	// in every documented exponent spelling, as operands: the value is the decimal's nearest double
	{
		hc := []handCase{}
		for _, n := range []int{300, 699, 700, 701, 750, 1200} {
			z := strings.Repeat("0", n)
			for _, sp := range []string{"E", "e", "*10^", "*^"} {
				hc = append(hc,
					handCase{fmt.Sprintf("long-literal/int/%d/%s", n, sp), "输出 1" + z + sp + fmt.Sprintf("-%d", n) + " * 6 + 1\n", "num(7)"},
					handCase{fmt.Sprintf("long-literal/frac/%d/%s", n, sp), "输出 0." + z + "4" + sp + fmt.Sprintf("+%d", n+1) + " == 4\n", "bool(true)"},
					handCase{fmt.Sprintf("long-literal/divisor/%d/%s", n, sp), "输出 10 / 2" + z + sp + fmt.Sprintf("-%d", n) + "\n", "num(5)"},
					handCase{fmt.Sprintf("long-literal/negative/%d/%s", n, sp), "输出 -25" + z + sp + fmt.Sprintf("-%d", n+1) + " + 3\n", "num(0.5)"},
				)
			}
		}
		c.runHand("long-literals", hc)
	}
	c.runHand("text-operand", []handCase{
		{"compared-after-conversion", "令丁 = “5*10^2”\n令数 = 以丁（转换数值）\n输出【丁 为 “5*10^2”，丁 == “5*10^2”，丁 不为 “5*10^2”，数】\n", "list[bool(true),bool(true),bool(false),num(500)]"},
		{"compared-inside-one-expression", "令丁 = “1*^3”\n输出 丁 为 “1*^3” 且 以丁（转换数值） == 1000 且 丁 为 “1*^3”\n", "bool(true)"},
		{"failed-conversion-keeps-the-text", "令丁 = “1*^x”\n如何试？\n\t输入文\n\t输出 以文（转换数值）\n\n\t拦截异常：\n\t\t输出 -1\n令果 = （试：丁）\n输出【果，丁 为 “1*^x”】\n", "list[num(-1),bool(true)]"},
		{"literal-converted-twice", "如何读？\n\t输出 “2*10^3”\n输出【以（读）（转换数值），以（读）（转换数值），（读） 为 “2*10^3”】\n", "list[num(2000),num(2000),bool(true)]"},
		{"values-after-handled-faults", "如何试？\n\t输入甲、乙\n\t输出 {甲 / 乙 + 1} * 2\n\n\t拦截异常：\n\t\t输出 -1\n令和 = 0\n以项遍历【0，1，0，2】：\n\t和 = 和 + （试：1、项）\n输出【和，1 + 2 * 3，20 - {5 + 10} * 7，7 | 2 == 3 或 1 / 0 > 1】\n", "list[num(5),num(7),num(-85),bool(true)]"},
		{"values-after-handled-type-errors", "如何试？\n\t输入甲\n\t输出 {甲 * 2 > 3} 且 真\n\n\t拦截异常：\n\t\t输出 假\n输出【（试：“文”），（试：5），（试：空），（试：1），2 % 3 * {4 - 1}】\n", "list[bool(false),bool(true),bool(false),bool(false),num(6)]"},
		{"length-after-conversion", "令丁 = “12*10^3”\n令数 = 以丁（转换数值）\n输出【丁之长度，数】\n", "list[num(7),num(12000)]"},
	})
}

func c01Leaf(r *rand.Rand) zr.Expr {
	switch r.Intn(7) {
	case 0, 1:
		return zr.N("空")
	case 2:
		return intLit(r.Intn(4))
	case 3:
		return zr.S([]string{"", "a", "1"}[r.Intn(3)])
	case 4:
		return zr.N([]string{"真", "假"}[r.Intn(2)])
	case 5:
		return zr.Num{Lit: "0.5", V: 0.5}
	}
	return intLit(1)
}

func c01Container(r *rand.Rand, depth int) zr.Expr {
	n := r.Intn(4)
	child := func() zr.Expr {
		if depth > 0 && r.Intn(3) == 0 {
			return c01Container(r, depth-1)
		}
		return c01Leaf(r)
	}
	if r.Intn(2) == 0 {
		l := zr.ListLit{}
		for k := 0; k < n; k++ {
			l.Items = append(l.Items, child())
		}
		return l
	}
	d := zr.DictLit{}
	for k := 0; k < n; k++ {
		d.Keys = append(d.Keys, string(nameGlyphs[k]))
		d.KeyForm = append(d.KeyForm, 0)
		d.Vals = append(d.Vals, child())
	}
	return d
}

// c01Mutate returns a variant of container e and the kind of change.
func c01Mutate(r *rand.Rand, e zr.Expr) (zr.Expr, string) {
	switch x := e.(type) {
	case zr.ListLit:
		y := zr.ListLit{Items: append([]zr.Expr{}, x.Items...)}
		switch k := r.Intn(5); {
		case k == 0 || len(y.Items) == 0:
			if len(y.Items) == 0 && k > 1 {
				y.Items = append(y.Items, c01Leaf(r))
				return y, "added"
			}
			return y, "same"
		case k == 1:
			y.Items = y.Items[:len(y.Items)-1]
			return y, "dropped"
		case k == 2:
			y.Items = append(y.Items, c01Leaf(r))
			return y, "added"
		default:
			// change the LAST leaf, so that equal (often identical) elements come first
			i := len(y.Items) - 1
			if sub, ok := y.Items[i].(zr.ListLit); ok {
				y.Items[i], _ = c01Mutate(r, sub)
			} else if sub, ok := y.Items[i].(zr.DictLit); ok {
				y.Items[i], _ = c01Mutate(r, sub)
			} else {
				y.Items[i] = c01Leaf(r)
			}
			return y, "leaf"
		}
	case zr.DictLit:
		y := zr.DictLit{Keys: append([]string{}, x.Keys...), KeyForm: append([]int{}, x.KeyForm...), Vals: append([]zr.Expr{}, x.Vals...)}
		switch k := r.Intn(6); {
		case k == 0 || len(y.Keys) == 0:
			return y, "same"
		case k == 1:
			y.Keys, y.KeyForm, y.Vals = y.Keys[:len(y.Keys)-1], y.KeyForm[:len(y.KeyForm)-1], y.Vals[:len(y.Vals)-1]
			return y, "dropped"
		case k == 2:
			// same entries, reversed insertion order
			for a, b := 0, len(y.Keys)-1; a < b; a, b = a+1, b-1 {
				y.Keys[a], y.Keys[b] = y.Keys[b], y.Keys[a]
				y.Vals[a], y.Vals[b] = y.Vals[b], y.Vals[a]
			}
			return y, "reordered"
		case k == 3:
			y.Keys[len(y.Keys)-1] = "换"
			return y, "key"
		default:
			i := len(y.Keys) - 1
			if sub, ok := y.Vals[i].(zr.ListLit); ok {
				y.Vals[i], _ = c01Mutate(r, sub)
			} else if sub, ok := y.Vals[i].(zr.DictLit); ok {
				y.Vals[i], _ = c01Mutate(r, sub)
			} else {
				y.Vals[i] = c01Leaf(r)
			}
			return y, "leaf"
		}
	}
	return e, "same"
}
