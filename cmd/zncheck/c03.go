package main

import (
	"fmt"
	"math/rand"
	"strings"

	. "verif/internal/proto"
	zr "verif/internal/znref"
)

func init() { register("C03", "exploration", checkC03) }

// synGen builds arbitrary syntax trees (not meant to be executed).
type synGen struct {
	r   *rand.Rand
	n   int
	max int
}

func (g *synGen) name() string {
	g.n++
	switch g.r.Intn(4) {
	case 0:
		return fmt.Sprintf("v%c%d", 'a'+rune(g.r.Intn(26)), g.n%97)
	case 1:
		return string(nameGlyphs[g.r.Intn(len(nameGlyphs))]) + string(nameGlyphs[g.n%len(nameGlyphs)])
	case 2:
		return string(nameGlyphs[g.r.Intn(len(nameGlyphs))]) + fmt.Sprintf("%d", g.n%50)
	}
	return "名" + string(nameGlyphs[g.n%len(nameGlyphs)]) + string(nameGlyphs[g.r.Intn(len(nameGlyphs))])
}

func (g *synGen) text() string {
	al := []string{"a", "文", "字", " ", "，", "1", "😀", "\n", "\r\n", "\r", "\n\n", "`", "”", "“", "「", "：", "x y", "\t"}
	n := g.r.Intn(4)
	s := ""
	for i := 0; i < n; i++ {
		s += al[g.r.Intn(len(al))]
	}
	return s
}

func (g *synGen) atom() zr.Expr {
	switch g.r.Intn(5) {
	case 0:
		return numLit(g.r)
	case 1:
		return zr.S(g.text())
	case 2:
		return zr.ThisProp{Prop: g.name()}
	}
	return zr.N(g.name())
}

func (g *synGen) args(depth int) []zr.Expr {
	n := g.r.Intn(4)
	out := []zr.Expr{}
	for i := 0; i < n; i++ {
		out = append(out, g.expr(depth))
	}
	return out
}

func (g *synGen) callPart(depth int) zr.CallPart {
	return zr.CallPart{Fn: g.name(), Args: g.args(depth)}
}

func (g *synGen) expr(depth int) zr.Expr {
	r := g.r
	if depth <= 0 {
		return g.atom()
	}
	switch r.Intn(14) {
	case 0, 1:
		op := c01Ops[r.Intn(len(c01Ops))]
		return zr.Bin{Op: op, L: g.expr(depth - 1), R: g.expr(depth - 1)}
	case 2:
		op := []string{"+", "-", "*", "/", "|", "%"}[r.Intn(6)]
		return zr.Bin{Op: op, L: g.expr(depth - 1), R: g.expr(depth - 1)}
	case 3:
		return zr.Group{E: g.expr(depth - 1)}
	case 4:
		l := zr.ListLit{}
		for i := 0; i < r.Intn(4); i++ {
			l.Items = append(l.Items, g.expr(depth-1))
		}
		return l
	case 5:
		d := zr.DictLit{}
		for i := 0; i < r.Intn(4); i++ {
			if r.Intn(2) == 0 {
				d.Keys = append(d.Keys, g.name())
				d.KeyForm = append(d.KeyForm, 1)
			} else {
				d.Keys = append(d.Keys, g.text())
				d.KeyForm = append(d.KeyForm, 0)
			}
			d.Vals = append(d.Vals, g.expr(depth-1))
		}
		return d
	case 6:
		c := zr.Call{CallPart: g.callPart(depth - 1)}
		if r.Intn(4) == 0 {
			c.Yield = g.name()
		}
		return c
	case 7:
		m := zr.MCall{Recv: g.postfixBase(depth - 1)}
		for i := 0; i < 1+r.Intn(3); i++ {
			m.Chain = append(m.Chain, g.callPart(depth-1))
		}
		if r.Intn(3) == 0 {
			m.Yield = g.name() // 得到 belongs to the whole chain, also in expression position
		}
		return m
	case 8:
		return zr.Member{Recv: g.postfixBase(depth - 1), Prop: g.name()}
	case 9:
		var idx zr.Expr
		switch r.Intn(3) {
		case 0:
			idx = intLit(r.Intn(9))
		case 1:
			idx = zr.S(g.text())
		default:
			idx = g.expr(depth - 1)
			if n, ok := idx.(zr.Name); ok {
				idx = zr.Group{E: n}
			}
		}
		return zr.Index{Recv: g.postfixBase(depth - 1), Idx: idx}
	case 10:
		return zr.New{Class: g.name(), Args: g.args(depth - 1)}
	}
	return g.atom()
}

// postfixBase: something that can carry 之 / # / be the root of 以…（）
func (g *synGen) postfixBase(depth int) zr.Expr {
	switch g.r.Intn(6) {
	case 0:
		return zr.Group{E: g.expr(depth)}
	case 1:
		return zr.Call{CallPart: g.callPart(depth - 1)}
	case 2:
		if depth > 0 {
			return zr.Member{Recv: g.postfixBase(depth - 1), Prop: g.name()}
		}
	case 3:
		if depth > 0 {
			return zr.Index{Recv: g.postfixBase(depth - 1), Idx: intLit(g.r.Intn(5))}
		}
	case 4:
		return zr.ThisProp{Prop: g.name()}
	}
	return zr.N(g.name())
}

func (g *synGen) assignTarget(depth int) zr.Expr {
	switch g.r.Intn(4) {
	case 0:
		return zr.Member{Recv: g.postfixBase(depth), Prop: g.name()}
	case 1:
		return zr.Index{Recv: g.postfixBase(depth), Idx: intLit(1 + g.r.Intn(5))}
	case 2:
		return zr.ThisProp{Prop: g.name()}
	}
	return zr.N(g.name())
}

// arithmetic-level expression (assignment operands are arithmetic expressions)
func (g *synGen) arith(depth int) zr.Expr {
	e := g.expr(depth)
	if b, ok := e.(zr.Bin); ok {
		switch b.Op {
		case "+", "-", "*", "/", "|", "%":
		default:
			return zr.Group{E: e}
		}
	}
	return e
}

func (g *synGen) block(depth int) []zr.Stmt {
	n := 1 + g.r.Intn(3)
	out := []zr.Stmt{}
	for i := 0; i < n; i++ {
		out = append(out, g.stmt(depth))
	}
	return out
}

func (g *synGen) catches(depth int) []zr.Catch {
	out := []zr.Catch{}
	for i := 0; i < g.r.Intn(3); i++ {
		out = append(out, zr.Catch{Class: g.name(), Body: g.block(depth)})
	}
	return out
}

func (g *synGen) funcDef(depth int, ctor bool) *zr.FuncDef {
	f := &zr.FuncDef{Name: g.name(), Ctor: ctor}
	for i := 0; i < g.r.Intn(4); i++ {
		f.Params = append(f.Params, g.name())
	}
	f.Body = g.block(depth)
	f.Catches = g.catches(depth)
	return f
}

func (g *synGen) stmt(depth int) zr.Stmt {
	r := g.r
	ed := 1 + r.Intn(g.max)
	k := r.Intn(18)
	if depth <= 0 && (k >= 4 && k <= 9) {
		k = r.Intn(4)
	}
	switch k {
	case 0:
		l := zr.Let{}
		np := 1
		if r.Intn(4) == 0 {
			l.Block = true
			np = 1 + r.Intn(3)
		}
		for i := 0; i < np; i++ {
			p := zr.LetPair{Const: r.Intn(3) == 0, Val: g.expr(ed)}
			for j := 0; j < 1+r.Intn(3); j++ {
				p.Names = append(p.Names, g.name())
			}
			l.Pairs = append(l.Pairs, p)
		}
		return l
	case 1:
		return zr.ExprStmt{E: zr.Assign{Target: g.assignTarget(1), Val: g.arith(ed)}}
	case 2:
		c := zr.Call{CallPart: g.callPart(ed)}
		if r.Intn(2) == 0 {
			c.Yield = g.name()
		}
		return zr.ExprStmt{E: c}
	case 3:
		m := zr.MCall{Recv: g.postfixBase(1)}
		for i := 0; i < 1+r.Intn(3); i++ {
			m.Chain = append(m.Chain, g.callPart(ed))
		}
		if r.Intn(2) == 0 {
			m.Yield = g.name()
		}
		return zr.ExprStmt{E: m}
	case 4:
		s := zr.If{Cond: g.expr(ed), Then: g.block(depth - 1)}
		for i := 0; i < r.Intn(3); i++ {
			s.Elifs = append(s.Elifs, zr.Elif{Cond: g.expr(ed), Body: g.block(depth - 1)})
		}
		if r.Intn(2) == 0 {
			s.HasElse = true
			s.Else = g.block(depth - 1)
		}
		return s
	case 5:
		return zr.While{Cond: g.expr(ed), Body: g.block(depth - 1)}
	case 6:
		it := zr.Iter{Over: g.expr(ed), Body: g.block(depth - 1)}
		for i := 0; i < r.Intn(3); i++ {
			it.Names = append(it.Names, g.name())
		}
		return it
	case 7:
		return g.funcDef(depth-1, false)
	case 8:
		return g.funcDef(depth-1, true)
	case 9:
		c := zr.ClassDef{Name: g.name()}
		for i := 0; i < r.Intn(3); i++ {
			c.Props = append(c.Props, zr.PropDef{Name: g.name(), Val: g.expr(ed)})
		}
		for i := 0; i < r.Intn(3); i++ {
			c.Methods = append(c.Methods, g.funcDef(depth-1, false))
		}
		for i := 0; i < r.Intn(2); i++ {
			c.Getters = append(c.Getters, g.funcDef(depth-1, false))
		}
		if len(c.Props)+len(c.Methods)+len(c.Getters) == 0 {
			c.Props = append(c.Props, zr.PropDef{Name: g.name(), Val: g.atom()})
		}
		return c
	case 10:
		return zr.Return{E: g.expr(ed)}
	case 11:
		t := zr.Throw{Class: g.name()}
		for i := 0; i < 1+r.Intn(3); i++ {
			t.Args = append(t.Args, g.expr(ed))
		}
		return t
	case 12:
		return zr.Break{}
	case 13:
		return zr.Continue{}
	case 14:
		return zr.Empty{}
	}
	return zr.ExprStmt{E: g.expr(ed)}
}

func (g *synGen) program(depth int) *zr.Program {
	p := &zr.Program{}
	for i := 0; i < g.r.Intn(3); i++ {
		im := zr.Import{Name: "模块" + g.name(), Std: g.r.Intn(2) == 0}
		if im.Std {
			im.Name = "@" + im.Name
		}
		for j := 0; j < g.r.Intn(3); j++ {
			im.Items = append(im.Items, g.name())
		}
		p.Imports = append(p.Imports, im)
	}
	for i := 0; i < g.r.Intn(3); i++ {
		p.Inputs = append(p.Inputs, g.name())
	}
	p.Body = g.block(depth)
	for len(p.Body) < 2 {
		p.Body = append(p.Body, g.stmt(depth))
	}
	p.Catches = g.catches(depth)
	return p
}

func checkC03(c *Ctx) {
	c.rule = "random syntax trees over all statement kinds (令 single/multi/block, 恒为, assignments to names/members/indexes, calls with 得到, 以…（）、（） chains, 如果/再如/否则, 每当, 遍历 with 0-2 names, 如何 / 如何新建 / 定义 with properties, methods and 何为, 输出, 抛出, 结束循环, 继续循环, ；, 导入 text/《lib》 with item lists, 输入, 拦截 sections) and all expression forms, each rendered under the canonical layout and k random layout vectors (= / 设为, 之 / 的, symbol / keyword comparisons, Chinese / ASCII punctuation, optional blanks and commas, comments, TAB / 4-space indents, LF / CR / CRLF / LFCR, line breaks inside brackets and call arguments, ； between simple statements). Oracle: (1) the canonical S-expression of the parsed tree equals the generator's tree; (2) all layouts of one tree give the identical dump; (3) token-level corruptions (delete / duplicate / swap / replace one token of a rendering): if accepted, the tree must be complete. distinct_nontrivial = distinct (tree hash, layout vector)"
	c.assumptions = []string{"layout freedoms are those of DESIGN Appendix B; identifiers avoid keyword glyphs (C04 owns that)", "a rendering the pinned parser rejected for a licensed layout would be adjudicated, none is excluded silently"}
	rng := c.Rand("c03")
	nTrees := c.Pick(1500, 60000)
	nLayouts := c.Pick(5, 11)
	type tcase struct {
		tree   int
		layout string
		src    string
		want   string
	}
	var cases []tcase
	for t := 0; t < nTrees; t++ {
		g := &synGen{r: rng, max: c.Pick(3, 5)}
		p := g.program(1 + rng.Intn(c.Pick(3, 5)))
		want := zr.DumpProgram(p)
		cases = append(cases, tcase{t, "canonical", zr.Render(p, zr.Layout{}), want})
		for k := 0; k < nLayouts; k++ {
			l := zr.RandomLayout(rand.New(rand.NewSource(rng.Int63())))
			cases = append(cases, tcase{t, fmt.Sprintf("ind%q eol%q as%d dot%d cmp%d ascii%d cm%v oc%v tk%v br%v se%v", l.Indent, l.EOL, l.AssignWord, l.Dot, l.CmpWords, l.ASCII, l.Comments, l.OptComma, l.TightKW, l.Breaks, l.Semis), zr.Render(p, l), want})
		}
	}
	// long programs: thousands of statements, flat or spread over many small blocks - size is not
	// nesting, and no bound of the parser may count the one as the other
	for _, shape := range []string{"flat-2500", "flat-6000", "blocks-200x15", "methods-150x20"} {
		g := &synGen{r: rng, max: 2}
		p := &zr.Program{}
		simple := func() zr.Stmt {
			for {
				st := g.stmt(0)
				switch st.(type) {
				case zr.Let, zr.ExprStmt, zr.Empty:
					return st
				}
			}
		}
		switch shape {
		case "flat-2500", "flat-6000":
			n := 2500
			if shape == "flat-6000" {
				n = 6000
			}
			for k := 0; k < n; k++ {
				p.Body = append(p.Body, simple())
			}
		case "blocks-200x15":
			for b := 0; b < 200; b++ {
				body := []zr.Stmt{}
				for k := 0; k < 15; k++ {
					body = append(body, simple())
				}
				body = append(body, zr.ExprStmt{E: intLit(b)})
				p.Body = append(p.Body, zr.If{Cond: zr.N("真"), Then: body})
			}
		default:
			for b := 0; b < 150; b++ {
				body := []zr.Stmt{}
				for k := 0; k < 20; k++ {
					body = append(body, simple())
				}
				body = append(body, zr.Return{E: intLit(b)})
				p.Body = append(p.Body, &zr.FuncDef{Name: fmt.Sprintf("长法%d", b), Body: body})
			}
			p.Body = append(p.Body, zr.ExprStmt{E: intLit(1)})
		}
		want := zr.DumpProgram(p)
		cases = append(cases, tcase{nTrees, "canonical long/" + shape, zr.Render(p, zr.Layout{}), want})
		l := zr.RandomLayout(rand.New(rand.NewSource(rng.Int63())))
		cases = append(cases, tcase{nTrees, "random long/" + shape, zr.Render(p, l), want})
		nTrees++
	}
	// a program indented as a whole (every line shifted right by the same number of units): the
	// lines of a block still share one indentation, the tree is the same
	{
		shifted := []tcase{}
		seen := 0
		for _, cs := range cases {
			if !strings.HasPrefix(cs.layout, "canonical") || len(cs.src) > 3000 || strings.Contains(cs.layout, "long/") {
				continue
			}
			unit := "\t"
			if strings.Contains(cs.src, "\n    ") && !strings.Contains(cs.src, "\n\t") {
				unit = "    "
			}
			lines := strings.Split(strings.TrimSuffix(cs.src, "\n"), "\n")
			okc := true
			for _, ln := range lines {
				// (only renderings whose every line is a statement line: no text value or comment
				// continued on the next line)
				if strings.Count(ln, "“") != strings.Count(ln, "”") || strings.Count(ln, "「") != strings.Count(ln, "」") || strings.Contains(ln, "\r") {
					okc = false
				}
			}
			if !okc {
				continue
			}
			for base := 1; base <= 2; base++ {
				shifted = append(shifted, tcase{cs.tree, fmt.Sprintf("shifted-by-%d-units of canonical", base), strings.Repeat(unit, base) + strings.Join(lines, "\n"+strings.Repeat(unit, base)) + "\n", cs.want})
			}
			seen++
			if seen >= c.Pick(150, 3000) {
				break
			}
		}
		cases = append(cases, shifted...)
		c.Count("programs_shifted_as_a_whole", int64(len(shifted)))
	}
	reqs := make([]Req, len(cases))
	for i, cs := range cases {
		reqs[i] = parseReq([]rune(cs.src))
	}
	treeDump := make([]string, nTrees)
	c.runBatches(reqs, 200, func(i int, req *Req, resp *Resp) {
		c.Eval()
		cs := cases[i]
		c.Nontrivial(fmt.Sprintf("%d|%s", cs.tree, cs.layout))
		key := fmt.Sprintf("tree:%s:%s", strings.SplitN(cs.layout, " ", 2)[0], cs.src)
		rp := map[string]interface{}{"req": req, "expected": cs.want}
		if resp.Kind != "ok" {
			msg := resp.Kind
			if resp.Err != nil {
				msg += " " + clip(resp.Err.Text, 300)
			}
			c.Violation(key, fmt.Sprintf("layout [%s]: the rendering is rejected: %s\nsource:\n%s", cs.layout, msg, clip(cs.src, 900)), rp)
			return
		}
		// the grammar lists ； both as a statement and as a separator: A；B may carry an
		// empty statement between A and B or not - empty statements are not compared
		resp.Dump = strings.ReplaceAll(resp.Dump, " (empty)", "")
		cs.want = strings.ReplaceAll(cs.want, " (empty)", "")
		// a program whose only statements are separators has no statement: whether its (empty)
		// executable section is present or absent is the same tree
		noExec := func(d string) string {
			const e = ") (exec (inputs) (block) (catches)))"
			if strings.HasSuffix(d, e) {
				return strings.TrimSuffix(d, e) + ") nil)"
			}
			return d
		}
		resp.Dump, cs.want = noExec(resp.Dump), noExec(cs.want)
		if resp.Dump != cs.want {
			c.Violation(key, fmt.Sprintf("layout [%s]: parsed tree differs from the prescribed tree\n parsed:   %s\n expected: %s\nsource:\n%s", cs.layout, clip(diffAt(resp.Dump, cs.want), 500), clip(diffAt(cs.want, resp.Dump), 500), clip(cs.src, 900)), rp)
			return
		}
		c.mu.Lock()
		if treeDump[cs.tree] == "" {
			treeDump[cs.tree] = resp.Dump
		} else if treeDump[cs.tree] != resp.Dump {
			c.mu.Unlock()
			c.Violation(key, fmt.Sprintf("layout [%s] changes the tree of the same program", cs.layout), rp)
			return
		}
		c.mu.Unlock()
		if i%4000 == 0 {
			c.Sample(map[string]interface{}{"layout": cs.layout, "source": clip(cs.src, 400), "tree": clip(resp.Dump, 300)})
		}
	})

	// (3) token-level corruptions of canonical renderings
	nCor := c.Pick(300, 8000)
	type ccase struct{ src string }
	var base []string
	for i := 0; i < nCor && i*(nLayouts+1) < len(cases); i++ {
		base = append(base, cases[i*(nLayouts+1)+rng.Intn(nLayouts+1)].src)
	}
	treqs := make([]Req, len(base))
	for i, s := range base {
		treqs[i] = toks(s)
	}
	var cor []string
	c.runBatches(treqs, 200, func(i int, req *Req, resp *Resp) {
		if resp.Kind != "ok" || len(resp.Toks) < 3 {
			return
		}
		rs := []rune(base[i])
		tk := resp.Toks[:len(resp.Toks)-1]
		local := rand.New(rand.NewSource(int64(i)*7919 + c.Seed))
		out := []string{}
		for k := 0; k < 12; k++ {
			a := tk[local.Intn(len(tk))]
			b := tk[local.Intn(len(tk))]
			var s []rune
			switch local.Intn(4) {
			case 0: // delete
				s = append(append([]rune{}, rs[:a.Start]...), rs[a.End:]...)
			case 1: // duplicate
				s = append(append(append([]rune{}, rs[:a.End]...), rs[a.Start:a.End]...), rs[a.End:]...)
			case 2: // replace a by b's text
				s = append(append(append([]rune{}, rs[:a.Start]...), rs[b.Start:b.End]...), rs[a.End:]...)
			case 3: // swap (non-overlapping)
				if a.End <= b.Start {
					s = append([]rune{}, rs[:a.Start]...)
					s = append(s, rs[b.Start:b.End]...)
					s = append(s, rs[a.End:b.Start]...)
					s = append(s, rs[a.Start:a.End]...)
					s = append(s, rs[b.End:]...)
				} else {
					continue
				}
			}
			out = append(out, string(s))
		}
		c.mu.Lock()
		cor = append(cor, out...)
		c.mu.Unlock()
	})
	creqs := make([]Req, len(cor))
	for i, s := range cor {
		creqs[i] = parseReq([]rune(s))
	}
	c.runBatches(creqs, 300, func(i int, req *Req, resp *Resp) {
		c.Eval()
		c.Count("corruptions_"+resp.Kind, 1)
		key, what := judgeParse([]rune(cor[i]), resp)
		if key != "" {
			c.Violation("corrupt:"+key+":"+cor[i], "token-level corruption: "+what+"\nsource:\n"+clip(cor[i], 600), map[string]interface{}{"req": req})
		}
	})
}

// diffAt returns a around the first position where a and b differ
func diffAt(a, b string) string {
	i := 0
	for i < len(a) && i < len(b) && a[i] == b[i] {
		i++
	}
	lo := i - 60
	if lo < 0 {
		lo = 0
	}
	hi := i + 120
	if hi > len(a) {
		hi = len(a)
	}
	return "…" + a[lo:hi] + "…"
}
