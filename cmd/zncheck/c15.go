package main

import (
	"os"
	"fmt"
	"strings"

	. "verif/internal/proto"
	zr "verif/internal/znref"
)

func init() { register("C15", "exploration", checkC15) }

var c15Names = []string{"主", "模甲", "模乙", "模丙", "模丁"}

// module file name for index i under a naming scheme
func c15ModName(i int, nested bool) string {
	if nested && i%2 == 1 {
		return "包-子包-" + c15Names[i]
	}
	if nested {
		return "包-" + c15Names[i]
	}
	return c15Names[i]
}

func c15Path(name string) string { return strings.ReplaceAll(name, "-", "/") + ".zn" }

type c15Variant struct {
	kind string // base, unlisted, assign-import, missing-module, missing-lib, call-sibling-type
}

// build the program of module i. adj[i][j] = module i imports module j.
func c15Module(i, n int, adj [][]bool, nested bool, selective bool, variant string) *zr.Program {
	p := &zr.Program{}
	me := c15Names[i]
	for j := 0; j < n; j++ {
		if adj[i][j] {
			im := zr.Import{Name: c15ModName(j, nested)}
			if selective {
				im.Items = []string{"法" + c15Names[j], "型" + c15Names[j]}
			}
			p.Imports = append(p.Imports, im)
		}
	}
	if variant == "lib-everywhere" {
		// every module of the graph (and the main file) imports the same registered library
		im := zr.Import{Name: "@样品库", Std: true}
		if selective {
			im.Items = []string{"取常数"}
		}
		p.Imports = append(p.Imports, im)
	}
	body := []zr.Stmt{}
	if i > 0 {
		// definitions: a helper, a method that uses the helper and the module's type
		helper := &zr.FuncDef{Name: "助" + me, Params: []string{"数"}, Body: []zr.Stmt{zr.Return{E: zr.Bin{Op: "+", L: zr.N("数"), R: intLit(100 * i)}}}}
		cls := zr.ClassDef{Name: "型" + me, Props: []zr.PropDef{{Name: "值", Val: intLit(i)}},
			Methods: []*zr.FuncDef{{Name: "取", Body: []zr.Stmt{zr.Return{E: zr.Bin{Op: "*", L: zr.ThisProp{Prop: "值"}, R: intLit(7)}}}}}}
		callsDeps := zr.Expr(intLit(0))
		for j := 1; j < n; j++ {
			if adj[i][j] && j != i {
				callsDeps = zr.Bin{Op: "+", L: callsDeps, R: zr.CallE("法"+c15Names[j], intLit(1))}
			}
		}
		main := &zr.FuncDef{Name: "法" + me, Params: []string{"数"}, Body: []zr.Stmt{
			zr.LetS("物", zr.New{Class: "型" + me}),
			zr.Return{E: zr.Bin{Op: "+", L: zr.Bin{Op: "+", L: zr.CallE("助"+me, zr.N("数")), R: zr.MCall{Recv: zr.N("物"), Chain: []zr.CallPart{{Fn: "取"}}}}, R: zr.Group{E: callsDeps}}},
		}}
		body = append(body, cls, helper, main)
	}
	body = append(body, zr.Show(zr.S("body:"+me)))
	if i == 0 {
		for j := 1; j < n; j++ {
			if adj[0][j] {
				body = append(body, zr.Show(zr.S("call:"+c15Names[j]), zr.CallE("法"+c15Names[j], intLit(j))))
				body = append(body, zr.Show(zr.S("type:"+c15Names[j]), zr.MCall{Recv: zr.New{Class: "型" + c15Names[j]}, Chain: []zr.CallPart{{Fn: "取"}}}))
			}
		}
		first := 0
		for j := 1; j < n; j++ {
			if adj[0][j] {
				first = j
				break
			}
		}
		switch variant {
		case "unlisted":
			if first > 0 {
				body = append(body, zr.Show(zr.S("unlisted"), zr.CallE("助"+c15Names[first], intLit(1))), zr.Show(zr.S("not-reached")))
			}
		case "assign-import":
			if first > 0 {
				body = append(body, zr.Set(zr.N("法"+c15Names[first]), intLit(1)), zr.Show(zr.S("not-reached")))
			}
		case "assign-type":
			if first > 0 {
				body = append(body, zr.Set(zr.N("型"+c15Names[first]), intLit(1)), zr.Show(zr.S("not-reached")))
			}
		case "redeclare-import":
			if first > 0 {
				body = append(body, &zr.FuncDef{Name: "法" + c15Names[first], Body: []zr.Stmt{zr.Return{E: intLit(0)}}})
			}
		}
		body = append(body, zr.Return{E: zr.S("done")})
	}
	p.Body = body
	return p
}

type c15Case struct {
	files  []File
	ref    zr.Result
	shape  string
	desc   string
}

func c15Build(n int, mask uint64, nested, selective bool, variant string) c15Case {
	adj := make([][]bool, n)
	bit := 0
	edges := []string{}
	for i := 0; i < n; i++ {
		adj[i] = make([]bool, n)
		for j := 0; j < n; j++ {
			if i == 0 && j == 0 {
				// the main file cannot name itself (it has no module name): skip this bit
				bit++
				continue
			}
			if j == 0 {
				bit++
				continue // nobody can import the main file by name either
			}
			if mask&(1<<uint(bit)) != 0 {
				adj[i][j] = true
				edges = append(edges, fmt.Sprintf("%s->%s", c15Names[i], c15Names[j]))
			}
			bit++
		}
	}
	progs := map[string]*zr.Program{}
	files := []File{}
	var mainProg *zr.Program
	for i := 0; i < n; i++ {
		p := c15Module(i, n, adj, nested, selective, variant)
		src := zr.Render(p, zr.Layout{})
		if i == 0 {
			mainProg = p
			files = append(files, File{Path: "main.zn", Data: widen([]byte(src))})
		} else {
			name := c15ModName(i, nested)
			progs[name] = p
			files = append(files, File{Path: c15Path(name), Data: widen([]byte(src))})
		}
	}
	ip := zr.NewInterp()
	ip.Files = progs
	if variant == "lib-everywhere" {
		ip.Libs = map[string]map[string]zr.Value{"@样品库": {"取常数": zr.VNull{}, "样品": zr.VNull{}, "HTTP响应": zr.VNull{}, "HTTP请求": zr.VNull{}}}
	}
	ref := ip.Run(mainProg)
	return c15Case{files: files, ref: ref, shape: fmt.Sprintf("n%d/%v/%v/%s", n, nested, selective, variant), desc: strings.Join(edges, " ")}
}

func checkC15(c *Ctx) {
	c.rule = "failing imports (missing module / library, collision, cycle, self-import) inside an imported module with and without a 拦截 block of its own, with and without a handler in its importer: the program ends with that error; module graphs as directories of .zn files: every digraph (self-loops included) on main + 2 modules (quick) / main + 3 modules (thorough; 4096 graphs) x import style (all / listed) x flat or nested module names (A-B-C -> A/B/C.zn); every module body displays a marker, defines a helper, a type and a method that uses both and calls the methods it imported; the main file calls what it imported. Variants: calling an unlisted name, assigning to an imported method / type, redefining an imported name, missing module, missing library, repeated import of one module, library import, the same library imported by every module of the graph, an imported method reached through an alias / as an argument / from a list / as a method of an object the module handed out (also when the importer has a type and a helper of the same names), methods defined inside a method body (not exported, outer method callable repeatedly), a module file named like the main module. Oracle: module model of the reference evaluator (each reachable body exactly once, dependencies first, before the importer's statements; exports = methods and types, read-only; cycle => error 63; missing module 60, missing library 64); tick budget decides hangs. distinct_nontrivial = distinct (graph, style, variant)"
	c.assumptions = []string{"the main file cannot be imported by name, so edges into it are not generated", "selective import of a name the module does not export is not generated (unspecified)"}
	var cases []c15Case
	n := c.Pick(3, 4)
	edgeBits := n * n
	total := uint64(1) << uint(edgeBits)
	step := uint64(1)
	for mask := uint64(0); mask < total; mask += step {
		// skip masks that set ignored bits (edges into main), they are duplicates
		dup := false
		for i := 0; i < n; i++ {
			if mask&(1<<uint(i*n)) != 0 {
				dup = true
			}
		}
		if dup {
			continue
		}
		for _, selective := range []bool{false, true} {
			nested := (mask>>1)%3 == 0
			cases = append(cases, c15Build(n, mask, nested, selective, "base"))
		}
	}
	c.Count("exhaustive_graph_cases", int64(len(cases)))
	// variants on a few fixed graphs
	rng := c.Rand("c15")
	for _, variant := range []string{"unlisted", "assign-import", "assign-type", "redeclare-import", "lib-everywhere"} {
		for i := 0; i < c.Pick(30, 600); i++ {
			mask := rng.Uint64() % total
			cases = append(cases, c15Build(n, mask, rng.Intn(2) == 0, variant == "unlisted" || rng.Intn(2) == 0, variant))
		}
	}
	// larger graphs sampled
	for i := 0; i < c.Pick(200, 8000); i++ {
		mask := rng.Uint64() & rng.Uint64() % (1 << 25)
		cases = append(cases, c15Build(5, mask, rng.Intn(2) == 0, rng.Intn(2) == 0, "base"))
	}
	// hand-written specials
	special := func(shape string, files map[string]string, libs map[string]map[string]zr.Value, mainSrc *zr.Program, mods map[string]*zr.Program) {
		fl := []File{}
		for p, s := range files {
			fl = append(fl, File{Path: p, Data: widen([]byte(s))})
		}
		ip := zr.NewInterp()
		ip.Files = mods
		ip.Libs = libs
		cases = append(cases, c15Case{files: fl, ref: ip.Run(mainSrc), shape: shape, desc: shape})
	}
	{
		mainP := &zr.Program{Imports: []zr.Import{{Name: "不存在的模块"}}, Body: []zr.Stmt{zr.Show(zr.S("not-reached"))}}
		mainP.Imports[0].Name = "缺失模块"
		special("missing-module", map[string]string{"main.zn": zr.Render(mainP, zr.Layout{})}, nil, mainP, nil)
		mainL := &zr.Program{Imports: []zr.Import{{Name: "@缺失库", Std: true}}, Body: []zr.Stmt{zr.Show(zr.S("not-reached"))}}
		special("missing-library", map[string]string{"main.zn": zr.Render(mainL, zr.Layout{})}, map[string]map[string]zr.Value{}, mainL, nil)
		// repeated import of the same module by main
		modP := &zr.Program{Body: []zr.Stmt{&zr.FuncDef{Name: "法甲", Body: []zr.Stmt{zr.Return{E: intLit(1)}}}, zr.Show(zr.S("body:模甲"))}}
		mainR := &zr.Program{Imports: []zr.Import{{Name: "模甲", Items: []string{"法甲"}}, {Name: "模甲", Items: []string{"法甲"}}}, Body: []zr.Stmt{zr.Show(zr.S("not-reached"))}}
		special("repeated-import-same-name", map[string]string{"main.zn": zr.Render(mainR, zr.Layout{}), "模甲.zn": zr.Render(modP, zr.Layout{})}, nil, mainR, map[string]*zr.Program{"模甲": modP})
		// module with a syntax error / a runtime error in its body
		mainE := &zr.Program{Imports: []zr.Import{{Name: "坏模"}}, Body: []zr.Stmt{zr.Show(zr.S("not-reached"))}}
		badP := &zr.Program{Body: []zr.Stmt{zr.Show(zr.S("body:坏模")), zr.Show(zr.Bin{Op: "/", L: intLit(1), R: intLit(0)})}}
		special("module-runtime-error", map[string]string{"main.zn": zr.Render(mainE, zr.Layout{}), "坏模.zn": zr.Render(badP, zr.Layout{})}, nil, mainE, map[string]*zr.Program{"坏模": badP})
	}
	{
		// "an imported method behaves as it does inside its own module" however it is reached:
		// through an alias, as an argument, as a method of an object the module handed out; and
		// only the module's own top-level methods and types are exported
		helper := &zr.FuncDef{Name: "助手", Body: []zr.Stmt{zr.Return{E: zr.S("模甲助手")}}}
		greet := &zr.FuncDef{Name: "问好", Params: []string{"名"}, Body: []zr.Stmt{zr.Return{E: zr.ListLit{Items: []zr.Expr{zr.CallE("助手"), zr.N("名")}}}}}
		cat := zr.ClassDef{Name: "猫", Props: []zr.PropDef{{Name: "名", Val: zr.S("咪")}}, Methods: []*zr.FuncDef{{Name: "叫", Body: []zr.Stmt{zr.Return{E: zr.ListLit{Items: []zr.Expr{zr.CallE("助手"), zr.ThisProp{Prop: "名"}}}}}}}}
		maker := &zr.FuncDef{Name: "造", Body: []zr.Stmt{zr.Return{E: zr.New{Class: "猫"}}}}
		innerF := &zr.FuncDef{Name: "内", Body: []zr.Stmt{zr.Return{E: intLit(5)}}}
		outerF := &zr.FuncDef{Name: "外", Body: []zr.Stmt{innerF, zr.Return{E: zr.CallE("内")}}}
		modP := &zr.Program{Body: []zr.Stmt{helper, greet, cat, maker, outerF, zr.Show(zr.S("body:模甲"), zr.CallE("外"))}}
		mods := map[string]*zr.Program{"模甲": modP}
		mk := func(shape string, imp zr.Import, body ...zr.Stmt) {
			mainP := &zr.Program{Imports: []zr.Import{imp}, Body: body}
			special(shape, map[string]string{"main.zn": zr.Render(mainP, zr.Layout{}), "模甲.zn": zr.Render(modP, zr.Layout{})}, nil, mainP, mods)
		}
		for _, sel := range []bool{false, true} {
			tag := map[bool]string{false: "all", true: "listed"}[sel]
			imp := func(items ...string) zr.Import {
				if sel {
					return zr.Import{Name: "模甲", Items: items}
				}
				return zr.Import{Name: "模甲"}
			}
			mk("reach/direct/"+tag, imp("问好"), zr.Show(zr.CallE("问好", zr.S("a"))))
			mk("reach/alias/"+tag, imp("问好"), zr.LetS("别", zr.N("问好")), zr.Show(zr.CallE("别", zr.S("a"))))
			mk("reach/argument/"+tag, imp("问好"), &zr.FuncDef{Name: "用", Params: []string{"函"}, Body: []zr.Stmt{zr.Return{E: zr.CallE("函", zr.S("b"))}}}, zr.Show(zr.CallE("用", zr.N("问好"))))
			mk("reach/in-list/"+tag, imp("问好"), zr.LetS("表", zr.ListLit{Items: []zr.Expr{zr.N("问好")}}), zr.Iter{Names: []string{"函"}, Over: zr.N("表"), Body: []zr.Stmt{zr.Show(zr.CallE("函", zr.S("c")))}})
			mk("reach/object-method/"+tag, imp("造"), zr.LetS("物", zr.CallE("造")), zr.Show(zr.MCall{Recv: zr.N("物"), Chain: []zr.CallPart{{Fn: "叫"}}}))
			mk("reach/object-method-own-type-same-name/"+tag, imp("造"), zr.ClassDef{Name: "猫", Props: []zr.PropDef{{Name: "名", Val: zr.S("主")}}}, &zr.FuncDef{Name: "助手", Body: []zr.Stmt{zr.Return{E: zr.S("主助手")}}},
				zr.LetS("物", zr.CallE("造")), zr.Show(zr.MCall{Recv: zr.N("物"), Chain: []zr.CallPart{{Fn: "叫"}}}))
			mk("nested-def/outer-twice/"+tag, imp("外"), zr.Show(zr.CallE("外")), zr.Show(zr.CallE("外")))
		}
		mk("nested-def/not-exported", zr.Import{Name: "模甲"}, zr.Show(zr.S("leak?"), zr.CallE("内")))
		// a module's own methods and types stay read-only inside the module after it has been
		// loaded: a method called later by the importer cannot reassign a sibling
		{
			modW := &zr.Program{Body: []zr.Stmt{helper, greet, cat,
				&zr.FuncDef{Name: "改法", Body: []zr.Stmt{zr.Set(zr.N("助手"), intLit(5)), zr.Return{E: zr.S("changed")}}, Catches: []zr.Catch{{Class: "异常", Body: []zr.Stmt{zr.Return{E: zr.S("rejected")}}}}},
				&zr.FuncDef{Name: "改型", Body: []zr.Stmt{zr.Set(zr.N("猫"), intLit(5)), zr.Return{E: zr.S("changed")}}, Catches: []zr.Catch{{Class: "异常", Body: []zr.Stmt{zr.Return{E: zr.S("rejected")}}}}},
				&zr.FuncDef{Name: "硬改", Body: []zr.Stmt{zr.Set(zr.N("助手"), intLit(5)), zr.Return{E: zr.S("changed")}}},
				zr.Show(zr.S("body:模乙"))}}
			modsW := map[string]*zr.Program{"模乙": modW}
			for _, body := range [][]zr.Stmt{
				{zr.Show(zr.CallE("改法")), zr.Show(zr.CallE("问好", zr.S("a"))), zr.Show(zr.CallE("改型")), zr.Show(zr.MCall{Recv: zr.New{Class: "猫"}, Chain: []zr.CallPart{{Fn: "叫"}}})},
				{zr.Show(zr.CallE("硬改")), zr.Show(zr.S("not-reached"))},
			} {
				mainP := &zr.Program{Imports: []zr.Import{{Name: "模乙"}}, Body: body}
				special(fmt.Sprintf("sibling-readonly/%d", len(body)), map[string]string{"main.zn": zr.Render(mainP, zr.Layout{}), "模乙.zn": zr.Render(modW, zr.Layout{})}, nil, mainP, modsW)
			}
		}
		// a module that consists of 导入 statements only is a module like any other: what it imports
		// is loaded (once, before the importer goes on), a missing module behind it is an error, a
		// cycle through it is reported
		{
			leaf := &zr.Program{Body: []zr.Stmt{&zr.FuncDef{Name: "叶法", Body: []zr.Stmt{zr.Return{E: intLit(3)}}}, zr.Show(zr.S("body:叶"))}}
			relay := &zr.Program{Imports: []zr.Import{{Name: "叶"}}}
			relay2 := &zr.Program{Imports: []zr.Import{{Name: "中转"}}}
			mainC := &zr.Program{Imports: []zr.Import{{Name: "中转"}}, Body: []zr.Stmt{zr.Show(zr.S("main"))}}
			special("import-only-module/chain", map[string]string{"main.zn": zr.Render(mainC, zr.Layout{}), "中转.zn": zr.Render(relay, zr.Layout{}), "叶.zn": zr.Render(leaf, zr.Layout{})}, nil, mainC, map[string]*zr.Program{"中转": relay, "叶": leaf})
			mainC2 := &zr.Program{Imports: []zr.Import{{Name: "再转"}}, Body: []zr.Stmt{zr.Show(zr.S("main"))}}
			special("import-only-module/two-relays", map[string]string{"main.zn": zr.Render(mainC2, zr.Layout{}), "再转.zn": zr.Render(relay2, zr.Layout{}), "中转.zn": zr.Render(relay, zr.Layout{}), "叶.zn": zr.Render(leaf, zr.Layout{})}, nil, mainC2, map[string]*zr.Program{"再转": relay2, "中转": relay, "叶": leaf})
			mainD := &zr.Program{Imports: []zr.Import{{Name: "中转"}, {Name: "叶"}}, Body: []zr.Stmt{zr.Show(zr.S("main"), zr.CallE("叶法"))}}
			special("import-only-module/diamond", map[string]string{"main.zn": zr.Render(mainD, zr.Layout{}), "中转.zn": zr.Render(relay, zr.Layout{}), "叶.zn": zr.Render(leaf, zr.Layout{})}, nil, mainD, map[string]*zr.Program{"中转": relay, "叶": leaf})
			relayBad := &zr.Program{Imports: []zr.Import{{Name: "并不存在"}}}
			special("import-only-module/missing-behind", map[string]string{"main.zn": zr.Render(mainC, zr.Layout{}), "中转.zn": zr.Render(relayBad, zr.Layout{})}, nil, mainC, map[string]*zr.Program{"中转": relayBad})
			back := &zr.Program{Imports: []zr.Import{{Name: "中转"}}, Body: []zr.Stmt{zr.Show(zr.S("body:叶"))}}
			special("import-only-module/cycle-through", map[string]string{"main.zn": zr.Render(mainC, zr.Layout{}), "中转.zn": zr.Render(relay, zr.Layout{}), "叶.zn": zr.Render(back, zr.Layout{})}, nil, mainC, map[string]*zr.Program{"中转": relay, "叶": back})
			relayLib := &zr.Program{Imports: []zr.Import{{Name: "@缺失库", Std: true}}}
			special("import-only-module/missing-library-behind", map[string]string{"main.zn": zr.Render(mainC, zr.Layout{}), "中转.zn": zr.Render(relayLib, zr.Layout{})}, map[string]map[string]zr.Value{}, mainC, map[string]*zr.Program{"中转": relayLib})
		}
		// a module file that happens to be called like the main module
		namedMain := &zr.Program{Body: []zr.Stmt{&zr.FuncDef{Name: "法", Body: []zr.Stmt{zr.Return{E: intLit(7)}}}, zr.Show(zr.S("body:主模块"))}}
		mainM := &zr.Program{Imports: []zr.Import{{Name: "主模块"}}, Body: []zr.Stmt{zr.Show(zr.CallE("法"))}}
		special("module-named-like-main", map[string]string{"main.zn": zr.Render(mainM, zr.Layout{}), "主模块.zn": zr.Render(namedMain, zr.Layout{})}, nil, mainM, map[string]*zr.Program{"主模块": namedMain})
	}
	// "an imported method behaves as it does inside its own module": the same call is made once at
	// the end of the module's own file (run as main program) and once by an importer; the results
	// must agree. The module bodies keep constants, counters and tables for their methods
	{
		type mm struct{ name, mod, probe string }
		mms := []mm{
			{"module-variable", "令税率 = 5\n如何含税？\n\t输入价\n\t输出 价 + 税率\n", "（含税：100）"},
			{"module-constant-in-type-method", "令圆周率恒为3\n定义圆：\n\t其半径 = 2\n\t如何面积？\n\t\t输出 圆周率 * 其半径 * 其半径\n", "以（新建圆）（面积）"},
			{"module-counter", "令计 = 0\n如何下一个？\n\t计 = 计 + 1\n\t输出 计\n", "【（下一个），（下一个），（下一个）】"},
			{"module-table", "令表 = 【1，2】\n如何添？\n\t输入数\n\t以表（后增：数）\n\t输出 表\n", "【（添：3），（添：4）】"},
			{"module-variable-through-sibling", "令基 = 21\n如何外？\n\t输出（内）\n如何内？\n\t输出 基 * 2\n", "（外）"},
			{"module-variable-in-constructor", "令前缀 = “P-”\n定义签：\n\t其文 = “”\n如何新建签？\n\t输入名\n\t其文 = 【前缀，名】\n", "（新建签：“x”）之文"},
			{"module-variable-in-handler", "令备用 = 7\n如何试？\n\t输出 1 / 0\n\n\t拦截异常：\n\t\t输出 备用\n", "（试）"},
		}
		// (the importer takes everything, only what it needs, or defines a method of the same name as
		// a helper of the module: none of that changes what the module's own code does)
		person := "如何默认称呼？\n\t输出 “乙氏”\n定义人：\n\t其称 = “”\n\t其名 = “”\n\t如何全名？\n\t\t输出 【（默认称呼），其名】\n如何新建人？\n\t输入名\n\t其名 = 名\n\t其称 = （默认称呼）\n如何造人？\n\t输入名\n\t输出（新建人：名）\n"
		mms = append(mms,
			mm{"constructor-uses-module-helper", person, "（新建人：“甲”）之称"},
			mm{"type-method-uses-module-helper", person, "以（新建人：“甲”）（全名）"},
			mm{"factory-uses-module-helper", person, "（造人：“甲”）之称"},
		)
		mreqs := []Req{}
		for _, m := range mms {
			mreqs = append(mreqs,
				Req{Op: "exec", Main: "main.zn", Libs: true, EvalBudget: 20000, ParseBudget: 20000, Files: []File{{Path: "main.zn", Data: widen([]byte(m.mod + "输出 " + m.probe + "\n"))}}},
				Req{Op: "exec", Main: "main.zn", Libs: true, EvalBudget: 20000, ParseBudget: 20000, Files: []File{{Path: "main.zn", Data: widen([]byte("导入“模”\n输出 " + m.probe + "\n"))}, {Path: "模.zn", Data: widen([]byte(m.mod))}}})
		}
		// further importers of the last three modules: selective import, and an importer with a
		// method of its own that is called like the module's helper
		type extra struct {
			k    int
			name string
			main string
		}
		extras := []extra{}
		for k, m := range mms {
			if m.mod != person {
				continue
			}
			extras = append(extras,
				extra{k, "selective", "导入“模”之人、造人\n输出 " + m.probe + "\n"},
				extra{k, "same-named-helper-in-importer", "导入“模”之人、造人\n如何默认称呼？\n\t输出 “主氏”\n输出 " + m.probe + "\n"})
		}
		for _, e := range extras {
			mreqs = append(mreqs, Req{Op: "exec", Main: "main.zn", Libs: true, EvalBudget: 20000, ParseBudget: 20000, Files: []File{{Path: "main.zn", Data: widen([]byte(e.main))}, {Path: "模.zn", Data: widen([]byte(mms[e.k].mod))}}})
		}
		outs := make([]string, len(mreqs))
		c.runBatches(mreqs, 4, func(i int, req *Req, resp *Resp) {
			c.Eval()
			o := resp.Kind
			if resp.Kind == "value" && resp.Val != nil {
				o = resp.Val.String()
			} else if resp.Kind == "error" && resp.Err != nil {
				o = fmt.Sprintf("error %d (%s)", resp.Err.Code, resp.Err.Msg)
			}
			c.mu.Lock()
			outs[i] = o
			c.mu.Unlock()
		})
		for k, m := range mms {
			own, imported := outs[2*k], outs[2*k+1]
			c.Nontrivial("own-vs-imported|" + m.name + "|" + own)
			if strings.HasPrefix(own, "error") || own == "" {
				c.Inconclusive(fmt.Sprintf("own-vs-imported/%s: the module's own file does not run (%s) - the case is not a test", m.name, own))
			}
			if !strings.HasPrefix(own, "error") && own != "" && own != imported {
				c.Violation("modules:own-vs-imported:"+m.name, fmt.Sprintf("%s: %s yields %s at the end of the module's own file and %s when an importer makes the same call\n--- 模.zn\n%s", m.name, m.probe, own, imported, m.mod), map[string]interface{}{"req": mreqs[2*k+1]})
			}
		}
		for x, e := range extras {
			m := mms[e.k]
			own, imported := outs[2*e.k], outs[2*len(mms)+x]
			if os.Getenv("VERIF_DBG_C15") != "" {
				fmt.Printf("DBG %s %s own=%s imported=%s\n", m.name, e.name, own, imported)
			}
			if strings.HasPrefix(own, "error") || own == "" {
				c.Inconclusive(fmt.Sprintf("own-vs-imported/%s: the module's own file does not run (%s) - the case is not a test", m.name, own))
			}
			c.Nontrivial("own-vs-imported|" + m.name + "|" + e.name + "|" + own)
			if !strings.HasPrefix(own, "error") && own != "" && own != imported {
				c.Violation("modules:own-vs-imported:"+m.name+":"+e.name, fmt.Sprintf("%s (%s): %s yields %s at the end of the module's own file and %s in this importer\n--- main.zn\n%s--- 模.zn\n%s", m.name, e.name, m.probe, own, imported, e.main, m.mod), map[string]interface{}{"req": mreqs[2*len(mms)+x]})
			}
		}
		// … and the importer neither sees nor disturbs what the module keeps for itself
		type hp struct{ name, main, want, mod string }
		mod := mms[0].mod
		// (a module body that raises and handles its own exception has still run: what it had
		// declared up to there stays for its methods, as after a normal end)
		handled := "令计数 = 10\n如何取？\n\t输出 计数\n如何加？\n\t计数 = 计数 + 1\n\t输出 计数\n令半 = 计数 / 2\n抛出异常：“载入时”！\n令后 = 1\n\n拦截异常：\n\t（显示：“模已处理”）\n"
		hps := []hp{
			{"module-variable-not-exported", "导入“模”\n输出 税率\n", "error:42", mod},
			{"importer-variable-of-the-same-name", "导入“模”\n令税率 = 1\n输出【（含税：100），税率】\n", "list[num(105),num(1)]", mod},
			{"definition-inside-module-handler/not-exported", "导入“模”\n输出（救援）\n", "error:42", "如何报数？\n\t输出 1\n抛出异常：“x”！\n\n拦截异常：\n\t如何救援？\n\t\t输出 42\n\t（显示：（救援））\n"},
			{"definition-inside-module-handler/type-not-exported", "导入“模”\n输出（新建急救）之数\n", "error:42", "如何报数？\n\t输出 1\n抛出异常：“x”！\n\n拦截异常：\n\t定义急救：\n\t\t其数 = 7\n\t（显示：（新建急救）之数）\n"},
			{"definition-inside-module-handler/shadows-own-method", "导入“模”\n输出（报数）\n", "num(1)", "如何报数？\n\t输出 1\n抛出异常：“x”！\n\n拦截异常：\n\t如何报数？\n\t\t输出 2\n\t（显示：（报数））\n"},
			{"definition-inside-module-branch/not-exported", "导入“模”\n输出（内法）\n", "error:42", "如果 真：\n\t如何内法？\n\t\t输出 5\n\t（显示：（内法））\n如何外法？\n\t输出 6\n"},
			{"module-body-handled-its-exception", "导入“模”\n输出【（取），（加），（取）】\n", "list[num(10),num(11),num(11)]", handled},
			{"module-body-handled-its-exception/caller-has-handler", "导入“模”\n如何试？\n\t输出（取）\n\n\t拦截异常：\n\t\t输出 -1\n输出（试）\n", "num(10)", handled},
		}
		hreqs := []Req{}
		for _, h := range hps {
			hreqs = append(hreqs, Req{Op: "exec", Main: "main.zn", Libs: true, EvalBudget: 20000, ParseBudget: 20000, Files: []File{{Path: "main.zn", Data: widen([]byte(h.main))}, {Path: "模.zn", Data: widen([]byte(h.mod))}}})
		}
		c.runBatches(hreqs, 4, func(i int, req *Req, resp *Resp) {
			c.Eval()
			h := hps[i]
			got := resp.Kind
			if resp.Kind == "value" && resp.Val != nil {
				got = resp.Val.String()
			} else if resp.Kind == "error" && resp.Err != nil {
				got = fmt.Sprintf("error:%d", resp.Err.Code)
			}
			c.Nontrivial("module-private|" + h.name + "|" + got)
			if got != h.want {
				c.Violation("modules:private:"+h.name, fmt.Sprintf("%s: outcome %s, expected %s\n--- main.zn\n%s--- 模.zn\n%s", h.name, got, h.want, h.main, h.mod), map[string]interface{}{"req": req})
			}
		})
	}
	// "a missing module or library is an error" (and so are a cycle and two imports that collide)
	// wherever the failing 导入 stands - in the main file, in an imported module, in a module that
	// has a 拦截 block of its own (which handles the exceptions of its statements, not the failure
	// to load what it imports), behind a relay: the program ends with that error
	{
		hdl := "\n拦截异常：\n\t（显示：“模拦截”）\n"
		mods := map[string]string{
			"missing-module":  "导入“不存在”\n如何法？\n\t输出 1\n",
			"missing-library": "导入《@不存在的库》\n如何法？\n\t输出 1\n",
			"collision":       "导入“甲”之取值\n导入“乙”之取值\n如何法？\n\t输出 1\n",
			"cycle":           "导入“主”\n如何法？\n\t输出 1\n",
			"self-import":     "导入“模”\n如何法？\n\t输出 1\n",
		}
		wants := map[string]string{"missing-module": "error:60", "missing-library": "error:64", "collision": "error:43", "cycle": "error:63", "self-import": "error:63"}
		cases2 := []handFiles{}
		for _, mn := range SortedKeys(mods) {
			for _, withHandler := range []bool{false, true} {
				body := mods[mn]
				tag := "plain"
				if withHandler {
					body += "（显示：“模体”）\n" + hdl
					tag = "module-has-handler"
				}
				files := map[string]string{"主.zn": "导入“模”\n输出 “主完”\n", "main.zn": "导入“主”\n输出 “完”\n", "模.zn": body, "甲.zn": "如何取值？\n\t输出 1\n", "乙.zn": "如何取值？\n\t输出 2\n"}
				cases2 = append(cases2, handFiles{"failing-import/" + mn + "/" + tag, files, wants[mn]})
				// … and when the importer has a handler too, it is not an exception of *its* statements either
				files2 := map[string]string{}
				for k, v := range files {
					files2[k] = v
				}
				files2["主.zn"] = "导入“模”\n输出 “主完”\n\n拦截异常：\n\t输出 “主拦截”\n"
				cases2 = append(cases2, handFiles{"failing-import/" + mn + "/" + tag + "/importer-has-handler", files2, wants[mn]})
			}
		}
		c.runHandFiles("failing-import", cases2)
	}
	reqs := make([]Req, len(cases))
	for i, cs := range cases {
		reqs[i] = Req{Op: "exec", Main: "main.zn", Files: cs.files, Libs: true, EvalBudget: 50*cs.ref.Steps + 5000, ParseBudget: 200000}
	}
	c.runBatches(reqs, 40, func(i int, req *Req, resp *Resp) {
		c.Eval()
		cs := cases[i]
		status, diff := compareOutcome(cs.ref, resp)
		c.Count("module_"+status, 1)
		if status == "skip" {
			c.Count("skipped_unspecified", 1)
			return
		}
		oc := "value"
		if cs.ref.Err != nil {
			oc = "error:" + fmt.Sprint(errCode(cs.ref.Err))
		}
		c.Count("module_expected_"+oc, 1)
		c.Nontrivial(cs.shape + "|" + cs.desc + "|" + oc)
		// cycles must be reported as circular dependency (63), not only "some error"
		if z, ok := cs.ref.Err.(*zr.ZErr); ok && z.Code == 63 && status == "ok" {
			if resp.Err == nil || !strings.Contains(resp.Err.Text, "[63]") && resp.Err.Code != 63 {
				status, diff = "diff", fmt.Sprintf("import cycle must be reported as circular dependency (63), observed: %v", resp.Err)
			}
		}
		if status == "diff" {
			var sb strings.Builder
			for _, f := range cs.files {
				sb.WriteString("--- " + f.Path + "\n" + string(StringOfBytes(f.Data)))
			}
			c.Violation("modules:"+strings.SplitN(cs.shape, "/", 2)[0]+":"+cs.shape+"|"+cs.desc, fmt.Sprintf("graph [%s] (%s): %s\nreference: %s display=%q\nfiles:\n%s", cs.desc, cs.shape, diff, outcomeBrief(cs.ref), cs.ref.Display, clip(sb.String(), 1500)),
				map[string]interface{}{"req": req, "expected": outcomeBrief(cs.ref) + fmt.Sprintf(" display=%q", cs.ref.Display)})
		} else if i%700 == 0 {
			c.Sample(map[string]interface{}{"graph": cs.desc, "shape": cs.shape, "expected": outcomeBrief(cs.ref), "display": cs.ref.Display})
		}
	})
}

func errCode(e error) int {
	if z, ok := e.(*zr.ZErr); ok {
		return z.Code
	}
	return 0
}
