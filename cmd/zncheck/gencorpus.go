package main

// genCorpus returns n rendered generator programs (filled in once the generator exists).
func genCorpus(c *Ctx, n int) []string { return nil }
