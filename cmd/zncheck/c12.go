package main

import (
	"fmt"
	"math/rand"
	"strings"

	. "verif/internal/proto"
	zr "verif/internal/znref"
)

func init() { register("C12", "exploration", checkC12) }

// ---------------------------------------------------------------- API-level model

type c12Model struct {
	isList bool
	items  []Val
	keys   []string
	m      map[string]Val
}

func (m *c12Model) state() Val {
	if m.isList {
		return List(append([]Val{}, m.items...)...)
	}
	vals := []Val{}
	for _, k := range m.keys {
		vals = append(vals, m.m[k])
	}
	return Dict(append([]string{}, m.keys...), vals)
}

// apply returns (expected kind: ok/err/skip, expected value (nil = not judged))
func (m *c12Model) apply(st Step) (string, *Val) {
	v := func(x Val) *Val { return &x }
	argN := len(st.Args)
	if m.isList {
		n := len(m.items)
		switch st.Kind + ":" + st.Name {
		case "get:长度", "get:数目":
			return "ok", v(Num(float64(n)))
		case "get:首项":
			if n == 0 {
				return "skip", nil
			}
			return "ok", v(m.items[0])
		case "get:末项":
			if n == 0 {
				return "skip", nil
			}
			return "ok", v(m.items[n-1])
		case "get:逆序":
			r := []Val{}
			for i := n - 1; i >= 0; i-- {
				r = append(r, m.items[i])
			}
			return "ok", v(List(r...))
		case "set:首项":
			if n == 0 {
				return "skip", nil
			}
			m.items[0] = st.Args[0]
			return "ok", nil
		case "set:末项":
			if n == 0 {
				return "skip", nil
			}
			m.items[n-1] = st.Args[0]
			return "ok", nil
		case "call:后增":
			if argN != 1 {
				return "err", nil
			}
			m.items = append(m.items, st.Args[0])
			return "ok", nil
		case "call:前增":
			if argN != 1 {
				return "err", nil
			}
			m.items = append([]Val{st.Args[0]}, m.items...)
			return "ok", nil
		case "call:左移":
			if n == 0 {
				return "skip", nil
			}
			x := m.items[0]
			m.items = append([]Val{}, m.items[1:]...)
			return "ok", v(x)
		case "call:右移":
			if n == 0 {
				return "skip", nil
			}
			x := m.items[n-1]
			m.items = append([]Val{}, m.items[:n-1]...)
			return "ok", v(x)
		case "call:交换":
			if argN != 2 || st.Args[0].T != "num" || st.Args[1].T != "num" {
				return "err", nil
			}
			i, j := int(st.Args[0].F()), int(st.Args[1].F())
			if i < 1 || i > n || j < 1 || j > n {
				return "err", nil
			}
			m.items[i-1], m.items[j-1] = m.items[j-1], m.items[i-1]
			return "ok", nil
		case "call:合并":
			for _, a := range st.Args {
				if a.T != "list" && a.T != "self" {
					return "err", nil
				}
			}
			// concatenation of the arguments as they are at call time (the receiver may be one of them)
			snapshot := append([]Val{}, m.items...)
			for _, a := range st.Args {
				if a.T == "self" {
					m.items = append(m.items, snapshot...)
				} else {
					m.items = append(m.items, a.Items...)
				}
			}
			return "ok", nil
		case "call:包含":
			if argN != 1 {
				return "err", nil
			}
			for _, it := range m.items {
				if EqualUnordered(it, st.Args[0]) {
					return "ok", v(Bool(true))
				}
			}
			return "ok", v(Bool(false))
		case "call:寻找":
			if argN != 1 {
				return "err", nil
			}
			for i, it := range m.items {
				if EqualUnordered(it, st.Args[0]) {
					// either base is accepted (documentation is self-contradictory): encoded as a list of the two
					return "find", v(List(Num(float64(i)), Num(float64(i+1))))
				}
			}
			return "ok", v(Num(-1))
		}
		return "skip", nil
	}
	switch st.Kind + ":" + st.Name {
	case "get:长度", "get:数目":
		return "ok", v(Num(float64(len(m.keys))))
	case "get:所有索引":
		ks := []Val{}
		for _, k := range m.keys {
			ks = append(ks, Text(k))
		}
		return "ok", v(List(ks...))
	case "get:所有值":
		vs := []Val{}
		for _, k := range m.keys {
			vs = append(vs, m.m[k])
		}
		return "ok", v(List(vs...))
	case "call:写入":
		if argN != 2 || st.Args[0].T != "text" {
			return "err", nil
		}
		k := st.Args[0].S()
		if _, ok := m.m[k]; !ok {
			m.keys = append(m.keys, k)
		}
		m.m[k] = st.Args[1]
		return "ok", nil
	case "call:移除":
		if argN != 1 || st.Args[0].T != "text" {
			return "err", nil
		}
		k := st.Args[0].S()
		if _, ok := m.m[k]; ok {
			delete(m.m, k)
			for i, kk := range m.keys {
				if kk == k {
					m.keys = append(m.keys[:i:i], m.keys[i+1:]...)
					break
				}
			}
		}
		return "ok", nil
	}
	return "skip", nil
}

func c12Scalar(r *rand.Rand) Val {
	switch r.Intn(5) {
	case 0:
		return Text(fmt.Sprintf("文%d", r.Intn(4)))
	case 1:
		return Bool(r.Intn(2) == 0)
	case 2:
		return List(Num(float64(r.Intn(3))))
	}
	return Num(float64(r.Intn(5)))
}

func c12Step(r *rand.Rand, isList bool, n int) Step {
	if isList {
		switch r.Intn(14) {
		case 0:
			return Step{Kind: "get", Name: []string{"长度", "数目"}[r.Intn(2)]}
		case 1:
			return Step{Kind: "get", Name: "首项"}
		case 2:
			return Step{Kind: "get", Name: "末项"}
		case 3:
			return Step{Kind: "get", Name: "逆序"}
		case 4:
			return Step{Kind: "set", Name: []string{"首项", "末项"}[r.Intn(2)], Args: []Val{c12Scalar(r)}}
		case 5, 6:
			return Step{Kind: "call", Name: "后增", Args: []Val{c12Scalar(r)}}
		case 7:
			return Step{Kind: "call", Name: "前增", Args: []Val{c12Scalar(r)}}
		case 8:
			return Step{Kind: "call", Name: "左移"}
		case 9:
			return Step{Kind: "call", Name: "右移"}
		case 10:
			return Step{Kind: "call", Name: "交换", Args: []Val{Num(float64(r.Intn(n+4) - 1)), Num(float64(r.Intn(n+4) - 1))}}
		case 11:
			switch r.Intn(4) {
			case 0:
				return Step{Kind: "call", Name: "合并", Args: []Val{{T: "self"}}}
			case 1:
				return Step{Kind: "call", Name: "合并", Args: []Val{List(c12Scalar(r)), {T: "self"}, List(c12Scalar(r), c12Scalar(r))}}
			case 2:
				return Step{Kind: "call", Name: "合并", Args: []Val{List(c12Scalar(r)), List(), List(c12Scalar(r), c12Scalar(r))}}
			}
			return Step{Kind: "call", Name: "合并", Args: []Val{List(c12Scalar(r), c12Scalar(r))}}
		case 12:
			return Step{Kind: "call", Name: "包含", Args: []Val{c12Scalar(r)}}
		default:
			return Step{Kind: "call", Name: "寻找", Args: []Val{c12Scalar(r)}}
		}
	}
	k := Text(fmt.Sprintf("键%d", r.Intn(5)))
	switch r.Intn(7) {
	case 0:
		return Step{Kind: "get", Name: "长度"}
	case 1:
		return Step{Kind: "get", Name: "所有索引"}
	case 2:
		return Step{Kind: "get", Name: "所有值"}
	case 3, 4:
		return Step{Kind: "call", Name: "写入", Args: []Val{k, c12Scalar(r)}}
	case 5:
		return Step{Kind: "call", Name: "移除", Args: []Val{k}}
	default:
		return Step{Kind: "call", Name: "写入", Args: []Val{Num(1), c12Scalar(r)}} // wrong key type: must fail and change nothing
	}
}

func checkC12API(c *Ctx) {
	rng := c.Rand("c12api")
	type job struct {
		start Val
		steps []Step
	}
	jobs := []job{}
	starts := []Val{List(), List(Num(1)), List(Num(1), Num(2), Num(3)), Dict(nil, nil), Dict([]string{"键0"}, []Val{Num(1)}), Dict([]string{"键0", "键1", "键2"}, []Val{Num(1), Num(2), Num(3)})}
	// bounded exhaustive: all histories of length <= L over a fixed step alphabet
	listAlpha := []Step{{Kind: "get", Name: "长度"}, {Kind: "get", Name: "首项"}, {Kind: "get", Name: "末项"}, {Kind: "get", Name: "逆序"}, {Kind: "set", Name: "首项", Args: []Val{Num(9)}},
		{Kind: "call", Name: "后增", Args: []Val{Num(7)}}, {Kind: "call", Name: "前增", Args: []Val{Num(8)}}, {Kind: "call", Name: "左移"}, {Kind: "call", Name: "右移"},
		{Kind: "call", Name: "交换", Args: []Val{Num(1), Num(2)}}, {Kind: "call", Name: "交换", Args: []Val{Num(0), Num(4)}}, {Kind: "call", Name: "合并", Args: []Val{List(Num(5), Num(6))}}, {Kind: "call", Name: "合并", Args: []Val{List(Num(4)), {T: "self"}}},
		{Kind: "call", Name: "包含", Args: []Val{Num(7)}}, {Kind: "call", Name: "寻找", Args: []Val{Num(2)}}}
	dictAlpha := []Step{{Kind: "get", Name: "长度"}, {Kind: "get", Name: "所有索引"}, {Kind: "get", Name: "所有值"},
		{Kind: "call", Name: "写入", Args: []Val{Text("键0"), Num(9)}}, {Kind: "call", Name: "写入", Args: []Val{Text("键9"), Num(8)}}, {Kind: "call", Name: "移除", Args: []Val{Text("键0")}}, {Kind: "call", Name: "移除", Args: []Val{Text("键1")}}, {Kind: "call", Name: "移除", Args: []Val{Text("无")}}}
	L := c.Pick(3, 4)
	for _, st := range starts {
		alpha := listAlpha
		if st.T == "dict" {
			alpha = dictAlpha
		}
		var rec func(cur []Step)
		rec = func(cur []Step) {
			if len(cur) > 0 {
				jobs = append(jobs, job{st, append([]Step{}, cur...)})
			}
			if len(cur) == L {
				return
			}
			for _, a := range alpha {
				rec(append(cur, a))
			}
		}
		rec(nil)
	}
	c.Count("api_exhaustive_histories", int64(len(jobs)))
	for i := 0; i < c.Pick(4000, 300000); i++ {
		st := starts[rng.Intn(len(starts))]
		n := 5 + rng.Intn(55)
		steps := []Step{}
		sz := len(st.Items)
		for k := 0; k < n; k++ {
			steps = append(steps, c12Step(rng, st.T == "list", sz+k/3))
		}
		jobs = append(jobs, job{st, steps})
	}
	reqs := make([]Req, len(jobs))
	for i, j := range jobs {
		st := j.start
		reqs[i] = Req{Op: "api", Recv: &st, Steps: j.steps}
	}
	c.runBatches(reqs, 300, func(i int, req *Req, resp *Resp) {
		j := jobs[i]
		c.Eval()
		m := &c12Model{isList: j.start.T == "list", m: map[string]Val{}}
		if m.isList {
			m.items = append([]Val{}, j.start.Items...)
		} else {
			for k := range j.start.Items {
				m.keys = append(m.keys, j.start.Key(k))
				m.m[j.start.Key(k)] = j.start.Items[k]
			}
		}
		hk := ""
		for _, s := range j.steps {
			hk += s.Kind[:1] + s.Name + "/"
		}
		if len(j.steps) <= 4 {
			c.Nontrivial("api|" + j.start.String() + "|" + hk)
		} else {
			c.Nontrivial(fmt.Sprintf("api-long|%d|%s", len(j.steps), clip(hk, 60)))
		}
		rp := map[string]interface{}{"req": req}
		key := "api:" + j.start.T + ":" + j.start.String() + "|" + hk
		if resp.Kind != "ok" || len(resp.Steps) != len(j.steps) {
			c.Violation(key, fmt.Sprintf("history on %s: worker outcome %s %s", j.start.String(), resp.Kind, clip(resp.Panic+resp.Stderr, 300)), rp)
			return
		}
		for k, sr := range resp.Steps {
			st := j.steps[k]
			before := m.state()
			kind, want := m.apply(st)
			desc := fmt.Sprintf("step %d (%s %s %v) of history on %s", k+1, st.Kind, st.Name, st.Args, j.start.String())
			if kind == "skip" {
				// not judged: resynchronise the model with the observed state
				c.Count("api_steps_not_judged", 1)
				if sr.State != nil {
					resync(m, *sr.State)
				}
				continue
			}
			c.Count("api_steps_judged", 1)
			if sr.Kind == "panic" || sr.Kind == "nil" {
				c.Violation(key, desc+": "+sr.Kind+" "+clip(sr.Panic, 200), rp)
				return
			}
			if kind == "err" {
				if sr.Kind != "err" {
					c.Violation(key, desc+": must fail, observed "+sr.Kind, rp)
					return
				}
				if sr.State == nil || !Equal(*sr.State, before) {
					c.Violation(key, fmt.Sprintf("%s failed but changed the collection: %v, was %s", desc, sr.State, before.String()), rp)
					return
				}
				continue
			}
			if sr.Kind != "ok" {
				msg := ""
				if sr.Err != nil {
					msg = sr.Err.Msg
				}
				c.Violation(key, desc+": must succeed, observed "+sr.Kind+" "+msg, rp)
				return
			}
			if want != nil && sr.Val != nil {
				if kind == "find" {
					if !(Equal(*sr.Val, want.Items[0]) || Equal(*sr.Val, want.Items[1])) {
						c.Violation(key, fmt.Sprintf("%s returned %s, expected the position of the first match (%s or %s)", desc, sr.Val.String(), want.Items[0].String(), want.Items[1].String()), rp)
						return
					}
				} else if !Equal(*sr.Val, *want) {
					c.Violation(key, fmt.Sprintf("%s returned %s, expected %s", desc, sr.Val.String(), want.String()), rp)
					return
				}
			}
			exp := m.state()
			if sr.State == nil || !Equal(*sr.State, exp) {
				c.Violation(key, fmt.Sprintf("after %s the collection is %v, expected %s", desc, sr.State, exp.String()), rp)
				return
			}
			if !sr.OrderOK {
				c.Violation(key, "after "+desc+" the key order is not a duplicate-free permutation of the key set", rp)
				return
			}
		}
	})
}

func resync(m *c12Model, st Val) {
	if m.isList && st.T == "list" {
		m.items = append([]Val{}, st.Items...)
	}
	if !m.isList && st.T == "dict" {
		m.keys = nil
		m.m = map[string]Val{}
		for i := range st.Items {
			m.keys = append(m.keys, st.Key(i))
			m.m[st.Key(i)] = st.Items[i]
		}
	}
}

// ---------------------------------------------------------------- program-level histories

type c12Gen struct {
	r    *rand.Rand
	n    int
	feat map[string]bool
}

func (g *c12Gen) scalar() zr.Expr {
	if g.r.Intn(4) == 0 {
		return zr.S(fmt.Sprintf("文%d", g.r.Intn(4)))
	}
	return intLit(g.r.Intn(6))
}

func (g *c12Gen) observe(list bool, name string) []zr.Stmt {
	g.n++
	if list {
		iv, ev := fmt.Sprintf("序%d", g.n), fmt.Sprintf("项%d", g.n)
		out := []zr.Stmt{
			zr.Show(zr.S("列"), zr.N(name), zr.Member{Recv: zr.N(name), Prop: "长度"}),
			zr.Iter{Names: []string{iv, ev}, Over: zr.N(name), Body: []zr.Stmt{zr.Show(zr.S("遍"), zr.N(iv), zr.N(ev))}},
		}
		if g.r.Intn(2) == 0 {
			// iteration with passes cut short by 继续循环 / ended by 结束循环: in pass k the index is k
			// and the element is 集#k, whatever happened in earlier passes
			g.n++
			iv2, ev2 := fmt.Sprintf("序%d", g.n), fmt.Sprintf("项%d", g.n)
			m := 2 + g.r.Intn(2)
			skip := zr.If{Cond: zr.Bin{Op: "==", L: zr.Bin{Op: "%", L: zr.N(iv2), R: intLit(m)}, R: intLit(g.r.Intn(m))}, Then: []zr.Stmt{zr.Continue{}}}
			bodyStmts := []zr.Stmt{skip, zr.Show(zr.S("遍续"), zr.N(iv2), zr.N(ev2), zr.Index{Recv: zr.N(name), Idx: zr.Bin{Op: "+", L: zr.N(iv2), R: intLit(0)}})}
			if g.r.Intn(3) == 0 {
				bodyStmts = append(bodyStmts, zr.If{Cond: zr.Bin{Op: ">=", L: zr.N(iv2), R: intLit(3 + g.r.Intn(3))}, Then: []zr.Stmt{zr.Break{}}})
			}
			out = append(out, zr.Iter{Names: []string{iv2, ev2}, Over: zr.N(name), Body: bodyStmts})
			g.feat["iterate-continue"] = true
		}
		return out
	}
	kv, vv := fmt.Sprintf("键名%d", g.n), fmt.Sprintf("值%d", g.n)
	return []zr.Stmt{
		zr.Show(zr.S("典"), zr.N(name), zr.Member{Recv: zr.N(name), Prop: "长度"}, zr.Member{Recv: zr.N(name), Prop: "所有索引"}, zr.Member{Recv: zr.N(name), Prop: "所有值"}),
		zr.Iter{Names: []string{kv, vv}, Over: zr.N(name), Body: []zr.Stmt{zr.Show(zr.S("遍"), zr.N(kv), zr.N(vv))}},
	}
}

func (g *c12Gen) program(steps int) *zr.Program {
	r := g.r
	body := []zr.Stmt{}
	list := r.Intn(2) == 0
	name := "集"
	if list {
		l := zr.ListLit{}
		for i := 0; i < r.Intn(4); i++ {
			l.Items = append(l.Items, g.scalar())
		}
		body = append(body, zr.LetS(name, l))
	} else {
		d := zr.DictLit{}
		for i := 0; i < r.Intn(5); i++ {
			d.Keys = append(d.Keys, fmt.Sprintf("键%d", r.Intn(4))) // duplicates on purpose
			d.KeyForm = append(d.KeyForm, r.Intn(2))
			d.Vals = append(d.Vals, g.scalar())
		}
		body = append(body, zr.LetS(name, d))
		g.feat["dup-key-literal"] = true
	}
	body = append(body, g.observe(list, name)...)
	mc := func(m string, args ...zr.Expr) zr.Stmt {
		return zr.ExprStmt{E: zr.MCall{Recv: zr.N(name), Chain: []zr.CallPart{{Fn: m, Args: args}}}}
	}
	for s := 0; s < steps; s++ {
		var st []zr.Stmt
		if list {
			switch r.Intn(12) {
			case 0:
				st = []zr.Stmt{mc("后增", g.scalar()), zr.Show(zr.S("末"), zr.Member{Recv: zr.N(name), Prop: "末项"})}
				g.feat["后增+末项"] = true
			case 1:
				st = []zr.Stmt{mc("前增", g.scalar()), zr.Show(zr.S("首"), zr.Member{Recv: zr.N(name), Prop: "首项"})}
				g.feat["前增+首项"] = true
			case 2:
				st = []zr.Stmt{zr.Show(zr.S("移"), zr.MCall{Recv: zr.N(name), Chain: []zr.CallPart{{Fn: []string{"左移", "右移"}[r.Intn(2)]}}})}
				g.feat["shift"] = true
			case 3:
				st = []zr.Stmt{mc("交换", intLit(1+r.Intn(3)), intLit(1+r.Intn(3)))}
				g.feat["交换"] = true
			case 4:
				st = []zr.Stmt{zr.Show(zr.S("逆"), zr.Member{Recv: zr.N(name), Prop: "逆序"}), zr.Show(zr.S("逆逆"), zr.Member{Recv: zr.Member{Recv: zr.N(name), Prop: "逆序"}, Prop: "逆序"})}
				g.feat["逆序"] = true
			case 5:
				st = []zr.Stmt{mc("合并", zr.ListLit{Items: []zr.Expr{g.scalar(), g.scalar()}})}
				if r.Intn(3) == 0 {
					st = []zr.Stmt{mc("合并", zr.ListLit{Items: []zr.Expr{g.scalar()}}, zr.N(name), zr.ListLit{Items: []zr.Expr{g.scalar()}})}
					g.feat["合并-self"] = true
				}
				g.feat["合并"] = true
			case 6:
				x := g.scalar()
				st = []zr.Stmt{zr.Show(zr.S("含"), zr.MCall{Recv: zr.N(name), Chain: []zr.CallPart{{Fn: "包含", Args: []zr.Expr{x}}}}), zr.Show(zr.S("寻负"), zr.Bin{Op: "==", L: zr.MCall{Recv: zr.N(name), Chain: []zr.CallPart{{Fn: "寻找", Args: []zr.Expr{zr.S("绝无")}}}}, R: zr.Num{Lit: "-1", V: -1}})}
				g.feat["包含/寻找"] = true
			case 7, 8:
				st = []zr.Stmt{zr.Set(zr.Index{Recv: zr.N(name), Idx: intLit(r.Intn(6))}, g.scalar())}
				g.feat["index-write"] = true
			case 9, 10:
				st = []zr.Stmt{zr.Show(zr.S("读"), zr.Index{Recv: zr.N(name), Idx: intLit(r.Intn(6))})}
				g.feat["index-read"] = true
			case 11:
				st = []zr.Stmt{zr.LetS(fmt.Sprintf("抄%d", s), zr.N(name)), zr.Show(zr.S("抄"), zr.N(fmt.Sprintf("抄%d", s)))}
				g.feat["copy"] = true
			}
		} else {
			k := zr.S(fmt.Sprintf("键%d", r.Intn(5)))
			switch r.Intn(8) {
			case 0, 1:
				st = []zr.Stmt{zr.Set(zr.Index{Recv: zr.N(name), Idx: k}, g.scalar())}
				g.feat["key-write"] = true
			case 2:
				st = []zr.Stmt{zr.Show(zr.S("读"), zr.Index{Recv: zr.N(name), Idx: k})}
				g.feat["key-read"] = true
			case 3:
				st = []zr.Stmt{mc("移除", k)}
				g.feat["移除"] = true
			case 4:
				st = []zr.Stmt{mc("写入", k, g.scalar())}
				g.feat["写入"] = true
			case 5:
				st = []zr.Stmt{mc("移除", k), zr.Set(zr.Index{Recv: zr.N(name), Idx: k}, g.scalar())}
				g.feat["remove-reinsert"] = true
			case 6:
				st = []zr.Stmt{zr.Set(zr.Index{Recv: zr.N(name), Idx: intLit(r.Intn(3))}, g.scalar())}
				g.feat["numeric-key"] = true
			case 7:
				st = []zr.Stmt{zr.LetS(fmt.Sprintf("抄%d", s), zr.N(name)), zr.Show(zr.S("抄"), zr.N(fmt.Sprintf("抄%d", s)))}
				g.feat["copy"] = true
			}
		}
		trial := append(append([]zr.Stmt{}, body...), st...)
		trial = append(trial, g.observe(list, name)...)
		res := zr.NewInterp().Run(&zr.Program{Body: trial})
		if res.Err != nil {
			if _, unspec := res.Err.(*zr.Unspec); unspec || r.Intn(100) < 85 {
				continue
			}
			body = trial
			g.feat["ends-in-error"] = true
			break
		}
		body = trial
	}
	return &zr.Program{Body: body}
}

// unchanged-after-failure probes: the failing operation runs inside a method whose handler
// displays the collection it received
func c12FailureProbes() ([]*zr.Program, []string) {
	progs := []*zr.Program{}
	shapes := []string{}
	colls := map[string]zr.Expr{
		"empty-list": zr.ListLit{}, "list3": zr.ListLit{Items: []zr.Expr{intLit(1), intLit(2), intLit(3)}},
		"empty-dict": zr.DictLit{}, "dict2": zr.DictLit{Keys: []string{"甲", "乙"}, KeyForm: []int{0, 0}, Vals: []zr.Expr{intLit(1), intLit(2)}},
	}
	for cn, ce := range colls {
		isList := strings.Contains(cn, "list")
		var ops []zr.Stmt
		var names []string
		if isList {
			for _, i := range []int{-1, 0, 4, 5, 100} {
				ops = append(ops, zr.Set(zr.Index{Recv: zr.N("集"), Idx: zr.Num{Lit: fmt.Sprint(i), V: float64(i)}}, intLit(9)))
				names = append(names, fmt.Sprintf("write#%d", i))
				ops = append(ops, zr.Show(zr.S("读"), zr.Index{Recv: zr.N("集"), Idx: zr.Num{Lit: fmt.Sprint(i), V: float64(i)}}))
				names = append(names, fmt.Sprintf("read#%d", i))
			}
			ops = append(ops, zr.ExprStmt{E: zr.MCall{Recv: zr.N("集"), Chain: []zr.CallPart{{Fn: "交换", Args: []zr.Expr{intLit(1), intLit(9)}}}}})
			names = append(names, "swap-out-of-range")
			ops = append(ops, zr.Show(zr.S("读"), zr.Index{Recv: zr.N("集"), Idx: zr.S("键")}))
			names = append(names, "read-text-index")
		} else {
			ops = append(ops, zr.Show(zr.S("读"), zr.Index{Recv: zr.N("集"), Idx: zr.S("缺")}))
			names = append(names, "read-missing-key")
			ops = append(ops, zr.Show(zr.S("读"), zr.Index{Recv: zr.N("集"), Idx: intLit(1)}))
			names = append(names, "read-missing-numeric-key")
		}
		for k, op := range ops {
			fd := &zr.FuncDef{Name: "试", Params: []string{"集"}, Body: []zr.Stmt{zr.Show(zr.S("前"), zr.N("集")), op, zr.Show(zr.S("not-reached")), zr.Return{E: intLit(0)}},
				Catches: []zr.Catch{{Class: "异常", Body: []zr.Stmt{zr.Show(zr.S("后"), zr.N("集"), zr.Member{Recv: zr.N("集"), Prop: "长度"}), zr.Return{E: intLit(-1)}}}}}
			progs = append(progs, &zr.Program{Body: []zr.Stmt{fd, zr.LetS("原", ce), zr.Show(zr.S("r"), zr.CallE("试", zr.N("原"))), zr.Show(zr.S("原"), zr.N("原"))}})
			shapes = append(shapes, "fail/"+cn+"/"+names[k])
		}
	}
	return progs, shapes
}

// c12Derived: "a read returns the last value written at that position or key": what 逆序, 所有值,
// 所有索引, 首项 / 末项 hand out are values of their own - changing them in place, or through a loop
// over them, writes no position or key of the collection they were taken from (hand-written
// programs, expected display written down)
func c12Derived(c *Ctx) {
	type hp struct{ name, src, want string }
	hps := []hp{
		{"reverse/nested-item-appended", "令集 = 【【1】，【2】】\n以集之逆序#1（后增：5）\n输出 集\n", "list[list[num(1)],list[num(2)]]"},
		{"reverse/number-changed-in-loop", "令集 = 【1，2，3】\n以项遍历 集之逆序：\n\t以项（自增：10）\n输出 集\n", "list[num(1),num(2),num(3)]"},
		{"reverse/twice-then-write", "令集 = 【【1】，【2】】\n令反 = 集之逆序之逆序\n以反#1（后增：7）\n输出【集，反】\n", "list[list[list[num(1)],list[num(2)]],list[list[num(1),num(7)],list[num(2)]]]"},
		{"values/nested-item-appended", "令典 = 【“a” = 1，“b” = 【1】】\n以典之所有值#2（后增：5）\n输出 典\n", `dict["a"=num(1),"b"=list[num(1)]]`},
		{"values/number-changed-in-loop", "令典 = 【“a” = 1，“b” = 2】\n以项遍历 典之所有值：\n\t以项（自增：10）\n输出 典\n", `dict["a"=num(1),"b"=num(2)]`},
		{"values/dict-item-written", "令典 = 【“a” = 【“x” = 1】】\n令值 = 典之所有值\n值#1#“x” = 9\n输出 典\n", `dict["a"=dict["x"=num(1)]]`},
		{"first-item/appended", "令集 = 【【1】，【2】】\n以集之首项（后增：5）\n以集之末项（后增：6）\n输出 集\n", "list[list[num(1),num(5)],list[num(2),num(6)]]|list[list[num(1)],list[num(2)]]"},
		{"several-names/list-written-through-one", "令甲、乙 = 【1，2，3】\n甲#1 = 100\n以甲（后增：4）\n输出【甲，乙，乙之长度】\n", "list[list[num(100),num(2),num(3),num(4)],list[num(1),num(2),num(3)],num(3)]"},
		{"several-names/empty-list", "令甲、乙 = 【】\n以甲（后增：“x”）\n输出【甲之长度，乙之长度】\n", "list[num(1),num(0)]"},
		{"several-names/dictionary", "令丙、丁 = 【“a” = 1，“b” = 2】\n丙#“c” = 3\n丙#“a” = 10\n以丙（移除：“b”）\n输出【丙，丁，丁之所有索引】\n", `list[dict["a"=num(10),"c"=num(3)],dict["a"=num(1),"b"=num(2)],list[text("a"),text("b")]]`},
		{"several-names/constant-and-block", "令：\n\t甲、乙 恒为 【1，2】\n以甲（左移）\n输出【甲，乙】\n", "list[list[num(2)],list[num(1),num(2)]]|error:*"},
		{"length/list-count-changed-in-place", "令集 = 【1，2，3】\n以集之长度（自增：1）\n以集之数目（自减：2）\n输出【集之长度，集之数目，集】\n", "list[num(3),num(3),list[num(1),num(2),num(3)]]"},
		{"length/dictionary-count-changed-in-place", "令典 = 【“a” = 1，“b” = 2】\n以典之长度（自增：5）\n以典之长度（自增：5）\n输出【典之长度，典之所有索引之长度，典】\n", `list[num(2),num(2),dict["a"=num(1),"b"=num(2)]]`},
		{"length/changed-then-list-grows", "令集 = 【1】\n以集之长度（自增：10）\n以集（后增：2）\n以集之长度（自增：10）\n以集（后增：3）\n输出【集之长度，集之数目】\n", "list[num(3),num(3)]"},
		{"length/empty-collections", "令集 = 【】\n令典 = 【=】\n以集之长度（自增：1）\n以典之长度（自增：1）\n输出【集之长度，典之长度，集，典】\n", "list[num(0),num(0),list[],dict[]]"},
		{"length/through-loop-variable", "令集 = 【1，2】\n以数遍历【集之长度，集之数目】：\n\t以数（自增：7）\n输出【集之长度，集之数目】\n", "list[num(2),num(2)]"},
		{"length/as-argument-changed-by-callee", "如何动？\n\t输入数\n\t以数（自增：9）\n\t输出 数\n令集 = 【1，2】\n令典 = 【“a” = 1】\n令果 = 【（动：集之长度），（动：典之长度）】\n输出【果，集之长度，典之长度】\n", "list[list[num(11),num(10)],num(2),num(1)]"},
		{"text-form/changed-in-place", "令集 = 【1，2】\n令文 = 集之文本\n输出【集之文本 为 文，集之文本 为 集之文本】\n", "list[bool(true),bool(true)]"},
		{"reverse/read-twice-independent", "令集 = 【【1】，【2】】\n令一 = 集之逆序\n令二 = 集之逆序\n以一#1（后增：9）\n输出【一，二，集】\n", "list[list[list[num(2),num(9)],list[num(1)]],list[list[num(2)],list[num(1)]],list[list[num(1)],list[num(2)]]]"},
		{"copy/dictionary-number-entry-changed-in-place", "令原表 = 【“甲” = 1，“乙” = 2】\n令副本 = 原表\n以原表#“甲”（自增：10）\n输出【原表，副本，副本#“甲”，副本之所有值】\n", `list[dict["甲"=num(11),"乙"=num(2)],dict["甲"=num(1),"乙"=num(2)],num(1),list[num(1),num(2)]]`},
		{"copy/dictionary-number-entry-changed-on-the-copy", "令原表 = 【“甲” = 1，“乙” = 【“丙” = 3】】\n令副本 = 原表\n以副本#“甲”（自减：1）\n以副本#“乙”#“丙”（自增：1）\n输出【原表，副本】\n", `list[dict["甲"=num(1),"乙"=dict["丙"=num(3)]],dict["甲"=num(0),"乙"=dict["丙"=num(4)]]]`},
		{"copy/list-number-item-changed-in-place", "令原 = 【1，【2，3】】\n令副 = 原\n以原#1（自增：10）\n以原#2#1（自增：10）\n输出【原，副，副#1】\n", "list[list[num(11),list[num(12),num(3)]],list[num(1),list[num(2),num(3)]],num(1)]"},
		{"copy/dictionary-stored-in-a-list", "令原表 = 【“甲” = 1】\n令册 = 【】\n以册（后增：原表）\n以原表#“甲”（自增：5）\n输出【册，原表】\n", `list[list[dict["甲"=num(1)]],dict["甲"=num(6)]]`},
		{"copy/dictionary-as-a-literal-item", "令原表 = 【“甲” = 1】\n令外 = 【“内” = 原表，“数” = 原表#“甲”】\n以原表#“甲”（自增：5）\n输出【外，原表】\n", `list[dict["内"=dict["甲"=num(1)],"数"=num(1)],dict["甲"=num(6)]]`},
		{"copy/values-of-a-copied-dictionary-in-a-loop", "令原表 = 【“甲” = 1，“乙” = 2】\n令副本 = 原表\n以键、值遍历副本之所有值：\n\t以值（自增：100）\n输出【原表，副本】\n", `list[dict["甲"=num(1),"乙"=num(2)],dict["甲"=num(1),"乙"=num(2)]]`},
		{"write/value-expression-shortens-the-list", "令甲 = 【1，2，3】\n甲#{甲之长度} = 以甲（右移）\n输出【甲，甲之长度】\n", "list[list[num(1),num(3)],num(2)]"},
		{"write/value-expression-rebinds-the-list", "令乙 = 【1，2】\n如何重置？\n\t乙 = 【4，5，6】\n\t输出 0\n乙#1 = （重置）\n输出【乙#1，乙】\n", "list[num(0),list[num(0),num(5),num(6)]]"},
		{"write/value-expression-rebinds-the-dictionary", "令丁 = 【“a” = 1】\n如何换新？\n\t丁 = 【“z” = 0】\n\t输出 3\n丁#“c” = （换新）\n输出【丁#“c”，丁之所有索引，丁之长度】\n", `list[num(3),list[text("z"),text("c")],num(2)]`},
		{"write/value-expression-grows-the-list", "令甲 = 【1】\n甲#2 = 以甲（后增：7）#1\n输出 甲\n", "list[num(1),num(1)]"},
		{"copy/entry-removed-from-the-copy", "令甲 = 【“a” = 1，“b” = 2，“c” = 3】\n令乙 = 甲\n以乙（移除：“a”）\n输出【甲之所有索引，甲之长度，甲之所有值，甲，乙之所有索引】\n", `list[list[text("a"),text("b"),text("c")],num(3),list[num(1),num(2),num(3)],dict["a"=num(1),"b"=num(2),"c"=num(3)],list[text("b"),text("c")]]`},
		{"copy/entry-removed-from-the-original", "令甲 = 【“a” = 1，“b” = 2，“c” = 3】\n令乙 = 甲\n以甲（移除：“b”）\n输出【乙之所有索引，乙，甲之所有索引】\n", `list[list[text("a"),text("b"),text("c")],dict["a"=num(1),"b"=num(2),"c"=num(3)],list[text("a"),text("c")]]`},
		{"copy/last-entry-removed-then-new-key", "令甲 = 【“a” = 1，“b” = 2，“c” = 3】\n令乙 = 甲\n以乙（移除：“c”）\n乙#“z” = 9\n输出【甲之所有索引，乙之所有索引】\n", `list[list[text("a"),text("b"),text("c")],list[text("a"),text("b"),text("z")]]`},
		{"copy/new-keys-on-both-sides", "令甲 = 【“a” = 1，“b” = 2，“c” = 3】\n令乙 = 甲\n甲#“p” = 1\n乙#“q” = 2\n甲#“r” = 3\n输出【甲之所有索引，乙之所有索引】\n", `list[list[text("a"),text("b"),text("c"),text("p"),text("r")],list[text("a"),text("b"),text("c"),text("q")]]`},
		{"copy/stored-in-a-list-then-entry-removed", "令甲 = 【“a” = 1，“b” = 2，“c” = 3】\n令册 = 【甲】\n以册#1（移除：“a”）\n以甲（移除：“c”）\n输出【甲之所有索引，册#1之所有索引】\n", `list[list[text("a"),text("b")],list[text("b"),text("c")]]`},
		{"keys/changed-in-loop", "令典 = 【“a” = 1，“b” = 2】\n令键 = 典之所有索引\n以键（后增：“c”）\n输出【典之所有索引，典之长度】\n", `list[list[text("a"),text("b")],num(2)]`},
	}
	reqs := []Req{}
	for _, h := range hps {
		reqs = append(reqs, execReq(h.src))
	}
	c.runBatches(reqs, 8, func(i int, req *Req, resp *Resp) {
		c.Eval()
		h := hps[i]
		got := resp.Kind
		if resp.Kind == "value" && resp.Val != nil {
			got = resp.Val.String()
		} else if resp.Kind == "error" && resp.Err != nil {
			got = fmt.Sprintf("error:%d %s", resp.Err.Code, resp.Err.Msg)
		}
		c.Nontrivial("derived|" + h.name + "|" + resp.Kind)
		ok := false
		for _, w := range strings.Split(h.want, "|") {
			if got == w {
				ok = true
			}
		}
		if !ok {
			c.Violation("derived:"+h.name, fmt.Sprintf("%s: the program yields %s, expected %s\nprogram:\n%s", h.name, got, h.want, h.src), map[string]interface{}{"req": req})
		}
	})
}

func checkC12(c *Ctx) {
	c.rule = "(1) element-API histories on lists and dictionaries: all histories up to length 3 (quick) / 4 (thorough) over 14 list and 8 dictionary operations from {empty, 1, 3 elements}, plus random histories of length 5..60; after every step the returned value, the whole collection and the key-order invariant (duplicate-free permutation of the key set) are compared with a sequence / ordered-map model, failing operations must leave the collection unchanged; (2) the same as Zn programs: after every operation the display, 长度, 所有索引/所有值 and the 遍历 trace are compared with the reference evaluator (dictionary literals with duplicate keys, remove+reinsert, numeric keys, # reads/writes in and out of range, 逆序 twice, 后增+末项, copies); (3) failure probes: out-of-range / missing-key operations inside a method whose handler displays the collection; (4) 生成JSON key order equals insertion order; (5) hand-written programs that change what 逆序 / 所有值 / 所有索引 hand out (in place, through a loop, through an index) and then read the collection they were taken from. distinct_nontrivial = distinct histories (short ones exactly, long ones by length+prefix) / feature sets"
	c.assumptions = []string{"寻找 may report the first match in either base (草案07 contradicts itself); 新增, 读取, 拼接, 首项/末项/左移/右移 on empty lists are not judged", "indices are integers"}
	checkC12API(c)
	c12Derived(c)
	rng := c.Rand("c12")
	var progs []*zr.Program
	var shapes []string
	fp, fs := c12FailureProbes()
	progs = append(progs, fp...)
	shapes = append(shapes, fs...)
	c.Count("failure_probe_programs", int64(len(fp)))
	for i := 0; i < c.Pick(2500, 150000); i++ {
		g := &c12Gen{r: rng, feat: map[string]bool{}}
		steps := 3 + rng.Intn(c.Pick(12, 40))
		progs = append(progs, g.program(steps))
		shapes = append(shapes, fmt.Sprintf("hist/%d/%s", steps/5, featureKey(g.feat)))
	}
	var inputs []map[string]Val
	c.runRefCases("coll", progs, inputs, shapes, nil, nil)

	// (4) generated JSON follows insertion order
	jreqs := []Req{}
	jwant := []string{}
	for i := 0; i < c.Pick(600, 30000); i++ {
		n := 1 + rng.Intn(6)
		keys := []string{}
		vals := []Val{}
		seen := map[string]bool{}
		for k := 0; k < n; k++ {
			key := fmt.Sprintf("%c%d", "zyxabc"[rng.Intn(6)], rng.Intn(20))
			if seen[key] {
				continue
			}
			seen[key] = true
			keys = append(keys, key)
			vals = append(vals, Num(float64(k)))
		}
		// remove + reinsert the first key in the program so that it must move to the end
		src := "导入《@JSON》\n输入典\n令首 = 典#“" + keys[0] + "”\n以典（移除：“" + keys[0] + "”）\n典#“" + keys[0] + "” = 首\n典#“" + keys[len(keys)-1] + "” = 99\n输出（生成JSON：典）\n"
		r := execReq(src)
		r.Libs = true
		r.Inputs = map[string]Val{"典": Dict(keys, vals)}
		jreqs = append(jreqs, r)
		order := append(append([]string{}, keys[1:]...), keys[0])
		if len(keys) == 1 {
			order = keys
		}
		jwant = append(jwant, strings.Join(order, ","))
	}
	c.runBatches(jreqs, 200, func(i int, req *Req, resp *Resp) {
		c.Eval()
		c.Nontrivial("jsonorder|" + jwant[i])
		if resp.Kind != "value" || resp.Val.T != "text" {
			c.Violation("jsonorder:outcome:"+jwant[i], fmt.Sprintf("生成JSON program: outcome %s %v", resp.Kind, resp.Err), map[string]interface{}{"req": req})
			return
		}
		txt := resp.Val.S()
		pos := -1
		for _, k := range strings.Split(jwant[i], ",") {
			p := strings.Index(txt, "\""+k+"\":")
			if p < 0 || p < pos {
				c.Violation("jsonorder:order:"+jwant[i], fmt.Sprintf("generated JSON %s does not list the keys in insertion order %s", clip(txt, 200), jwant[i]), map[string]interface{}{"req": req})
				return
			}
			pos = p
		}
	})
}
