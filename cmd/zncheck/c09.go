package main

import (
	"fmt"
	"strings"

	. "verif/internal/proto"
	zr "verif/internal/znref"
)

func init() { register("C09", "exploration", checkC09) }

// raise kinds
var c09Raises = []string{"throw", "throw-custom", "div0", "index", "undefined", "type", "atoi", "key", "method-missing", "arity", "fmt-open", "fmt-count", "bad-id", "ctor-arity", "ctor-throw", "ctor-fault"}

func c09RaiseStmt(kind string, tag string) zr.Stmt {
	switch kind {
	case "throw":
		return zr.Throw{Class: "异常", Args: []zr.Expr{zr.S("boom-" + tag)}}
	case "throw-custom":
		return zr.Throw{Class: "自定错", Args: []zr.Expr{zr.S("custom-" + tag), intLit(7)}}
	case "div0":
		return zr.LetS("坏"+tag, zr.Bin{Op: "/", L: intLit(1), R: intLit(0)})
	case "index":
		return zr.Show(zr.Index{Recv: zr.ListLit{Items: []zr.Expr{intLit(1)}}, Idx: intLit(3)})
	case "undefined":
		return zr.Show(zr.N("未名" + tag))
	case "type":
		return zr.Show(zr.Bin{Op: "*", L: zr.S("a"), R: intLit(2)})
	case "atoi":
		return zr.Show(zr.MCall{Recv: zr.S("12x"), Chain: []zr.CallPart{{Fn: "转换数值"}}})
	case "key":
		return zr.Show(zr.Index{Recv: zr.DictLit{Keys: []string{"甲"}, KeyForm: []int{0}, Vals: []zr.Expr{intLit(1)}}, Idx: zr.S("缺")})
	case "method-missing":
		return zr.ExprStmt{E: zr.MCall{Recv: intLit(5), Chain: []zr.CallPart{{Fn: "缺失"}}}}
	case "arity":
		return zr.ExprStmt{E: zr.CallE("层0", intLit(1), intLit(2), intLit(3), intLit(4), intLit(5))}
	case "fmt-open": // malformed template (C14: an error); whether 拦截异常 may take it is left open
		return zr.Show(zr.Bin{Op: "%", L: zr.S("{"), R: zr.ListLit{}})
	case "fmt-count":
		return zr.Show(zr.Bin{Op: "%", L: zr.S("{}{}"), R: zr.ListLit{Items: []zr.Expr{intLit(1)}}})
	case "ctor-arity": // a user-defined constructor called with too few arguments
		return zr.LetS("物"+tag, zr.New{Class: "自定错", Args: []zr.Expr{zr.S("only-one")}})
	case "ctor-throw": // a constructor whose body raises
		return zr.LetS("物"+tag, zr.New{Class: "炸", Args: []zr.Expr{intLit(1)}})
	case "ctor-fault": // a constructor whose body hits a runtime fault
		return zr.LetS("物"+tag, zr.New{Class: "炸", Args: []zr.Expr{intLit(0)}})
	case "bad-id": // C04: starts like a number, is not one: rejected
		return zr.Show(zr.N("3x7"))
	}
	return zr.Empty{}
}

func raiseClass(kind string) string {
	if kind == "throw-custom" {
		return "自定错"
	}
	return "异常"
}

// c09Chain builds: main -> 层1 -> 层2 -> … -> 层d (raises). A handler for class hc sits at level h
// (0 = main program). Every level displays marks before/after its call and its parameter.
// c09Opts: optional second stage - the handler at level h itself raises hRaise (a raise kind) and a
// handler at level outerH < h (class 异常, with 输出) deals with that second exception.
type c09Opts struct {
	hRaise string
	outerH int
}

var c09Extra *c09Opts

func c09Chain(d int, raise string, h int, hc string, handlerReturns bool, inLoop bool, asMethod bool) *zr.Program {
	body := []zr.Stmt{}
	custom := zr.ClassDef{Name: "自定错", Props: []zr.PropDef{{Name: "内容", Val: zr.S("")}, {Name: "码", Val: intLit(0)}}}
	cctor := &zr.FuncDef{Name: "自定错", Ctor: true, Params: []string{"文", "号"}, Body: []zr.Stmt{zr.Set(zr.ThisProp{Prop: "内容"}, zr.N("文")), zr.Set(zr.ThisProp{Prop: "码"}, zr.N("号"))}}
	body = append(body, custom)
	if raise == "ctor-throw" || raise == "ctor-fault" || (c09Extra != nil && (c09Extra.hRaise == "ctor-throw" || c09Extra.hRaise == "ctor-fault")) {
		body = append(body, zr.ClassDef{Name: "炸", Props: []zr.PropDef{{Name: "值", Val: intLit(0)}}},
			&zr.FuncDef{Name: "炸", Ctor: true, Params: []string{"量"}, Body: []zr.Stmt{
				zr.Show(zr.S("in-ctor"), zr.N("量")),
				zr.If{Cond: zr.Bin{Op: "==", L: zr.N("量"), R: intLit(0)}, Then: []zr.Stmt{zr.Set(zr.ThisProp{Prop: "值"}, zr.Bin{Op: "/", L: intLit(1), R: zr.N("量")})}},
				zr.Throw{Class: "异常", Args: []zr.Expr{zr.S("ctor-boom")}},
			}})
	}
	holder := zr.ClassDef{Name: "持有", Props: []zr.PropDef{{Name: "记", Val: intLit(100)}}}
	handler := func(level int) []zr.Catch {
		if c09Extra != nil && level == c09Extra.outerH && level != h {
			cls := "异常"
			if c09Extra.hRaise == "throw-custom" {
				cls = "自定错"
			}
			return []zr.Catch{{Class: cls, Body: []zr.Stmt{zr.Show(zr.S(fmt.Sprintf("outer-handler@%d", level))), zr.Return{E: intLit(-50 - level)}}}}
		}
		if level != h {
			return nil
		}
		hb := []zr.Stmt{zr.Show(zr.S(fmt.Sprintf("handler@%d", level)))}
		if raise == "throw" || raise == "throw-custom" {
			hb = append(hb, zr.Show(zr.S("msg"), zr.ThisProp{Prop: "内容"}))
		}
		if raise == "throw-custom" && hc == "自定错" {
			hb = append(hb, zr.Show(zr.S("code"), zr.ThisProp{Prop: "码"}))
		}
		if level > 0 {
			hb = append(hb, zr.Show(zr.S("param-in-handler"), zr.N(fmt.Sprintf("参%d", level))))
		}
		if c09Extra != nil && c09Extra.hRaise != "" {
			hb = append(hb, zr.Show(zr.S("handler-raises")), c09RaiseStmt(c09Extra.hRaise, "h"), zr.Show(zr.S("after-handler-raise")))
		}
		if handlerReturns {
			hb = append(hb, zr.Return{E: intLit(-level - 1)})
		}
		// a second, non-matching handler in front
		other := "异常"
		if hc == "异常" {
			other = "自定错"
		}
		return []zr.Catch{{Class: other, Body: []zr.Stmt{zr.Show(zr.S("wrong-handler")), zr.Return{E: intLit(-99)}}}, {Class: hc, Body: hb}}
	}
	// level 0 function used by the "arity" raise
	body = append(body, &zr.FuncDef{Name: "层0", Params: []string{"参0"}, Body: []zr.Stmt{zr.Show(zr.S("层0-body")), zr.Return{E: zr.N("参0")}}})
	for level := d; level >= 1; level-- {
		p := fmt.Sprintf("参%d", level)
		fb := []zr.Stmt{zr.Show(zr.S(fmt.Sprintf("enter%d", level)), zr.N(p)), zr.LetS(fmt.Sprintf("局%d", level), zr.Bin{Op: "*", L: zr.N(p), R: intLit(2)})}
		if level == d {
			if inLoop {
				fb = append(fb, zr.Iter{Names: []string{"轮"}, Over: zr.ListLit{Items: []zr.Expr{intLit(1), intLit(2), intLit(3)}}, Body: []zr.Stmt{
					zr.Show(zr.S("loop"), zr.N("轮")),
					zr.If{Cond: zr.Bin{Op: "==", L: zr.N("轮"), R: intLit(2)}, Then: []zr.Stmt{c09RaiseStmt(raise, "x")}},
				}})
			} else {
				fb = append(fb, c09RaiseStmt(raise, "x"))
			}
			fb = append(fb, zr.Show(zr.S("after-raise")))
		} else {
			next := zr.CallE(fmt.Sprintf("层%d", level+1), zr.Bin{Op: "+", L: zr.N(p), R: intLit(1)})
			next.Yield = fmt.Sprintf("果%d", level)
			fb = append(fb, zr.ExprStmt{E: next}, zr.Show(zr.S(fmt.Sprintf("back%d", level)), zr.N(fmt.Sprintf("果%d", level)), zr.N(fmt.Sprintf("局%d", level)), zr.N(p)))
			if asMethod && level == 1 {
				fb = append(fb, zr.Show(zr.S("this-after"), zr.ThisProp{Prop: "记"}))
			}
		}
		fb = append(fb, zr.Return{E: zr.Bin{Op: "+", L: zr.N(p), R: intLit(10 * level)}})
		fd := &zr.FuncDef{Name: fmt.Sprintf("层%d", level), Params: []string{p}, Body: fb, Catches: handler(level)}
		if asMethod && level == 1 {
			holder.Methods = append(holder.Methods, fd)
		} else {
			body = append(body, fd)
		}
	}
	if asMethod {
		body = append([]zr.Stmt{holder}, body...)
	}
	body = append(body, cctor)
	// main
	body = append(body, zr.LetS("主变", intLit(5)), zr.Show(zr.S("main-start")))
	if d == 0 {
		body = append(body, c09RaiseStmt(raise, "m"), zr.Show(zr.S("after-raise")))
	} else if asMethod {
		body = append(body, zr.LetS("物", zr.New{Class: "持有"}),
			zr.ExprStmt{E: zr.MCall{Recv: zr.N("物"), Chain: []zr.CallPart{{Fn: "层1", Args: []zr.Expr{intLit(1)}}}, Yield: "主果"}},
			zr.Show(zr.S("main-back"), zr.N("主果"), zr.N("主变"), zr.Member{Recv: zr.N("物"), Prop: "记"}))
	} else {
		cl := zr.CallE("层1", intLit(1))
		cl.Yield = "主果"
		body = append(body, zr.ExprStmt{E: cl}, zr.Show(zr.S("main-back"), zr.N("主果"), zr.N("主变")))
	}
	if d > 0 {
		// the call machinery still works, to the same depth
		body = append(body, zr.Show(zr.S("again"), zr.CallE("层0", intLit(9))))
	}
	body = append(body, zr.Return{E: zr.N("主变")})
	return &zr.Program{Body: body, Catches: handler(0)}
}

func checkC09(c *Ctx) {
	c.rule = "programs: (a) fixed families: call chains of depth 0..4 whose innermost body raises one of 16 raise kinds (a constructor called with too few arguments / whose body raises / faults, 抛出 of 异常 / custom type, ÷0, index, key, undefined name, type error, failing 转换数值, missing method, arity, malformed % template, % argument count, number-like invalid identifier - the last three only judged where no handler of 异常 is on the way) optionally inside a loop, with a matching or non-matching handler (preceded by a wrong-class handler) at every level 0..depth, with/without 输出 in the handler, function or type-method callers; marks before/after every call, follow-up probes of locals, parameters, 其 and a further call after the handler ran; variants probing callee locals that must be undefined; nested families where the handler itself raises and a handler further out takes over; (b) random programs with 抛出, runtime faults, handlers on methods and program; (c) uncaught custom exceptions whose 内容 is a text, integer, boolean, list, dictionary or decimal, raised directly, through one / two methods or from a handler: the program ends with that value as its message (written down for texts and integers, non-empty otherwise); (c2) a definition whose evaluation raises (a default property that faults / throws) is taken by the handler of its body: main program, method body, imported module body, module behind a relay; (d) endurance: 90000 exceptions handled one after the other (a fault inside a nested expression of a method, a throw that crosses an argument and an index, a fault in a type method, a handler in a callee of the looping method) must leave the program running and yield the value written down; a chain of calls descending 1 ... 25000 levels with the same handler at every level (built-in and custom exception class): the handler that runs is the one of the deepest body entered, also at the interpreter's own call limit. Oracle: reference evaluator; plus quiescent invariants after every successful run: call stack empty and every module scope at depth 0 (hooks H3/H4). distinct_nontrivial = distinct (family parameters / feature set, outcome kind)"
	c.assumptions = []string{"message text of runtime faults is not compared (U7)", "handlers only use 其, parameters and literals (U1)"}
	rng := c.Rand("c09")
	var progs []*zr.Program
	var shapes []string
	for d := 0; d <= c.Pick(3, 4); d++ {
		for _, raise := range c09Raises {
			for h := -1; h <= d; h++ {
				for _, hc := range []string{"异常", "自定错"} {
					for _, hr := range []bool{true, false} {
						for _, loop := range []bool{false, true} {
							if loop && d == 0 {
								continue
							}
							for _, asMethod := range []bool{false, true} {
								if asMethod && d == 0 {
									continue
								}
								if c.Quick() && (d+h+len(raise))%2 == 0 && loop && asMethod {
									continue
								}
								progs = append(progs, c09Chain(d, raise, h, hc, hr, loop, asMethod))
								shapes = append(shapes, fmt.Sprintf("chain/d%d/%s/h%d/%s/%v/%v/%v", d, raise, h, hc, hr, loop, asMethod))
							}
						}
					}
				}
			}
		}
	}
	// handlers that raise themselves, dealt with by a handler further out; the caller of that
	// outer body must find its 其, locals and call depth untouched
	for d := 2; d <= c.Pick(3, 4); d++ {
		for _, raise := range []string{"throw", "div0", "throw-custom", "undefined", "ctor-arity", "ctor-throw"} {
			for _, hRaise := range []string{"throw", "div0", "throw-custom", "index", "ctor-arity", "ctor-throw"} {
				for h := 1; h <= d; h++ {
					for outer := 0; outer < h; outer++ {
						for _, asMethod := range []bool{false, true} {
							for _, loop := range []bool{false, true} {
								if loop && c.Quick() && (d+h+outer)%2 == 0 {
									continue
								}
								c09Extra = &c09Opts{hRaise: hRaise, outerH: outer}
								progs = append(progs, c09Chain(d, raise, h, raiseClass(raise), false, loop, asMethod))
								shapes = append(shapes, fmt.Sprintf("nested/d%d/%s/h%d/then-%s/outer%d/%v/%v", d, raise, h, hRaise, outer, asMethod, loop))
								c09Extra = nil
							}
						}
					}
				}
			}
		}
	}
	// variants: after a handled exception a callee local must be undefined in the caller
	for _, raise := range []string{"throw", "div0", "undefined"} {
		p := c09Chain(2, raise, 1, raiseClass(raise), true, false, false)
		p.Body = append(p.Body[:len(p.Body)-1], zr.Show(zr.S("leak?"), zr.N("局2")), zr.Show(zr.S("not-reached")))
		progs = append(progs, p)
		shapes = append(shapes, "leak/"+raise)
	}
	c.Count("fixed_family_programs", int64(len(progs)))
	n := c.Pick(5000, 300000)
	for i := 0; i < n; i++ {
		g := newPgen(rng, genOpts{maxDepth: 2 + rng.Intn(2), stmts: 3, funcs: 3, classes: 1, loops: true, returns: rng.Intn(2) == 0, collections: true, recursion: 3, exceptions: true, faults: rng.Intn(2) == 0, mutation: true})
		p := g.program()
		progs = append(progs, p)
		shapes = append(shapes, "rand/"+featureKey(g.features))
	}
	c09Consistency(c)
	c09Messages(c)
	// a definition is evaluated ahead of the other statements of its body; when evaluating it raises
	// (a default property that divides by zero, calls a method that throws, reads an undefined name)
	// the body's own handler takes it - in the main program, in a method body and in the body of
	// an imported module alike, and the importer / caller goes on
	{
		raises := map[string]string{
			"div0":      "定义参数：\n\t其比率 = 10 / 0\n",
			"undefined": "定义参数：\n\t其比率 = 缺失名 + 1\n",
			"throws":    "如何取口？\n\t抛出异常：“没有端口”！\n定义参数：\n\t其端口 = （取口）\n",
			"index":     "定义参数：\n\t其首 = 【1】#5\n",
		}
		cases := []handFiles{}
		for _, rn := range SortedKeys(raises) {
			body := "如何先？\n\t输出 7\n" + raises[rn] + "（显示：“not-reached”）\n\n拦截异常：\n\t（显示：“handled”）\n"
			cases = append(cases,
				handFiles{"definition-fault/" + rn + "/main-program", map[string]string{"main.zn": body + "\t输出 “caught”\n"}, `text("caught")`},
				handFiles{"definition-fault/" + rn + "/method-body", map[string]string{"main.zn": "如何体？\n\t" + strings.ReplaceAll(strings.TrimSuffix(body, "\n"), "\n", "\n\t") + "\n\t\t输出 “caught”\n输出【（体），“主完”】\n"}, `list[text("caught"),text("主完")]`},
				handFiles{"definition-fault/" + rn + "/module-body", map[string]string{"main.zn": "导入“模”\n输出【（先），“主完”】\n", "模.zn": body}, `list[num(7),text("主完")]`},
				handFiles{"definition-fault/" + rn + "/module-behind-relay", map[string]string{"main.zn": "导入“中”\n输出（转）\n", "中.zn": "导入“模”\n如何转？\n\t输出【（先），“中完”】\n", "模.zn": body}, `list[num(7),text("中完")]`},
			)
		}
		c.runHandFiles("definition-fault", cases)
	}
	// a handler that reaches no 输出 yields 空, whatever its last statement evaluates to
	c.runHand("handler-value", []handCase{
		{"ends-with-assignment", "令状态 = “好”\n如何试？\n\t输入数\n\t输出 10 / 数\n\n\t拦截异常：\n\t\t状态 = “坏”\n令果 = （试：0）\n输出【果，状态】\n", `list[null,text("坏")]`},
		{"ends-with-call", "如何加？\n\t输入子、丑\n\t输出 子 + 丑\n如何试？\n\t输入数\n\t输出 10 / 数\n\n\t拦截异常：\n\t\t（加：3、4）\n输出【（试：0），（试：5）】\n", "list[null,num(2)]"},
		{"ends-with-method-call", "如何试？\n\t输入数\n\t令列 = 【1，2】\n\t输出 列#数\n\n\t拦截异常：\n\t\t以【7，8】（后增：9）\n输出【（试：5），（试：1）】\n", "list[null,num(1)]"},
		{"ends-with-expression", "如何试？\n\t抛出异常：“x”！\n\n\t拦截异常：\n\t\t1 + 2\n输出（试）\n", "null"},
		{"output-in-untaken-branch", "如何试？\n\t输入数\n\t输出 10 / 数\n\n\t拦截异常：\n\t\t如果 数 > 5：\n\t\t\t输出 -1\n\t\t数\n输出【（试：0）】\n", "list[null]|error:*"},
		{"program-level-handler", "令状态 = 1\n令乙 = 1 / 0\n\n拦截异常：\n\t令丙 = 2\n\t丙 + 1\n", "null"},
		{"control-with-output", "如何试？\n\t输出 1 / 0\n\n\t拦截异常：\n\t\t1 + 2\n\t\t输出 -1\n输出（试）\n", "num(-1)"},
	})
	c09Endurance(c)
	var inputs []map[string]Val
	c.runRefCases("exc", progs, inputs, shapes, nil, func(i int, src string, ref zr.Result, resp *Resp) {
		quiescent(c, "exc", shapes[i], src, resp)
	})
}

// quiescent invariant (C06/C09): after a successful run the call stack is empty and every
// module's scope stack is back at depth 0.
func quiescent(c *Ctx, kind, shape, src string, resp *Resp) {
	if resp.Kind != "value" {
		return
	}
	c.Count("quiescent_points_checked", 1)
	if resp.VMs == 0 {
		c.Count("quiescent_no_vm_captured", 1)
		return
	}
	if resp.CallStack != 0 {
		c.Violation(kind+":callstack:"+src, fmt.Sprintf("after a successful run the call stack still holds %d frame(s)\nprogram:\n%s", resp.CallStack, src), map[string]interface{}{"req": execReq(src)})
	}
	if resp.EvalDepth != 0 {
		c.Violation(kind+":evaldepth:"+src, fmt.Sprintf("after a successful run the evaluator still counts %d level(s) of nesting (every handled exception / loop signal / error that left them behind brings the program closer to the interpreter's depth limit)\nprogram:\n%s", resp.EvalDepth, src), map[string]interface{}{"req": execReq(src)})
	}
	for id, st := range resp.Scopes {
		if st[0] != 0 {
			c.Violation(kind+":scope-depth:"+src, fmt.Sprintf("after a successful run module %s is left at scope depth %d (live symbols %d)\nprogram:\n%s", id, st[0], st[1], src), map[string]interface{}{"req": execReq(src)})
		}
	}
}

// c09Consistency: whatever a failing operation is taken to be - an exception that 拦截异常 may take,
// or an error that ends the program - it must be the same thing at every distance: with a handler
// of 异常 on the body that fails AND one on its caller, either the nearest one runs or none does.
// The caller's handler running while the nearest one was passed over fits no reading.
// c09Messages: an exception nobody handles ends the program with its message, i.e. with what a
// handler would have read as 其内容 - whatever kind of value the thrower stored there
// (hand-written programs; for a text or an integer the message is written down, for other values
// it must at least not be empty)
func c09Messages(c *Ctx) {
	type mc struct{ name, content, want string }
	cases := []mc{
		{"text", "“出错了”", "出错了"}, {"empty-text", "“”", ""}, {"integer", "404", "404"}, {"negative", "-7", "-7"},
		{"bool", "真", "?"}, {"list", "【1，2】", "?"}, {"dict", "【“码” = 5】", "?"}, {"decimal", "2.5", "?"},
	}
	wrap := []string{"direct", "via-method", "via-two-methods", "from-handler"}
	reqs := []Req{}
	type idx struct{ k, w int }
	ids := []idx{}
	srcs := []string{}
	for k, m := range cases {
		for w := range wrap {
			src := "定义错误码异常：\n\t其内容 = 0\n\n如何新建错误码异常？\n\t输入码\n\t其内容 = 码\n\n"
			switch wrap[w] {
			case "direct":
				src += "（显示：“前”）\n抛出错误码异常：" + m.content + "！\n"
			case "via-method":
				src += "如何查？\n\t抛出错误码异常：" + m.content + "！\n\n（查）\n"
			case "via-two-methods":
				src += "如何查？\n\t抛出错误码异常：" + m.content + "！\n\n如何外？\n\t（查）\n\t输出 1\n\n\t拦截异常：\n\t\t输出 2\n\n（外）\n"
			case "from-handler":
				src += "令甲 = 1 / 0\n\n拦截异常：\n\t抛出错误码异常：" + m.content + "！\n"
			}
			reqs = append(reqs, execReq(src))
			srcs = append(srcs, src)
			ids = append(ids, idx{k, w})
		}
	}
	c.runBatches(reqs, 16, func(i int, req *Req, resp *Resp) {
		c.Eval()
		m, w := cases[ids[i].k], wrap[ids[i].w]
		c.Nontrivial("message|" + m.name + "|" + w + "|" + resp.Kind)
		why := ""
		switch {
		case resp.Kind != "error" || resp.Err == nil:
			why = "the program does not end with the exception: " + resp.Kind
		case m.want == "?" && strings.TrimSpace(resp.Err.Msg) == "":
			why = "the program ends with an empty message"
		case m.want != "?" && resp.Err.Msg != m.want:
			why = fmt.Sprintf("the program ends with the message %q, expected %q", resp.Err.Msg, m.want)
		case !strings.HasSuffix(strings.TrimRight(resp.Err.Text, "\n"), "："+resp.Err.Msg):
			why = "the report does not end with the message"
		}
		if why != "" {
			c.Violation("message:"+m.name+":"+w, fmt.Sprintf("uncaught custom exception with 内容 = %s (%s): %s\nreport:\n%s\nprogram:\n%s", m.content, w, why, resp.Err.Text, srcs[i]), map[string]interface{}{"req": req})
		}
	})
}

// c09Endurance: "execution continues exactly as if the protected body had returned normally" also
// after the hundred-thousandth handled exception: whatever the interpreter counts or keeps per
// exception (nesting depths, frames, snapshots) must be given back, or a long-running program runs
// into one of the interpreter's own limits. Hand-written programs, expected value written down
func c09Endurance(c *Ctx) {
	type ec struct{ name, src, want string }
	n := 90000
	loop := func(body string) string {
		return fmt.Sprintf("令和 = 0\n令次 = 0\n每当 次 < %d：\n%s\t次 = 次 + 1\n输出 和\n", n, body)
	}
	cases := []ec{
		{"fault-in-nested-expression", "如何试？\n\t输入甲、乙\n\t输出 {甲 / 乙 + 1} * 2\n\n\t拦截异常：\n\t\t输出 -1\n" + loop("\t和 = 和 + （试：1、0）\n"), fmt.Sprintf("num(%d)", -n)},
		{"throw-through-argument", "如何炸？\n\t抛出异常：“x”！\n如何试？\n\t输出 【1，{2 + （炸）}】#1\n\n\t拦截异常：\n\t\t输出 1\n" + loop("\t和 = 和 + （试）\n"), fmt.Sprintf("num(%d)", n)},
		{"fault-in-type-method", "定义器：\n\t其底 = 0\n\t如何除？\n\t\t输入数\n\t\t输出 以【数 / 其底】（首项）\n\n\t\t拦截异常：\n\t\t\t输出 2\n令物 = （新建器）\n" + loop("\t和 = 和 + 以物（除：5）\n"), fmt.Sprintf("num(%d)", 2*n)},
		{"handled-in-the-loop-owner", "如何试？\n\t令和 = 0\n\t令次 = 0\n\t每当 次 < " + fmt.Sprint(n) + "：\n\t\t次 = 次 + 1\n\t\t和 = 和 + （内：次）\n\t输出 和\n如何内？\n\t输入数\n\t如果 数 % 2 == 0：\n\t\t输出 {1 / 0}\n\t输出 1\n\n\t拦截异常：\n\t\t输出 0\n输出（试）\n", fmt.Sprintf("num(%d)", n/2)},
		{"no-exception-control", "如何试？\n\t输入甲、乙\n\t输出 {甲 / 乙 + 1} * 2\n" + loop("\t和 = 和 + （试：1、1）\n"), fmt.Sprintf("num(%d)", 4*n)},
	}
	// the nearest enclosing body with a matching handler takes the exception at whatever call depth
	// that body runs - also when it is the deepest body the interpreter is willing to enter: a chain
	// of calls descends to level D (or until a call is refused), every level has the same handler,
	// the deepest level entered is written into an object; the level whose handler ran must be it
	deep := func(d int, custom bool) string {
		cls, def := "异常", ""
		if custom {
			cls, def = "触底异常", "定义触底异常：\n\t其内容 = “触底”\n"
		}
		return def + "定义记：\n\t其深 = 0\n令器 = （新建记）\n如何下？\n\t输入层、底、物\n\t物之深 = 层\n\t如果 层 == 底：\n\t\t抛出" + cls + "：“底”！\n\t输出（下：层 + 1、底、物）\n\n\t拦截" + cls + "：\n\t\t输出 层\n" +
			fmt.Sprintf("令果 = （下：1、%d、器）\n输出【果 == 器之深，器之深 <= %d，果】\n", d, d)
	}
	// the interpreter's own limits raise ordinary exceptions: a handler takes them, and afterwards
	// the program goes on as if the protected body had returned normally (the quiescent invariants
	// below - call stack, scope depth, evaluation depth - are read after the run)
	lit12o, lit12c := strings.Repeat("【", 12), strings.Repeat("】", 12)
	cases = append(cases,
		ec{"limit-fault-handled/evaluation-depth", "如何深？\n\t输入层\n\t输出" + lit12o + "（深：层 + 1）" + lit12c + "\n如何试？\n\t输出（深：1）\n\n\t拦截异常：\n\t\t输出 “handled”\n令一 = （试）\n令二 = （试）\n输出【一，二，1 + 1】\n", `list[text("handled"),text("handled"),num(2)]`},
		ec{"limit-fault-handled/call-depth", "如何深？\n\t输入层\n\t输出（深：层 + 1）\n如何试？\n\t输出（深：1）\n\n\t拦截异常：\n\t\t输出 “handled”\n令一 = （试）\n令二 = （试）\n输出【一，二，1 + 1】\n", `list[text("handled"),text("handled"),num(2)]`},
		ec{"limit-fault-handled/evaluation-depth-in-operands", "如何深？\n\t输入层\n\t输出 " + strings.Repeat("{1 + ", 12) + "（深：层 + 1）" + strings.Repeat("}", 12) + "\n如何试？\n\t输出（深：1）\n\n\t拦截异常：\n\t\t输出 “handled”\n输出【（试），（试）】\n", `list[text("handled"),text("handled")]`},
	)
	ctorRec := "定义节点：\n\t其深 = 0\n如何新建节点？\n\t输入层\n\t其深 = 层\n\t令下 = （新建节点：层 + 1）\n"
	cases = append(cases,
		ec{"limit-fault-handled/call-depth-through-constructor", ctorRec + "如何试？\n\t令物 = （新建节点：1）\n\t输出 “got”\n\n\t拦截异常：\n\t\t输出 “handled”\n令一 = （试）\n令二 = （试）\n输出【一，二，1 + 1】\n", `list[text("handled"),text("handled"),num(2)]`},
		ec{"limit-fault-handled/call-depth-through-type-method", "定义链：\n\t其数 = 0\n\t如何下？\n\t\t输入层\n\t\t输出 以此（下：层 + 1）\n如何试？\n\t令物 = （新建链）\n\t输出 以物（下：1）\n\n\t拦截异常：\n\t\t输出 “handled”\n输出【（试），（试）】\n", `list[text("handled"),text("handled")]`},
		ec{"limit-fault-handled/call-depth-through-thrown-constructor", "定义深异常：\n\t其内容 = “深”\n如何新建深异常？\n\t输入层\n\t抛出深异常：层 + 1！\n如何试？\n\t抛出深异常：1！\n\n\t拦截异常：\n\t\t输出 “handled”\n输出【（试），1 + 1】\n", `list[text("handled"),num(2)]`},
	)
	for _, d := range []int{1, 2, 3, 50, 1000, 10000, 19000, 19990, 19995, 19996, 19997, 19998, 19999, 20000, 20001, 20002, 20005, 25000} {
		want := fmt.Sprintf("list[bool(true),bool(true),num(%d)]", d)
		if d > 19000 {
			want = "deep-consistent"
		}
		cases = append(cases, ec{fmt.Sprintf("handler-at-depth/%d", d), deep(d, false), want})
		if d <= 19000 {
			cases = append(cases, ec{fmt.Sprintf("custom-handler-at-depth/%d", d), deep(d, true), want})
		} else {
			cases = append(cases, ec{fmt.Sprintf("custom-handler-at-depth/%d", d), deep(d, true), "deep-consistent-or-error"})
		}
	}
	reqs := []Req{}
	for _, e := range cases {
		r := execReq(e.src)
		r.EvalBudget = 0
		reqs = append(reqs, r)
	}
	c.runBatches(reqs, 1, func(i int, req *Req, resp *Resp) {
		c.Eval()
		e := cases[i]
		if strings.HasPrefix(e.want, "deep-consistent") {
			// near the interpreter's own call limit the level reached is its business; the level
			// whose handler ran must still be the deepest one entered
			c.Nontrivial("endurance|" + e.name + "|" + resp.Kind)
			ok := resp.Kind == "value" && resp.Val != nil && resp.Val.T == "list" && len(resp.Val.Items) == 3 && resp.Val.Items[0].T == "bool" && resp.Val.Items[0].B && resp.Val.Items[1].T == "bool" && resp.Val.Items[1].B
			if !ok && e.want == "deep-consistent-or-error" && resp.Kind == "error" {
				ok = true // a refused call is not an exception of the custom class: it may end the program
			}
			if resp.Kind == "timeout" {
				c.Count("endurance_not_judged_watchdog", 1)
				return
			}
			if !ok {
				c.Violation("endurance:"+e.name, fmt.Sprintf("%s: the exception was not handled by the deepest body entered (the nearest enclosing one): outcome %s\nprogram:\n%s", e.name, clip(resp.Outcome(), 200), e.src), map[string]interface{}{"req": req})
			}
			quiescent(c, "endurance", e.name, e.src, resp)
			return
		}
		got := resp.Kind
		if resp.Kind == "value" && resp.Val != nil {
			got = resp.Val.String()
		} else if resp.Kind == "error" && resp.Err != nil {
			got = fmt.Sprintf("error %d (%s)", resp.Err.Code, resp.Err.Msg)
		}
		c.Nontrivial("endurance|" + e.name + "|" + resp.Kind)
		c.Count("endurance_exceptions_handled", int64(n))
		if resp.Kind == "timeout" {
			c.Count("endurance_not_judged_watchdog", 1)
			return
		}
		if got != e.want {
			c.Violation("endurance:"+e.name, fmt.Sprintf("%s: after %d handled exceptions the program yields %s, expected %s\nprogram:\n%s", e.name, n, got, e.want, e.src), map[string]interface{}{"req": req})
		}
		quiescent(c, "endurance", e.name, e.src, resp)
	})
}

func c09Consistency(c *Ctx) {
	faults := []string{
		"“{#.2}” % 【“abc”】", "“{#}” % 【真】", "“{#+}” % 【空】", "“{#.1%}” % 【【1】】", "“{” % 【】", "“}” % 【】", "“{}{}” % 【1】", "“{}” % 【1，2】", "“{x}” % 【1】", "“{#.}” % 【1】", "“{#.99999999999999999999}” % 【1】",
		"“{}” % 5", "5 % “a”", "3x7", "1e+", "以“12x”（转换数值）", "以【1】（交换：1、5）", "以【1】（缺失）", "【1】#5", "【“a” = 1】#“b”", "1 / 0", "未定义名", "“a” * 2", "（解析JSON：“{”）", "（生成JSON：【“k” = 1*10^308 * 10】）",
		"（读取文件：“/不存在/文件”）", "（读取目录：“/不存在/目录”）", "以“abc”（取样：0、1）", "以“abc”（取样：2、9）", "（新建异常）", "（新建未定义型）", "以5（加：1）", "真 且 1", "如果之名", "（显示）之长度", "以空（长度）",
	}
	type cs struct{ fault, src string }
	var cases []cs
	for _, f := range faults {
		for _, pos := range []string{"stmt", "let", "return", "cond", "arg"} {
			use := "（显示：" + f + "）"
			switch pos {
			case "let":
				use = "令局 = " + f
			case "return":
				use = "输出 " + f
			case "cond":
				use = "如果 " + f + "：\n\t\t（显示：“then”）"
			case "arg":
				use = "（取：" + f + "）"
			}
			src := "导入《@JSON》\n导入《@文件》\n如何取？\n\t输入值\n\t输出 值\n如何内层？\n\t（显示：“in”）\n\t" + use + "\n\t（显示：“after-fault”）\n\t输出 1\n\n\t拦截异常：\n\t\t（显示：“inner-handler”）\n\t\t输出 2\n" +
				"如何外层？\n\t令果 = （内层）\n\t（显示：“back”、果）\n\t输出 果\n\n\t拦截异常：\n\t\t（显示：“outer-handler”）\n\t\t输出 3\n（显示：“result”、（外层））\n"
			cases = append(cases, cs{f + "/" + pos, src})
		}
	}
	reqs := make([]Req, len(cases))
	for i, k := range cases {
		reqs[i] = execReq(k.src)
		reqs[i].Libs = true
		reqs[i].EvalBudget = 20000
	}
	c.runBatches(reqs, 60, func(i int, req *Req, resp *Resp) {
		c.Eval()
		k := cases[i]
		trace := strings.Join(strings.Fields(strings.ReplaceAll(resp.Display, "\n", " | ")), " ")
		verdict := "no-failure" // the expression is not a failure after all: nothing to judge
		switch {
		case strings.Contains(trace, "outer-handler"):
			verdict = "passed-over"
		case strings.Contains(trace, "inner-handler"):
			verdict = "nearest-handler"
		case resp.Kind == "error" && resp.Err != nil && resp.Err.Class == "syntax":
			verdict = "not-a-program"
		case resp.Kind == "error":
			verdict = "ends-program"
		case resp.Kind != "value":
			verdict = "crash:" + resp.Kind
		}
		c.Count("consistency_"+verdict, 1)
		c.Nontrivial("consistency|" + k.fault + "|" + verdict)
		if verdict == "passed-over" || strings.HasPrefix(verdict, "crash:") {
			c.Violation("consistency:"+k.fault, fmt.Sprintf("a failure of %s inside a body with its own 拦截异常 handler, called from a body with another one: trace [%s], outcome %s - neither 'the nearest handler takes it' nor 'no handler takes it'\nprogram:\n%s", k.fault, trace, resp.Kind, k.src), map[string]interface{}{"req": req})
		}
	})
}
