package main

import (
	"fmt"
	"os"
	"path/filepath"
	"regexp"
	"strings"

	. "verif/internal/proto"
)

func init() { register("C05", "exploration", checkC05) }

// hostile alphabet for mutations
var c05Hostile = []rune{0, 1, 7, 0x1b, 0x7f, '\r', '\n', '\t', ' ', 0x3000, 0xFEFF, 0xFFFD, 0xD7FF, 0xE000, 0x1F600, 0x10FFFF,
	'“', '”', '‘', '’', '「', '」', '『', '』', '《', '》', '`', '【', '】', '（', '）', '{', '}', '：', '；', '，', '、', '？', '！',
	'#', '=', '&', '@', '<', '>', '+', '-', '*', '/', '|', '%', '.', '^', '_', '$', '\\', '"', '\'',
	'令', '为', '如', '果', '何', '注', '以', '其', '之', '的', '且', '或', '不', '输', '出', '入', '每', '当', '遍', '历', '定', '义', '抛', '拦', '截', '新', '建', '得', '到', '导', '恒', '设', '再', '否', '则', '结', '束', '循', '环', '继', '续', '等', '于', '大', '小',
	'A', 'z', '0', '1', '9', 'e', 'E', '甲', 'é', 'Ω', 'あ', '한'}

// small critical alphabet for bounded-exhaustive short inputs
var c05Crit40 = []rune{'：', '；', '，', '、', '？', '！', '【', '】', '（', '）', '{', '}', '“', '”', '`', '#', '=', '+', '/', '*',
	'注', '令', '如', '果', '何', '以', '其', '之', '为', '拦', '截', '输', '出', '入', '\n', '\t', ' ', 'A', '1', 0}
var c05Crit20 = []rune{'：', '？', '【', '】', '（', '）', '“', '”', '`', '#', '注', '令', '如', '果', '以', '拦', '截', '\n', '\t', 'A'}

var reLineNo = regexp.MustCompile(`位于第 (-?\d+) 行`)

func splitPhysicalLines(src []rune) []string {
	lines := []string{}
	cur := []rune{}
	for i := 0; i < len(src); i++ {
		ch := src[i]
		if ch == '\r' || ch == '\n' {
			if i+1 < len(src) && ((ch == '\r' && src[i+1] == '\n') || (ch == '\n' && src[i+1] == '\r')) {
				i++
			}
			lines = append(lines, string(cur))
			cur = cur[:0]
			continue
		}
		cur = append(cur, ch)
	}
	lines = append(lines, string(cur))
	return lines
}

// rawSegments: split on every single CR or LF (the printer scans for single CR / LF)
func rawSegments(src []rune) []string {
	return strings.FieldsFunc(string(src)+"\n", func(r rune) bool { return r == '\r' || r == '\n' })
}

func trimIndent(s string) string { return strings.TrimLeft(s, " \t") }

var reIncomplete = regexp.MustCompile(`(^| )nil\b|\?\d|unknown-|else-without-flag`)

// stripQuoted removes Go-quoted string literals from a dump
func stripQuoted(d string) string {
	var sb strings.Builder
	in := false
	for i := 0; i < len(d); i++ {
		ch := d[i]
		if in {
			if ch == '\\' {
				i++
				continue
			}
			if ch == '"' {
				in = false
			}
			continue
		}
		if ch == '"' {
			in = true
			sb.WriteByte('S')
			continue
		}
		sb.WriteByte(ch)
	}
	return sb.String()
}

func dumpIncomplete(d string) string {
	if strings.Contains(d, `(id "")`) {
		return "an identifier without a name"
	}
	s := stripQuoted(d)
	// an absent exec block (empty program or imports only) is legitimate
	if strings.HasSuffix(s, ") nil)") && strings.HasPrefix(s, "(prog (imports") {
		s = strings.TrimSuffix(s, " nil)") + ")"
	}
	if m := reIncomplete.FindString(s); m != "" {
		return strings.TrimSpace(m)
	}
	// a block introduced by a header (如果 / 再如 / 否则 / 每当 / 遍历 / 如何 / 拦截 …) needs at least
	// one statement, 令： at least one pair: only the program's own top-level block may be empty
	// (the statement block of an exec block - program, method, constructor - may be empty: a body
	// can consist of 输入 and 拦截 parts only; those are the "(block)" right after an "(inputs …)" group)
	t := s
	for from := 0; ; {
		i := strings.Index(t[from:], "(block)")
		if i < 0 {
			break
		}
		i += from
		from = i + 1
		j := i - 1
		for j >= 0 && t[j] == ' ' {
			j--
		}
		execLevel := false
		if j >= 0 && t[j] == ')' {
			depth := 0
			for k := j; k >= 0; k-- {
				if t[k] == ')' {
					depth++
				} else if t[k] == '(' {
					depth--
					if depth == 0 {
						execLevel = strings.HasPrefix(t[k:], "(inputs")
						break
					}
				}
			}
		}
		if !execLevel {
			return "a block without any statement"
		}
	}
	if strings.Contains(t, "(let)") {
		return "令： without any pair"
	}
	// the key of a 【key = value】 pair is a name, a text or a number (‹键值对› in the grammar)
	for from := 0; ; {
		i := strings.Index(t[from:], "(kv (")
		if i < 0 {
			break
		}
		i += from + len("(kv (")
		from = i
		if !strings.HasPrefix(t[i:], "id ") && !strings.HasPrefix(t[i:], "str ") {
			end := i + 12
			if end > len(t) {
				end = len(t)
			}
			return "a dictionary pair whose key is neither a name, a text nor a number: (" + t[i:end] + "…"
		}
	}
	return ""
}

// judgeParse applies the C05 oracle to one parse response. Returns "" when fine.
func judgeParse(src []rune, resp *Resp) (key, what string) {
	switch resp.Kind {
	case "ok":
		if resp.LexFailed {
			return "accepted-untokenisable", "parser accepted the text (tree: " + clip(resp.Dump, 120) + ") although the lexer alone fails on it (" + resp.LexMsg + "): part of the text was never looked at"
		}
		if bad := dumpIncomplete(resp.Dump); bad != "" {
			return "incomplete-tree", "parser accepted the text but returned an incomplete tree (" + bad + "): " + clip(resp.Dump, 300)
		}
		return "", ""
	case "budget":
		return "hang", fmt.Sprintf("parser did not terminate within %d ticks (input of %d runes)", resp.ParseTicks, len(src))
	case "panic":
		return "panic", "parser panicked (not recovered into an error): " + clip(resp.Panic, 300)
	case "died", "timeout", "flaky":
		return "crash-" + resp.Kind, "worker " + resp.Kind + " while parsing: " + clip(resp.Stderr, 400)
	case "error":
		e := resp.Err
		if e == nil {
			return "noerr", "error outcome without error info"
		}
		if e.GoType != "*error.SyntaxError" {
			return "nonsyntax-error", "Parse returned an error that is not a syntax error: " + e.GoType + ": " + clip(e.Msg, 200)
		}
		if e.Code < 20 || e.Code > 27 {
			return "bad-code", fmt.Sprintf("syntax error code %d outside 20..27", e.Code)
		}
		if e.Cursor < 0 || e.Cursor > len(src) {
			return "bad-cursor", fmt.Sprintf("syntax error position %d outside 0..%d", e.Cursor, len(src))
		}
		if resp.Dump == "PARTIAL" {
			return "tree-and-error", "Parse returned a syntax error together with a (partial) tree instead of either one"
		}
		if e.DisplayPanic != "" {
			return "display-panic", "rendering the syntax error panicked: " + clip(e.DisplayPanic, 200)
		}
		m := reLineNo.FindStringSubmatch(e.Text)
		if m == nil {
			return "no-line", "rendered error names no line: " + clip(e.Text, 200)
		}
		var n int
		fmt.Sscanf(m[1], "%d", &n)
		phys := splitPhysicalLines(src)
		if n < 1 || n > len(phys) {
			return "line-out-of-range", fmt.Sprintf("rendered error names line %d but the source has %d lines", n, len(phys))
		}
		// quoted line = the line after the header
		tl := strings.Split(e.Text, "\n")
		if len(tl) < 2 || !strings.HasPrefix(tl[1], "    ") {
			return "no-quote", "rendered error quotes no source line: " + clip(e.Text, 200)
		}
		quoted := tl[1][4:]
		okq := false
		for _, seg := range append(phys, rawSegments(src)...) {
			if quoted == seg || quoted == trimIndent(seg) || trimIndent(quoted) == trimIndent(seg) {
				okq = true
				break
			}
		}
		if !okq && quoted == "" {
			okq = true // an empty line exists wherever a line is empty; EOF on an empty last line
			for _, seg := range phys {
				if trimIndent(seg) == "" {
					okq = true
				}
			}
		}
		if !okq {
			return "quote-mismatch", fmt.Sprintf("rendered error quotes %q, which is not a line of the source", quoted)
		}
		return "", ""
	}
	return "unknown-kind", "unexpected response kind " + resp.Kind
}

func parseReq(src []rune) Req {
	r32 := make([]int32, len(src))
	for i, c := range src {
		r32[i] = int32(c)
	}
	return Req{Op: "parse", Src: r32, ParseBudget: 64*(len(src)+16) + 2000}
}

// manualSnippets extracts fenced code blocks from the manual as extra corpus.
func manualSnippets() []string {
	out := []string{}
	files, _ := filepath.Glob(repoRoot() + "/doc/zh-cn/manual/*.md")
	for _, f := range files {
		data, err := os.ReadFile(f)
		if err != nil {
			continue
		}
		parts := strings.Split(string(data), "```")
		for i := 1; i < len(parts); i += 2 {
			body := parts[i]
			if nl := strings.Index(body, "\n"); nl >= 0 {
				body = body[nl+1:]
			}
			if len([]rune(body)) > 0 && len([]rune(body)) < 1500 {
				out = append(out, body)
			}
		}
	}
	return out
}

func checkC05(c *Ctx) {
	// the deepest inputs of this check need a few GiB in the worker: a wider memory budget than the default
	c.Pool.Env = append(c.Pool.Env, "ZNWORKER_RSS_LIMIT_MB=10240")
	c.Pool.LongRetry = true
	c.rule = "(3c) ten long flat input shapes (a literal with 15000 / 30000 escapes, U+ escapes, lone backticks, nested pairs; a comment full of quotes; thousands of short literals / backtick names; a 30000-digit number, a 30000-character name, a flat sum) compiled at size N and 2N in allocation-measuring mode: the bytes allocated must grow in proportion (ratio <= 3), a load-independent reading of 'promptly'; inputs = every prefix of every corpus/manual program, random single/multi mutations (delete, duplicate, splice, replace from a hostile alphabet), all strings up to a length bound over critical alphabets, runs of 200 … 100000 (every bracket kind also 1.5 million; thorough: 3 million) opening brackets / operators / nested block headers; each goes through syntax.Parser.Parse under a logical tick budget and, on error, through exec.DisplayError; block headers (令： 如果 每当 遍历 如何 定义 否则 再如 拦截) whose block holds only separators / comments, names written as an empty pair of backticks; plus input-variable texts through exec.ExecVarInputText (a text the compiler rejects must reach the user with the compiler's error code and the line of the offending character). distinct_nontrivial = distinct (outcome kind, error code, first 3 tree node kinds / error line) classes among inputs that are not the empty string"
	c.assumptions = []string{"tick hooks H5 count parser progress; a budget of 64*(len+16)+2000 ticks is >10x what any accepted corpus program needs", "physical lines are split on CR, LF, CRLF, LFCR"}
	rng := c.Rand("c05")
	seeds := append([]string{}, corpus...)
	seeds = append(seeds, genCorpus(c, c.Pick(60, 400))...)
	man := manualSnippets()
	c.Count("manual_snippets", int64(len(man)))

	// 0. corpus sanity: every hand-written program must parse
	for i, s := range corpus {
		resp := c.Pool.Do(parseReq([]rune(s)))
		if resp.Kind != "ok" {
			k, w := judgeParse([]rune(s), &resp)
			if k == "" {
				c.Inconclusive(fmt.Sprintf("corpus program %d does not parse: %v", i, resp.Err))
			} else {
				c.Violation("corpus-"+k+fmt.Sprint(i), "corpus program: "+w, map[string]interface{}{"req": parseReq([]rune(s))})
			}
		}
	}

	var inputs [][]rune
	add := func(r []rune) { inputs = append(inputs, r) }

	// 1. prefixes
	allSeeds := append(append([]string{}, seeds...), man...)
	for si, s := range allSeeds {
		rs := []rune(s)
		step := 1
		if c.Quick() && si >= len(corpus) {
			step = 3
		}
		for n := 0; n <= len(rs); n += step {
			add(append([]rune{}, rs[:n]...))
		}
	}
	c.Count("prefix_inputs", int64(len(inputs)))

	// 2. mutations
	nMut := c.Pick(60000, 3000000)
	for i := 0; i < nMut; i++ {
		rs := []rune(allSeeds[rng.Intn(len(allSeeds))])
		k := 1 + rng.Intn(3)
		for j := 0; j < k && len(rs) > 0; j++ {
			pos := rng.Intn(len(rs) + 1)
			switch rng.Intn(6) {
			case 0: // delete run
				if pos < len(rs) {
					end := pos + 1 + rng.Intn(3)
					if end > len(rs) {
						end = len(rs)
					}
					rs = append(rs[:pos:pos], rs[end:]...)
				}
			case 1: // duplicate run
				if pos < len(rs) {
					end := pos + 1 + rng.Intn(8)
					if end > len(rs) {
						end = len(rs)
					}
					seg := append([]rune{}, rs[pos:end]...)
					rs = append(rs[:end:end], append(seg, rs[end:]...)...)
				}
			case 2: // splice from another seed
				o := []rune(allSeeds[rng.Intn(len(allSeeds))])
				if len(o) > 0 {
					a := rng.Intn(len(o))
					b := a + rng.Intn(12)
					if b > len(o) {
						b = len(o)
					}
					rs = append(rs[:pos:pos], append(append([]rune{}, o[a:b]...), rs[pos:]...)...)
				}
			case 3, 4: // replace with hostile
				if pos < len(rs) {
					rs[pos] = c05Hostile[rng.Intn(len(c05Hostile))]
				}
			case 5: // insert hostile
				rs = append(rs[:pos:pos], append([]rune{c05Hostile[rng.Intn(len(c05Hostile))]}, rs[pos:]...)...)
			}
		}
		if rng.Intn(10) == 0 && len(rs) > 0 { // truncate too
			rs = rs[:rng.Intn(len(rs)+1)]
		}
		add(rs)
	}

	// 2b. block positions filled with things that are no statement / pair / name
	{
		headers := []string{"令：", "如果 真：", "每当 真：", "以A遍历B：", "如何F？", "定义T：", "A = 1\n否则：", "如果 真：\n\tA = 1\n否则：", "如果 真：\n\tA = 1\n再如 真：", "A = 1\n拦截异常："}
		bodies := []string{"；", "；；", "注：x", "/* c */", "；\n\t；", "", "；注：x", "\n\t；"}
		for _, h := range headers {
			for _, b := range bodies {
				for _, tail := range []string{"", "X\n", "令B = 1\n"} {
					add([]rune(h + "\n\t" + b + "\n" + tail))
					add([]rune(h + "\n    " + b + "\n" + tail))
				}
			}
		}
		for _, t := range []string{"令X = 【A之B = 1】", "令X = 【其B = 1】", "令X = 【A#1 = 2】", "令X = 【1 + 2 = 3】", "令X = 【A 或 B = 1】", "令X = 【（F） = 1】", "令X = 【【1】 = 2】", "令X = 【{A} = 1】", "令X = 【以A（F） = 1】", "令X = 【A = 1，B之C = 2】", "令X = 【“k” = 1，A > 1 = 2】", "令X = 【A == 1 = 2】"} {
			add([]rune(t))
		}
		for _, t := range []string{"令`` = 1", "`` = 1", "A之`` = 1", "如何``？\n\t输出 1\n", "定义``：\n\t其A = 1\n", "输入``\n", "以``遍历A：\n\tB\n", "（``）", "（``：1）", "以A（``）", "其`` = 1", "A = B之``", "导入“A”之``"} {
			add([]rune(t))
		}
	}

	// 3. bounded exhaustive short inputs
	enum := func(alpha []rune, maxLen int) {
		var rec func(cur []rune)
		rec = func(cur []rune) {
			add(append([]rune{}, cur...))
			if len(cur) == maxLen {
				return
			}
			for _, a := range alpha {
				rec(append(cur, a))
			}
		}
		rec([]rune{})
	}
	before := len(inputs)
	if c.Quick() {
		enum(c05Crit40, 2)
		enum(c05Crit20, 3)
	} else {
		enum(c05Crit40, 3)
		enum(c05Crit20, 4)
	}
	c.Count("exhaustive_short_inputs", int64(len(inputs)-before))

	// 3b. deep nesting: long runs of opening brackets / nested blocks (the recursive-descent
	// parser must refuse them with an error, not die of a Go stack overflow)
	deep := []int{200, 5000, 100000}
	if !c.Quick() {
		deep = append(deep, 1000000, 3000000)
	}
	for _, n := range deep {
		for _, unit := range []string{"{", "【", "（显示：", "{1 + ", "【1，", "甲之", "甲#", "以甲（乙）、", "1 + ", "- ", "{【", "“", "「“", "/* "} {
			add([]rune(strings.Repeat(unit, n)))
			add([]rune("输出 " + strings.Repeat(unit, n) + "1"))
		}
		var sb strings.Builder
		lim := n
		if lim > 1500 {
			lim = 1500 // (one TAB more per line: quadratic text size)
		}
		for i := 0; i < lim; i++ {
			sb.WriteString(strings.Repeat("\t", i) + "如果 真：\n")
		}
		add([]rune(sb.String()))
	}
	c.Count("deep_nesting_inputs", int64(len(deep)*29))
	if c.Quick() {
		// the bracket kinds at a depth that only a guard on every recursive path survives (a few
		// hundred thousand levels still fit the Go stack; the bounded parser refuses at once)
		for _, unit := range []string{"{", "【", "（显示：", "{【", "【1，", "【“k” = ", "以甲（乙："} {
			add([]rune(strings.Repeat(unit, 1500000)))
			add([]rune("令甲 = " + strings.Repeat(unit, 1500000) + "1"))
		}
		c.Count("deep_nesting_inputs", 14)
	}

	// 3b'. a syntax error after a character of every plane and of every block boundary the error
	// printer's width table knows (and the code points next to them): rendering must succeed
	{
		cps := []rune{}
		for plane := rune(0); plane <= 16; plane++ {
			for _, off := range []rune{0x0, 0x1, 0x100, 0x7FFF, 0xFFFD} {
				cp := plane<<16 + off
				if cp >= 0xD800 && cp <= 0xDFFF || cp == 0 {
					continue
				}
				cps = append(cps, cp)
			}
		}
		for _, b := range []rune{126, 159, 687, 710, 711, 727, 733, 879, 1154, 1161, 4347, 4447, 7467, 7521, 8369, 8426, 9000, 9002, 11021, 12350, 12351, 12438, 12442, 19893, 19967, 55203, 63743, 64106, 65039, 65059, 65131, 65279, 65376, 65500, 65510, 120831, 262141, 1114109, 0xE0001, 0xE0067, 0xE007F, 0xE0100, 0xE01EF, 0x1F3F4} {
			for _, d := range []rune{-1, 0, 1, 2} {
				if cp := b + d; cp > 0 && cp <= 0x10FFFF && !(cp >= 0xD800 && cp <= 0xDFFF) {
					cps = append(cps, cp)
				}
			}
		}
		for _, cp := range cps {
			add([]rune("令甲 = “" + string(cp) + "” 】】\n"))
			add([]rune("令甲 = 1\n令" + "乙 = 「x" + string(cp) + string(cp) + "y」 + ）\n"))
		}
		c.Count("syntax_errors_after_a_character_of_every_plane", int64(2*len(cps)))
	}

	reqs := make([]Req, len(inputs))
	for i, in := range inputs {
		reqs[i] = parseReq(in)
	}
	c.runBatches(reqs, 400, func(i int, req *Req, resp *Resp) {
		c.Eval()
		src := inputs[i]
		key, what := judgeParse(src, resp)
		cls := resp.Kind
		if resp.Err != nil {
			cls += fmt.Sprintf("/%d", resp.Err.Code)
		}
		if resp.Kind == "ok" {
			d := stripQuoted(resp.Dump)
			if len(d) > 60 {
				d = d[len(d)/3 : len(d)/3+40]
			}
			cls += "/" + d
		}
		if len(src) > 0 {
			c.Nontrivial(cls)
		}
		c.Count("outcome_"+resp.Kind, 1)
		if key != "" {
			c.Violation("parse:"+key+":"+string(src), what+"\ninput: "+fmt.Sprintf("%q", clip(string(src), 200)), map[string]interface{}{"req": req})
		} else if i%5000 == 0 {
			s := map[string]interface{}{"input": clip(string(src), 120), "outcome": resp.Kind}
			if resp.Err != nil {
				s["code"] = resp.Err.Code
				s["cursor"] = resp.Err.Cursor
			}
			c.Sample(s)
		}
	})

	// 3c. "promptly": the work of compiling long, flat inputs grows in proportion to their length.
	// Wall time depends on the machine; the bytes the compilation allocates do not: each shape is
	// compiled at size N and 2N, and doubling the input must not (nearly) quadruple the allocation
	{
		shapes := map[string]func(n int) string{
			"literal-with-escapes":      func(n int) string { return "令甲 = 「" + strings.Repeat("`SP`", n) + "」\n" },
			"literal-with-u-escapes":    func(n int) string { return "令甲 = “" + strings.Repeat("`U+4E2D`x", n) + "”\n" },
			"literal-with-lone-ticks":   func(n int) string { return "令甲 = “" + strings.Repeat("a`b` ", n) + "”\n" },
			"literal-with-nested-pairs": func(n int) string { return "令甲 = “" + strings.Repeat("“”", n) + "”\n" },
			"comment-with-quotes":       func(n int) string { return "注：“" + strings.Repeat("「」`", n) + "”\n令甲 = 1\n" },
			"many-short-literals":       func(n int) string { return "令甲 = 【" + strings.Repeat("“a`TAB`”，", n) + "1】\n" },
			"many-backtick-names":       func(n int) string { return "令甲 = 【" + strings.Repeat("`名 字`，", n) + "1】\n" },
			"long-number":               func(n int) string { return "令甲 = " + strings.Repeat("7", n) + "\n" },
			"long-name":                 func(n int) string { return "令" + strings.Repeat("名", n) + " = 1\n" },
			"flat-sum":                  func(n int) string { return "令甲 = " + strings.Repeat("1 + ", n/2) + "1\n" },
		}
		names := SortedKeys(shapes)
		sizes := []int{15000, 30000}
		areqs := []Req{}
		for _, name := range names {
			for _, n := range sizes {
				r := parseReq([]rune(shapes[name](n)))
				r.Mode = "alloc"
				r.ParseBudget = 0
				areqs = append(areqs, r)
			}
		}
		kib := make([]int, len(areqs))
		kinds := make([]string, len(areqs))
		c.runBatches(areqs, 1, func(i int, req *Req, resp *Resp) {
			c.Eval()
			kinds[i] = resp.Kind
			if len(resp.Ints) > 0 {
				kib[i] = resp.Ints[0]
			}
		})
		for k, name := range names {
			a, b := kib[2*k], kib[2*k+1]
			c.Nontrivial(fmt.Sprintf("alloc|%s|%s", name, kinds[2*k]))
			c.Count("allocation_growth_shapes", 1)
			if kinds[2*k] != kinds[2*k+1] || (kinds[2*k] != "ok" && kinds[2*k] != "error") {
				c.Violation("alloc:outcome:"+name, fmt.Sprintf("long flat input %s: outcomes %s (N=%d) and %s (N=%d)", name, kinds[2*k], sizes[0], kinds[2*k+1], sizes[1]), map[string]interface{}{"shape": name})
				continue
			}
			// linear work doubles (ratio 2), quadratic work quadruples (ratio 4); small fixed costs
			// only lower the ratio
			if a > 0 && b > 3*a+4096 {
				c.Violation("alloc:growth:"+name, fmt.Sprintf("compiling the long flat input %s allocates %d KiB at N=%d and %d KiB at N=%d: doubling the input multiplies the work by %.1f (not in proportion to the length: 'terminates promptly' fails for long inputs of this shape)", name, a, sizes[0], b, sizes[1], float64(b)/float64(a)), map[string]interface{}{"shape": name, "kib": []int{a, b}})
			}
			c.Count("allocation_kib_"+name, int64(b))
		}
	}

	// 4. input-variable texts
	vin := []string{"", "A = 1", "A = 1；B = “x”", "A设为【1，2】", "A = B", "A = 其B", "A =（显示：1）", "A = 1 +", "令A = 1", "如果真：\n\tA = 1", "A#1 = 2", "A之B = 3", "1 = 2", "A = 新建", "A =（新建异常：“x”）", "A = 1 / 0", "A = “未闭合", "A = `", "：", "注：", "A = 【1，2】#3", "A = 以1（加：2）", "A = 真 且 1", "A = 其", "A = 此", "= 1", "A == 1", "A = 1\nB = A", "A = {1 + 2} * 3", "输入A", "输出 1", "抛出异常：“x”！", "A = （取随机数）",
		// texts that parse to a program without any statement
		"\n", "\n\n\n", "\r\n", "注：只有一行注释", "注：「多行\n注释」\n", "/* 块 */", "// 行", "导入《@JSON》", "导入“不存在”", "；", "；；", "\t", "A = 1\n\n", "\nA = 1", "注：x\nA = 1",
		"折扣 = 10 %", "乙 = 2 % 3 %d", "甲 = “100%” +", "A = 5 %s %v", "%", "A = 1 %"}
	for i := 0; i < c.Pick(3000, 100000); i++ {
		base := []rune(vin[rng.Intn(len(vin))])
		if len(base) > 0 && rng.Intn(2) == 0 {
			base[rng.Intn(len(base))] = c05Hostile[rng.Intn(len(c05Hostile))]
		}
		if rng.Intn(4) == 0 {
			o := []rune(allSeeds[rng.Intn(len(allSeeds))])
			a := rng.Intn(len(o))
			b := a + rng.Intn(20)
			if b > len(o) {
				b = len(o)
			}
			base = append(base, o[a:b]...)
		}
		vin = append(vin, string(base))
	}
	vreqs := make([]Req, len(vin))
	for i, t := range vin {
		vreqs[i] = Req{Op: "varinput", Text: t, ParseBudget: 64*(len(t)+16) + 2000, EvalBudget: 100000}
	}
	c.runBatches(vreqs, 300, func(i int, req *Req, resp *Resp) {
		c.Eval()
		c.Count("varinput_"+resp.Kind, 1)
		c.Nontrivial("varinput/" + resp.Kind)
		if resp.Kind == "error" && resp.Err != nil {
			// the message quotes the text: it must quote it as it is (a Go formatting artefact
			// such as %!d(MISSING) means the text went through a format string)
			for _, m := range []string{resp.Err.Msg, resp.Err.Text} {
				if strings.Contains(m, "%!") && !strings.Contains(vin[i], "%!") {
					c.Violation("varinput:format-artefact:"+vin[i], fmt.Sprintf("the error for input-variable text %q quotes a text that is not the input: %q", clip(vin[i], 120), clip(m, 200)), map[string]interface{}{"req": req})
					break
				}
			}
		}
		// a text the compiler rejects: the error the user gets carries the compiler's code and
		// position (line of the offending character, quoted as it stands in the text)
		if resp.Kind == "error" && resp.Err != nil && len(resp.Batch) == 1 && resp.Batch[0].Err != nil && len(resp.Batch[0].Ints) == 1 {
			pe := resp.Batch[0].Err
			wantLine := resp.Batch[0].Ints[0] + 1
			c.Count("varinput_syntax_errors_judged", 1)
			frames, _, _, okText := parseErrorText(resp.Err.Text)
			why := ""
			switch {
			case resp.Err.DisplayPanic != "":
				why = "rendering the error panics: " + resp.Err.DisplayPanic
			case !okText || !strings.Contains(resp.Err.Text, fmt.Sprintf("语法错误[%d]", pe.Code)):
				why = fmt.Sprintf("the error does not carry the compiler's code %d", pe.Code)
			case len(frames) != 1 || frames[0].line != wantLine:
				why = fmt.Sprintf("the error does not name line %d (position %d) of the text", wantLine, pe.Cursor)
			case !strings.Contains(vin[i], strings.TrimRight(frames[0].text, " ")):
				why = fmt.Sprintf("the quoted line %q is not in the text", frames[0].text)
			}
			if why != "" {
				c.Violation("varinput:syntax-error-lost:"+vin[i], fmt.Sprintf("input-variable text %q is rejected by the compiler (code %d at position %d, line %d) but %s\nerror shown to the user:\n%s", clip(vin[i], 120), pe.Code, pe.Cursor, wantLine, why, clip(resp.Err.Text, 400)), map[string]interface{}{"req": req})
			}
		}
		switch resp.Kind {
		case "ok", "error":
		default:
			c.Violation("varinput:"+resp.Kind+":"+vin[i], fmt.Sprintf("input-variable text %q: outcome %s %s %s", clip(vin[i], 120), resp.Kind, clip(resp.Panic, 300), clip(resp.Stderr, 300)), map[string]interface{}{"req": req})
		}
	})
}
