package main

import (
	"fmt"
	"math/rand"

	. "verif/internal/proto"
	zr "verif/internal/znref"
)

func init() { register("C02", "exploration", checkC02) }

// exhaustive placement of one transfer statement in every position of 2-level nestings
func c02Placements() ([]*zr.Program, []string) {
	progs := []*zr.Program{}
	shapes := []string{}
	containers := []string{"if", "while", "iter-list", "iter-dict", "else"}
	transfers := []string{"return", "break", "continue"}
	mk := func(kind string, id int, body []zr.Stmt) []zr.Stmt {
		tag := func(s string) zr.Stmt { return zr.Show(zr.S(fmt.Sprintf("%s%d", s, id))) }
		switch kind {
		case "if":
			return []zr.Stmt{zr.If{Cond: zr.N("真"), Then: append([]zr.Stmt{tag("i")}, body...)}, tag("ai")}
		case "else":
			return []zr.Stmt{zr.If{Cond: zr.N("假"), Then: []zr.Stmt{tag("x")}, HasElse: true, Else: append([]zr.Stmt{tag("e")}, body...)}, tag("ae")}
		case "while":
			cn := fmt.Sprintf("计%d", id)
			b := []zr.Stmt{zr.Set(zr.N(cn), zr.Bin{Op: "+", L: zr.N(cn), R: intLit(1)}), zr.Show(zr.S(fmt.Sprintf("w%d", id)), zr.N(cn))}
			b = append(b, body...)
			b = append(b, tag("we"))
			return []zr.Stmt{zr.LetS(cn, intLit(0)), zr.While{Cond: zr.Bin{Op: "<", L: zr.N(cn), R: intLit(3)}, Body: b}, tag("aw")}
		case "iter-list":
			v := fmt.Sprintf("项%d", id)
			b := append([]zr.Stmt{zr.Show(zr.S(fmt.Sprintf("l%d", id)), zr.N(v))}, body...)
			b = append(b, tag("le"))
			return []zr.Stmt{zr.Iter{Names: []string{v}, Over: zr.ListLit{Items: []zr.Expr{intLit(7), intLit(8), intLit(9)}}, Body: b}, tag("al")}
		case "iter-dict":
			k, v := fmt.Sprintf("键%d", id), fmt.Sprintf("值%d", id)
			b := append([]zr.Stmt{zr.Show(zr.S(fmt.Sprintf("d%d", id)), zr.N(k), zr.N(v))}, body...)
			b = append(b, tag("de"))
			return []zr.Stmt{zr.Iter{Names: []string{k, v}, Over: zr.DictLit{Keys: []string{"甲", "乙", "丙"}, KeyForm: []int{0, 1, 0}, Vals: []zr.Expr{intLit(1), intLit(2), intLit(3)}}, Body: b}, tag("ad")}
		}
		return nil
	}
	isLoop := func(k string) bool { return k == "while" || k == "iter-list" || k == "iter-dict" }
	for _, outer := range containers {
		for _, inner := range containers {
			for _, tr := range transfers {
				if tr != "return" && !isLoop(outer) && !isLoop(inner) {
					continue
				}
				for _, where := range []string{"inner", "outer-after-inner"} {
					if where == "outer-after-inner" && tr != "return" && !isLoop(outer) {
						continue
					}
					for _, inMethod := range []bool{false, true} {
						var t zr.Stmt
						switch tr {
						case "return":
							t = zr.Return{E: intLit(42)}
						case "break":
							t = zr.Break{}
						case "continue":
							t = zr.Continue{}
						}
						// guard so that the first pass runs through and the second transfers
						guarded := []zr.Stmt{zr.Show(zr.S("pre")), t, zr.Show(zr.S("post"))}
						var body []zr.Stmt
						if where == "inner" {
							body = mk(outer, 1, mk(inner, 2, guarded))
						} else {
							body = mk(outer, 1, append(mk(inner, 2, []zr.Stmt{zr.Show(zr.S("in"))}), guarded...))
						}
						body = append(body, zr.Show(zr.S("end")))
						p := &zr.Program{}
						if inMethod {
							fd := &zr.FuncDef{Name: "方法甲", Body: append(body, zr.Return{E: intLit(7)})}
							p.Body = []zr.Stmt{fd, zr.Show(zr.S("r"), zr.CallE("方法甲")), zr.Show(zr.S("after"))}
						} else {
							p.Body = append(body, zr.ExprStmt{E: intLit(7)})
						}
						progs = append(progs, p)
						shapes = append(shapes, fmt.Sprintf("place/%s/%s/%s/%s/%v", outer, inner, tr, where, inMethod))
					}
				}
			}
		}
	}
	return progs, shapes
}

func checkC02(c *Ctx) {
	c.rule = "programs: (a) bounded-exhaustive: every placement of one transfer statement (输出, 结束循环, 继续循环) in every 2-level nesting of {如果, 否则, 每当, 遍历-list, 遍历-dict}, inside and outside a method, with display marks before/after every transfer; (b) random statement trees (如果/再如/否则, 每当, 遍历 over list/dict literals and variables with 0/1/2 names, break/continue/输出 at any depth, methods, final expression statement, non-boolean conditions). Oracle: reference evaluator (result + ordered display trace); termination by evaluator tick budget 50x the reference step count. distinct_nontrivial = distinct (family, feature set / placement, outcome kind)"
	c.assumptions = []string{"generated programs terminate by construction (loops have literal bounds)", "cases the reference marks unspecified (U1-U9 in DESIGN) are skipped and counted"}
	rng := c.Rand("c02")
	progs, shapes := c02Placements()
	c.Count("exhaustive_placements", int64(len(progs)))
	n := c.Pick(4000, 300000)
	for i := 0; i < n; i++ {
		g := newPgen(rng, genOpts{maxDepth: 2 + rng.Intn(c.Pick(3, 6)), stmts: 3, funcs: 2, loops: true, returns: true, collections: true, illTyped: true, recursion: 3})
		p := g.program()
		progs = append(progs, p)
		shapes = append(shapes, "rand/"+featureKey(g.features))
	}
	var inputs []map[string]Val
	// every other program is rendered in a random licensed layout (synonymous spellings, comments,
	// separators - also after the last statement -, line ends, multi-line literals): the control
	// flow and the program's value must not depend on it
	c.runRefCases("flow", progs, inputs, shapes, func(i int) zr.Layout {
		if i%2 == 0 {
			return zr.Layout{}
		}
		return zr.RandomLayout(rand.New(rand.NewSource(c.Seed*1000003 + int64(i))))
	}, nil)
}
