package main

import (
	"fmt"
	"math/rand"

	. "verif/internal/proto"
	zr "verif/internal/znref"
)

func init() { register("C02", "exploration", checkC02) }

// exhaustive placement of one transfer statement in every position of 2-level nestings
func c02Placements() ([]*zr.Program, []string) {
	progs := []*zr.Program{}
	shapes := []string{}
	containers := []string{"if", "while", "iter-list", "iter-dict", "else"}
	transfers := []string{"return", "break", "continue"}
	mk := func(kind string, id int, body []zr.Stmt) []zr.Stmt {
		tag := func(s string) zr.Stmt { return zr.Show(zr.S(fmt.Sprintf("%s%d", s, id))) }
		switch kind {
		case "if":
			return []zr.Stmt{zr.If{Cond: zr.N("真"), Then: append([]zr.Stmt{tag("i")}, body...)}, tag("ai")}
		case "else":
			return []zr.Stmt{zr.If{Cond: zr.N("假"), Then: []zr.Stmt{tag("x")}, HasElse: true, Else: append([]zr.Stmt{tag("e")}, body...)}, tag("ae")}
		case "while":
			cn := fmt.Sprintf("计%d", id)
			b := []zr.Stmt{zr.Set(zr.N(cn), zr.Bin{Op: "+", L: zr.N(cn), R: intLit(1)}), zr.Show(zr.S(fmt.Sprintf("w%d", id)), zr.N(cn))}
			b = append(b, body...)
			b = append(b, tag("we"))
			return []zr.Stmt{zr.LetS(cn, intLit(0)), zr.While{Cond: zr.Bin{Op: "<", L: zr.N(cn), R: intLit(3)}, Body: b}, tag("aw")}
		case "iter-list":
			v := fmt.Sprintf("项%d", id)
			b := append([]zr.Stmt{zr.Show(zr.S(fmt.Sprintf("l%d", id)), zr.N(v))}, body...)
			b = append(b, tag("le"))
			return []zr.Stmt{zr.Iter{Names: []string{v}, Over: zr.ListLit{Items: []zr.Expr{intLit(7), intLit(8), intLit(9)}}, Body: b}, tag("al")}
		case "iter-dict":
			k, v := fmt.Sprintf("键%d", id), fmt.Sprintf("值%d", id)
			b := append([]zr.Stmt{zr.Show(zr.S(fmt.Sprintf("d%d", id)), zr.N(k), zr.N(v))}, body...)
			b = append(b, tag("de"))
			return []zr.Stmt{zr.Iter{Names: []string{k, v}, Over: zr.DictLit{Keys: []string{"甲", "乙", "丙"}, KeyForm: []int{0, 1, 0}, Vals: []zr.Expr{intLit(1), intLit(2), intLit(3)}}, Body: b}, tag("ad")}
		}
		return nil
	}
	isLoop := func(k string) bool { return k == "while" || k == "iter-list" || k == "iter-dict" }
	for _, outer := range containers {
		for _, inner := range containers {
			for _, tr := range transfers {
				if tr != "return" && !isLoop(outer) && !isLoop(inner) {
					continue
				}
				for _, where := range []string{"inner", "outer-after-inner"} {
					if where == "outer-after-inner" && tr != "return" && !isLoop(outer) {
						continue
					}
					for _, inMethod := range []bool{false, true} {
						var t zr.Stmt
						switch tr {
						case "return":
							t = zr.Return{E: intLit(42)}
						case "break":
							t = zr.Break{}
						case "continue":
							t = zr.Continue{}
						}
						// guard so that the first pass runs through and the second transfers
						guarded := []zr.Stmt{zr.Show(zr.S("pre")), t, zr.Show(zr.S("post"))}
						var body []zr.Stmt
						if where == "inner" {
							body = mk(outer, 1, mk(inner, 2, guarded))
						} else {
							body = mk(outer, 1, append(mk(inner, 2, []zr.Stmt{zr.Show(zr.S("in"))}), guarded...))
						}
						body = append(body, zr.Show(zr.S("end")))
						p := &zr.Program{}
						if inMethod {
							fd := &zr.FuncDef{Name: "方法甲", Body: append(body, zr.Return{E: intLit(7)})}
							p.Body = []zr.Stmt{fd, zr.Show(zr.S("r"), zr.CallE("方法甲")), zr.Show(zr.S("after"))}
						} else {
							p.Body = append(body, zr.ExprStmt{E: intLit(7)})
						}
						progs = append(progs, p)
						shapes = append(shapes, fmt.Sprintf("place/%s/%s/%s/%s/%v", outer, inner, tr, where, inMethod))
					}
				}
			}
		}
	}
	return progs, shapes
}

func checkC02(c *Ctx) {
	c.rule = "programs: (a) bounded-exhaustive: every placement of one transfer statement (输出, 结束循环, 继续循环) in every 2-level nesting of {如果, 否则, 每当, 遍历-list, 遍历-dict}, inside and outside a method, with display marks before/after every transfer; (b) random statement trees (如果/再如/否则, 每当, 遍历 over list/dict literals and variables with 0/1/2 names, break/continue/输出 at any depth, methods, final expression statement, non-boolean conditions); (c) hand-written programs whose 每当 condition binds its result with 得到 (re-tested on every pass, with 继续循环 / 结束循环 / 输出, nested in 遍历 and in a method; 输出 in the body of a 每当 whose condition has an effect, displays, faults or is no longer boolean afterwards; expected value and display written down; 遍历 whose loop variable carries the name of something its own header uses: the list itself, the outer element, an argument, an index, an object; 遍历 over a dictionary after its copy / its original was changed structurally). Oracle: reference evaluator (result + ordered display trace); termination by evaluator tick budget 50x the reference step count. distinct_nontrivial = distinct (family, feature set / placement, outcome kind)"
	c.assumptions = []string{"generated programs terminate by construction (loops have literal bounds)", "cases the reference marks unspecified (U1-U9 in DESIGN) are skipped and counted"}
	rng := c.Rand("c02")
	progs, shapes := c02Placements()
	c.Count("exhaustive_placements", int64(len(progs)))
	n := c.Pick(4000, 300000)
	for i := 0; i < n; i++ {
		g := newPgen(rng, genOpts{maxDepth: 2 + rng.Intn(c.Pick(3, 6)), stmts: 3, funcs: 2, loops: true, returns: true, collections: true, illTyped: true, recursion: 3})
		p := g.program()
		progs = append(progs, p)
		shapes = append(shapes, "rand/"+featureKey(g.features))
	}
	// 每当 re-tests its condition before every pass, whatever form the condition takes: a call whose
	// result is bound with 得到 is a condition like any other (hand-written expected outcomes)
	{
		type hp struct{ name, src, wantVal, wantDisplay string }
		cnt := "定义计：\n\t其数 = 0\n\t如何增？\n\t\t其数 = 其数 + 1\n\t\t输出 其数 < 4\n令器 = （新建计）\n"
		hps := []hp{
			{"while-cond/yield-of-object-call", cnt + "每当 以器（增）得到果：\n\t（显示：“pass”、果、器之数）\n输出 器之数\n", "num(4)", "pass 真 1\npass 真 2\npass 真 3\n"},
			{"while-cond/yield-of-call-with-break", "如何恒真？\n\t输出 真\n令次 = 0\n每当 （恒真），得到果：\n\t次 = 次 + 1\n\t如果 次 >= 3：\n\t\t结束循环\n输出 次\n", "num(3)", ""},
			{"while-cond/yield-with-continue", cnt + "每当 以器（增）得到果：\n\t如果 器之数 == 2：\n\t\t继续循环\n\t（显示：器之数）\n输出 器之数\n", "num(4)", "1\n3\n"},
			{"while-cond/yield-in-method", cnt + "如何跑？\n\t输入物\n\t每当 以物（增）得到果：\n\t\t如果 物之数 == 3：\n\t\t\t输出 “三”\n\t输出 “完”\n输出（跑：器）\n", `text("三")`, ""},
			{"while-cond/yield-name-gone-after", cnt + "每当 以器（增）得到果：\n\t令甲 = 1\n令果 = 5\n输出 果\n", "num(5)", ""},
			{"while-cond/yield-nested-loops", cnt + "令和 = 0\n以项遍历【1，2】：\n\t令内 = （新建计）\n\t每当 以内（增）得到果：\n\t\t和 = 和 + 项\n输出 和\n", "num(9)", ""},
		}
		// 输出 inside a 每当 body ends the loop at once: the condition is not tested again (its effects
		// would be further effects of the loop; a condition that cannot be evaluated any more in
		// the state the 输出 left behind would turn the result into an error)
		cnt2 := "定义计：\n\t其数 = 0\n\t如何增？\n\t\t其数 = 其数 + 1\n\t\t输出 真\n令器 = （新建计）\n"
		hps = append(hps,
			hp{"while-return/condition-with-effect", cnt2 + "如何找？\n\t输入物\n\t每当 以物（增）：\n\t\t如果 物之数 == 3：\n\t\t\t输出 “找到”\n\t输出 “无”\n令果 = （找：器）\n输出【果，器之数】\n", `list[text("找到"),num(3)]`, ""},
			hp{"while-return/condition-faults-afterwards", "如何寻？\n\t令数列 = 【5，6，7】\n\t令位 = 0\n\t每当 数列#{位 + 1} > 0：\n\t\t位 = 位 + 1\n\t\t如果 位 == 3：\n\t\t\t输出 位\n\t输出 -1\n输出（寻）\n", "num(3)", ""},
			hp{"while-return/program-level-condition-displays", "如何查？\n\t（显示：“c”）\n\t输出 真\n令次 = 0\n每当 （查）：\n\t次 = 次 + 1\n\t如果 次 == 2：\n\t\t输出 次\n", "num(2)", "c\nc\n"},
			hp{"while-return/nested-in-iteration", cnt2 + "如何找？\n\t输入物\n\t以项遍历【1，2】：\n\t\t每当 以物（增）：\n\t\t\t输出 项\n\t输出 0\n令果 = （找：器）\n输出【果，器之数】\n", `list[num(1),num(1)]`, ""},
			hp{"while-return/condition-no-longer-boolean", "如何寻？\n\t令旗 = 真\n\t每当 旗：\n\t\t旗 = 5\n\t\t输出 “完”\n\t输出 “无”\n输出（寻）\n", `text("完")`, ""},
		)
		// 遍历 visits the elements of the collection its header names: the header is read before the
		// loop's own names exist, so a loop variable may carry the name of something the header uses
		hps = append(hps,
			hp{"iterate-header/variable-named-like-the-list", "令项 = 【10，20，30】\n令和 = 0\n以项遍历项：\n\t和 = 和 * 10 + 项 / 10\n输出 和\n", "num(123)", ""},
			hp{"iterate-header/list-visible-again-after", "令项 = 【1，2】\n以项遍历项：\n\t（显示：项）\n输出 项#2\n", "num(2)", "1\n2\n"},
			hp{"iterate-header/nested-reuse-of-element-name", "令表 = 【【1，2】，【3】，【4，5，6】】\n以序、行遍历表：\n\t以位、行遍历行：\n\t\t（显示：序、位、行）\n输出 0\n", "num(0)", "1 1 1\n1 2 2\n2 1 3\n3 1 4\n3 2 5\n3 3 6\n"},
			hp{"iterate-header/dictionary-value-name-in-method", "如何列？\n\t输入值\n\t以键、值遍历值：\n\t\t（显示：键、值）\n\t输出 1\n输出（列：【“乙” = 1，“甲” = 2】）\n", "num(1)", "乙 1\n甲 2\n"},
			hp{"iterate-header/argument-named-like-the-variable", "如何造表？\n\t输入底\n\t输出【底，底 + 1】\n令数 = 5\n以数遍历（造表：数）：\n\t（显示：数）\n输出 数\n", "num(5)", "5\n6\n"},
			hp{"iterate-header/index-name-used-in-header", "令序 = 2\n令表 = 【【7】，【8，9】】\n以序、项遍历表#序：\n\t（显示：序、项）\n输出 序\n", "num(2)", "1 8\n2 9\n"},
			hp{"iterate-header/member-of-object-named-like-variable", "定义箱：\n\t其物 = 【4，5】\n令物 = （新建箱）\n以物遍历物之物：\n\t（显示：物）\n输出 物之物\n", "list[num(4),num(5)]", "4\n5\n"},
			hp{"iterate-header/inside-while-pass", "令项 = 【1，2】\n令次 = 0\n每当 次 < 2：\n\t次 = 次 + 1\n\t以项遍历项：\n\t\t（显示：次、项）\n输出 次\n", "num(2)", "1 1\n1 2\n2 1\n2 2\n"},
		)
		// 遍历 visits the entries of *this* dictionary in the order they were put into it, whatever
		// happened meanwhile to a copy of it (or to the dictionary it was copied from)
		d3 := "令甲 = 【“a” = 1，“b” = 2，“c” = 3】\n令乙 = 甲\n"
		loop := func(n string) string { return "以键、值遍历" + n + "：\n\t（显示：键、值）\n" }
		hps = append(hps,
			hp{"iterate-copy/entry-removed-from-the-original", d3 + "以甲（移除：“a”）\n" + loop("乙") + loop("甲") + "输出 0\n", "num(0)", "a 1\nb 2\nc 3\nb 2\nc 3\n"},
			hp{"iterate-copy/entry-removed-from-the-copy", d3 + "以乙（移除：“b”）\n" + loop("甲") + loop("乙") + "输出 0\n", "num(0)", "a 1\nb 2\nc 3\na 1\nc 3\n"},
			hp{"iterate-copy/new-keys-written-into-both", d3 + "以甲（写入：“p”、10）\n以乙（写入：“q”、20）\n" + loop("乙") + loop("甲") + "输出 0\n", "num(0)", "a 1\nb 2\nc 3\nq 20\na 1\nb 2\nc 3\np 10\n"},
			hp{"iterate-copy/copy-of-a-copy-and-reinsert", d3 + "令丙 = 乙\n以乙（移除：“a”）\n乙#“a” = 9\n丙#“d” = 4\n" + loop("乙") + loop("丙") + loop("甲") + "输出 0\n", "num(0)", "b 2\nc 3\na 9\na 1\nb 2\nc 3\nd 4\na 1\nb 2\nc 3\n"},
			hp{"iterate-copy/list-of-dictionaries", "令表 = 【【“a” = 1，“b” = 2】】\n令副 = 表\n以表#1（移除：“a”）\n以副#1（写入：“z”、0）\n" + loop("副#1") + loop("表#1") + "输出 0\n", "num(0)", "a 1\nb 2\nz 0\nb 2\n"},
		)
		hreqs := []Req{}
		for _, h := range hps {
			hreqs = append(hreqs, execReq(h.src))
		}
		c.runBatches(hreqs, 10, func(r int, req *Req, resp *Resp) {
			c.Eval()
			h := hps[r]
			c.Nontrivial("hand|" + h.name + "|" + resp.Kind)
			got := resp.Kind
			if resp.Kind == "value" && resp.Val != nil {
				got = resp.Val.String()
			} else if resp.Kind == "error" && resp.Err != nil {
				got = fmt.Sprintf("error:%d", resp.Err.Code)
			}
			if got != h.wantVal || resp.Display != h.wantDisplay {
				c.Violation("hand:"+h.name, fmt.Sprintf("%s: outcome %s %v display %q, expected %s display %q\nprogram:\n%s", h.name, got, resp.Err, resp.Display, h.wantVal, h.wantDisplay, h.src), map[string]interface{}{"req": req})
			}
		})
	}
	var inputs []map[string]Val
	// every other program is rendered in a random licensed layout (synonymous spellings, comments,
	// separators - also after the last statement -, line ends, multi-line literals): the control
	// flow and the program's value must not depend on it
	c.runRefCases("flow", progs, inputs, shapes, func(i int) zr.Layout {
		if i%2 == 0 {
			return zr.Layout{}
		}
		return zr.RandomLayout(rand.New(rand.NewSource(c.Seed*1000003 + int64(i))))
	}, nil)
}
