package main

import (
	"fmt"
	"os"
	"os/exec"
	"path/filepath"
	"regexp"
	"strings"

	. "verif/internal/proto"
	zr "verif/internal/znref"
)

var reSiteLine = regexp.MustCompile(`:[0-9]+ `)

func init() { register("C11", "exploration", checkC11) }

type c11Case struct {
	name  string
	req   Req
	fam   string
}

func checkC11(c *Ctx) {
	reps := c.Pick(40, 300)
	c.rule = fmt.Sprintf("repetition monitor: every program of a corpus aimed at hash-map iteration sites (dictionary equality / 包含 / 寻找 with >=3 keys, also with entries mixing equal, different, ill-typed and non-comparable values (objects) so that two entries could each decide the outcome, 解析JSON of objects with >=5 keys then display / iterate / regenerate, import-all with colliding export names across two modules, selective imports, a standard library imported twice / item by item / from two modules of one program, objects of types with many defaults, library operations that fail half way followed by ones that succeed (生成JSON / 解析JSON / %), input expressions that fail in two places, uncaught errors raised inside nested calls, nine HTTP request / response shapes - several header or query values that are not valid UTF-8, empty, very long or repeated; distinct names, names differing only in letter case in query and header map, repeated names, a response with case-variant header keys, a response whose default headers are extended - each served repeatedly through ZnHttpHandler) plus samples of the generated corpora of C01/C02/C07/C09/C12 is executed %d times in one process; result, display trace and error text must be identical across repetitions. Order monitor: the left dictionary of a comparison (为 / 不为 / 包含 / 寻找) is rebuilt in four insertion orders of the same entries (one of them an object, one differing), the answer - a value or an error code - must be the same for all. A canary ranges over a 6-key Go map the same number of times and records how many distinct orders it saw (shows that the runtime's randomisation was live). distinct_nontrivial = distinct (family, program) with at least one dictionary / module / object in play", reps)
	c.assumptions = []string{"each repetition draws fresh hash-map iteration orders from the Go runtime (canary reported in the evidence)", "取随机数 is never called"}
	rng := c.Rand("c11")
	cases := []c11Case{}
	add := func(fam, name, src string, mut func(r *Req)) {
		r := execReq(src)
		r.Reps = reps
		r.EvalBudget = 400000
		if mut != nil {
			mut(&r)
		}
		cases = append(cases, c11Case{name, r, fam})
		if d := os.Getenv("VERIF_C11_DUMP"); d != "" && fam == d {
			f, _ := os.OpenFile("scratch/c11dump.txt", os.O_APPEND|os.O_CREATE|os.O_WRONLY, 0o644)
			f.WriteString(src + "\n====\n")
			f.Close()
		}
	}
	// a. dictionary equality / contains / find
	for n := 3; n <= 8; n++ {
		keys := []string{}
		for i := 0; i < n; i++ {
			keys = append(keys, fmt.Sprintf("键%c", nameGlyphs[i]))
		}
		lit := func(vals []int) string {
			parts := []string{}
			for i, k := range keys {
				parts = append(parts, fmt.Sprintf("“%s” = %d", k, vals[i]))
			}
			return "【" + strings.Join(parts, "，") + "】"
		}
		a := make([]int, n)
		b := make([]int, n)
		for i := range a {
			a[i] = i
			b[i] = i
		}
		for diff := 1; diff < n; diff++ {
			b[diff] = 99 // first key equal, some later ones differ
			src := fmt.Sprintf("令甲 = %s\n令乙 = %s\n令列 = 【甲，1，乙】\n（显示：甲 为 乙、甲 == 乙、甲 不为 乙、甲 /= 乙）\n（显示：以列（包含：乙）、以【甲】（包含：乙）、以【1，甲】（寻找：乙））\n输出 甲 为 乙\n", lit(a), lit(b))
			add("dict-equality", fmt.Sprintf("n%d-diff%d", n, diff), src, nil)
		}
	}
	// a2. dictionaries whose entries mix comparable and non-comparable values (objects), equal
	// and different ones: which entry decides (an error or 假) must not depend on the order in
	// which the implementation happens to visit the entries
	rels := []string{"eq", "ne", "obj", "null", "mismatch", "list-ne", "list-obj", "dict-ne", "null-vs-num"}
	relVals := func(rel string, i int) (string, string) {
		switch rel {
		case "eq":
			return fmt.Sprint(i), fmt.Sprint(i)
		case "ne":
			return fmt.Sprint(i), fmt.Sprint(i + 100)
		case "obj":
			return "物", "物"
		case "null":
			return "空", "空"
		case "mismatch":
			return fmt.Sprint(i), fmt.Sprintf("“%d”", i)
		case "list-ne":
			return fmt.Sprintf("【1，%d】", i), fmt.Sprintf("【1，%d】", i+1)
		case "list-obj":
			return "【1，物】", "【1，物】"
		case "dict-ne":
			return fmt.Sprintf("【“x” = %d，“y” = 2】", i), fmt.Sprintf("【“x” = %d，“y” = 3】", i)
		}
		return "空", fmt.Sprint(i)
	}
	for i := 0; i < c.Pick(60, 600); i++ {
		n := 3 + rng.Intn(4)
		la, lb := []string{}, []string{}
		used := []string{}
		for k := 0; k < n; k++ {
			rel := rels[rng.Intn(len(rels))]
			if k == 0 && i%2 == 0 {
				rel = "obj"
			}
			if k == 1 && i%2 == 0 {
				rel = []string{"ne", "mismatch", "list-ne", "dict-ne", "null-vs-num"}[rng.Intn(5)]
			}
			used = append(used, rel)
			va, vb := relVals(rel, k)
			la = append(la, fmt.Sprintf("“键%c” = %s", nameGlyphs[k], va))
			lb = append(lb, fmt.Sprintf("“键%c” = %s", nameGlyphs[k], vb))
		}
		if rng.Intn(3) == 0 { // same entries, different insertion order
			rng.Shuffle(len(lb), func(x, y int) { lb[x], lb[y] = lb[y], lb[x] })
		}
		pre := fmt.Sprintf("定义物类：\n\t其数 = 1\n令物 = （新建物类）\n令甲 = 【%s】\n令乙 = 【%s】\n", strings.Join(la, "，"), strings.Join(lb, "，"))
		for oi, op := range []string{"输出 甲 为 乙", "输出 甲 == 乙", "输出 甲 不为 乙", "输出 以【1，甲】（包含：乙）", "输出 以【1，甲】（寻找：乙）", "输出 【甲，2】 为 【乙，2】"} {
			add("dict-equality-mixed", fmt.Sprintf("%s/op%d/%d", strings.Join(used, ","), oi, i), pre+op+"\n", nil)
		}
	}
	// a3. the same entries written in another order are the same contents: the left dictionary of
	// a comparison is rebuilt in several insertion orders, the answer (a value or an error) must
	// be the same for all of them
	for i := 0; i < c.Pick(40, 400); i++ {
		n := 3 + rng.Intn(3)
		la, lb := []string{}, []string{}
		for k := 0; k < n; k++ {
			rel := rels[rng.Intn(len(rels))]
			if k == i%n {
				rel = "obj"
			}
			if k == (i+1)%n {
				rel = []string{"ne", "mismatch", "list-ne", "dict-ne", "null-vs-num"}[rng.Intn(5)]
			}
			va, vb := relVals(rel, k)
			la = append(la, fmt.Sprintf("“键%c” = %s", nameGlyphs[k], va))
			lb = append(lb, fmt.Sprintf("“键%c” = %s", nameGlyphs[k], vb))
		}
		perms := [][]string{append([]string{}, la...)}
		rev := []string{}
		for k := len(la) - 1; k >= 0; k-- {
			rev = append(rev, la[k])
		}
		perms = append(perms, rev)
		for extra := 0; extra < 2; extra++ {
			sh := append([]string{}, la...)
			rng.Shuffle(len(sh), func(x, y int) { sh[x], sh[y] = sh[y], sh[x] })
			perms = append(perms, sh)
		}
		for oi, op := range []string{"输出 甲 为 乙", "输出 甲 不为 乙", "输出 以【1，甲】（包含：乙）", "输出 以【1，甲】（寻找：乙）", "输出 乙 为 甲"} {
			for pi, pm := range perms {
				pre := fmt.Sprintf("定义物类：\n\t其数 = 1\n令物 = （新建物类）\n令甲 = 【%s】\n令乙 = 【%s】\n", strings.Join(pm, "，"), strings.Join(lb, "，"))
				add("dict-equality-order", fmt.Sprintf("g%d/op%d#perm%d", i, oi, pi), pre+op+"\n", nil)
			}
		}
	}
	// b. parsed JSON
	for i := 0; i < c.Pick(40, 600); i++ {
		v := c19Dict(rng, 2)
		for len(v.Items) < 5 || hasNonFinite(v) {
			keys := []string{}
			vals := []Val{}
			for k := 0; k < 5+rng.Intn(6); k++ {
				keys = append(keys, fmt.Sprintf("k%d", k*7%11))
				vals = append(vals, c19Value(rng, 1))
			}
			v = Dict(dedupe(keys), vals[:len(dedupe(keys))])
		}
		if i%2 == 0 {
			v = c19Rich(rng, 2) // objects inside arrays and nested arrays
		}
		src := "导入《@JSON》\n输入典\n令文 =（生成JSON：典）\n令回 =（解析JSON：文）\n（显示：回）\n以键、值遍历回：\n\t（显示：键、值）\n（显示：回之所有索引）\n输出（生成JSON：回）\n"
		add("json-parse", fmt.Sprintf("doc%d", i), src, func(r *Req) { r.Libs = true; r.Inputs = map[string]Val{"典": v} })
	}
	// b2. an operation that fails half way, then the same kind of operation succeeding (in the same
	// run and, because the program is repeated in one process, in the next run): what the failed one
	// left behind - a partly written buffer, a half-filled table - must not show in any later result
	{
		tryM := "如何试写？\n\t输入值\n\t输出（生成JSON：值）\n\n\t拦截异常：\n\t\t输出 “refused”\n如何试读？\n\t输入字\n\t输出（解析JSON：字）\n\n\t拦截异常：\n\t\t输出 “refused”\n如何试排？\n\t输入模、参\n\t输出 模 % 参\n\n\t拦截异常：\n\t\t输出 “refused”\n"
		fs := []struct{ name, body string }{
			{"generate/unrepresentable-then-fine", "（显示：（试写：【“名” = “丑”，“坏” = 显示】））\n（显示：（试写：【“名” = “寅”】））\n输出（生成JSON：【“甲” = 【1，2】】）\n"},
			{"generate/non-finite-then-fine", "令大 = 1.7E+308 * 10\n（显示：（试写：【“a” = 【1，2，“长长长长长长长长”】，“b” = 大】））\n输出（生成JSON：【“c” = 3】）\n"},
			{"generate/fine-then-uncaught-failure", "（显示：（生成JSON：【“好” = 1】））\n（显示：（生成JSON：【“前” = “缀缀缀”，“坏” = 显示】））\n"},
			{"generate/nested-failure-then-fine", "定义物类：\n\t其数 = 1\n令物 = （新建物类）\n（显示：（试写：【“a” = 【“深” = 【1，【2，物】】】】））\n（显示：（试写：【】））\n输出（试写：【“z” = 空】）\n"},
			{"parse/garbage-then-fine", "（显示：（试读：“{\"a\":[1,2,”））\n（显示：（试读：“{\"b\":[3]}”））\n输出（解析JSON：“{\"c\":{\"d\":4}}”）\n"},
			{"format/failure-then-fine", "（显示：（试排：“甲{}乙{#.2}”、【1，“x”】））\n输出 “甲{}乙{#.2}” % 【1，2】\n"},
			{"generate-in-loop/alternating", "以序遍历【1，2，3，4，5，6】：\n\t如果 序 % 2 == 1：\n\t\t（显示：（试写：【“序” = 序，“坏” = 试写】））\n\t否则：\n\t\t（显示：（试写：【“序” = 序】））\n输出 0\n"},
		}
		for _, f := range fs {
			add("failure-then-success", f.name, "导入《@JSON》\n"+tryM+f.body, func(r *Req) { r.Libs = true })
		}
	}
	// c. imports: collisions, import-all, selective
	modA := "如何方法甲？\n\t输出 1\n如何方法乙？\n\t输出 2\n如何方法丙？\n\t输出 3\n定义型甲：\n\t其数 = 1\n定义型乙：\n\t其数 = 2\n（显示：“body-A”）\n"
	modB := "如何方法甲？\n\t输出 10\n如何方法乙？\n\t输出 20\n如何方法丙？\n\t输出 30\n定义型甲：\n\t其数 = 10\n（显示：“body-B”）\n"
	files := func(main string) []File {
		return []File{{Path: "main.zn", Data: widen([]byte(main))}, {Path: "模甲.zn", Data: widen([]byte(modA))}, {Path: "模乙.zn", Data: widen([]byte(modB))}}
	}
	imports := map[string]string{
		"collide-all":       "导入“模甲”\n导入“模乙”\n输出（方法甲）\n",
		"collide-local":     "导入“模甲”\n如何方法乙？\n\t输出 5\n如何方法丙？\n\t输出 6\n输出（方法乙）\n",
		"import-all-use":    "导入“模甲”\n（显示：（方法甲）、（方法乙）、（方法丙））\n输出（新建型乙）之数\n",
		"selective":         "导入“模甲”之方法乙、型甲\n导入“模乙”之方法甲、方法丙\n（显示：（方法甲）、（方法乙）、（方法丙））\n输出（新建型甲）之数\n",
		"selective-collide": "导入“模甲”之方法乙、方法甲\n导入“模乙”之方法甲、方法乙\n输出 1\n",
		"std-and-custom":    "导入《@JSON》\n导入“模甲”\n输出（生成JSON：【“a” =（方法甲）】）\n",
	}
	for n, src := range imports {
		s := src
		add("imports", n, "", func(r *Req) { r.Src = nil; r.Main = "main.zn"; r.Files = files(s); r.Libs = true })
	}
	// the same library reached more than once in one execution (twice in one file, item by item,
	// from two modules): whatever the verdict is, it names the same thing every time
	modC := "导入《@JSON》\n导入《@文件》\n如何编？\n\t输入值\n\t输出（生成JSON：值）\n"
	modD := "导入《@文件》\n导入《@JSON》\n如何读？\n\t输入文\n\t输出（解析JSON：文）\n"
	twice := map[string]string{
		"std-twice":              "导入《@JSON》\n导入《@JSON》\n输出（生成JSON：【“a” = 1】）\n",
		"std-twice-item-by-item": "导入《@JSON》之解析JSON\n导入《@JSON》之生成JSON\n输出（生成JSON：（解析JSON：“{\\\"a\\\":1}”））\n",
		"std-file-item-by-item":  "导入《@文件》之读取文件\n导入《@文件》之写入文件\n导入《@文件》之读取目录\n输出 1\n",
		"std-from-two-modules":   "导入“模丙”\n导入“模丁”\n输出（编：（读：“{\\\"k\\\":[1,2]}”））\n",
		"std-main-and-module":    "导入《@JSON》\n导入“模丙”\n导入《@文件》\n输出【（编：【“a” = 1】），（解析JSON：“{}”）】\n",
		"std-all-then-item":      "导入《@JSON》\n导入《@JSON》之生成JSON\n输出 1\n",
	}
	for n, src := range twice {
		s := src
		add("imports", n, "", func(r *Req) {
			r.Src = nil
			r.Main = "main.zn"
			r.Files = []File{{Path: "main.zn", Data: widen([]byte(s))}, {Path: "模丙.zn", Data: widen([]byte(modC))}, {Path: "模丁.zn", Data: widen([]byte(modD))}}
			r.Libs = true
		})
	}
	// d. objects of a type with many defaults; error chains
	var cls strings.Builder
	cls.WriteString("定义大型：\n")
	for i := 0; i < 12; i++ {
		cls.WriteString(fmt.Sprintf("\t其属%c = 【%d，【“k” = %d】】\n", nameGlyphs[i], i, i))
	}
	cls.WriteString("\n\t如何汇总？\n\t\t输出【")
	for i := 0; i < 12; i++ {
		if i > 0 {
			cls.WriteString("，")
		}
		cls.WriteString(fmt.Sprintf("其属%c", nameGlyphs[i]))
	}
	cls.WriteString("】\n")
	add("objects", "many-defaults", cls.String()+"令物 =（新建大型）\n令又 =（新建大型）\n以物之属甲（后增：9）\n（显示：以物（汇总））\n输出以又（汇总）\n", nil)
	add("errors", "nested-uncaught", "如何内？\n\t输入数\n\t输出 数 / 0\n如何外？\n\t输入数\n\t输出（内：数）+ 1\n令典 = 【“a” = 1，“b” = 2，“c” = 3】\n以键、值遍历典：\n\t（显示：键）\n输出（外：5）\n", nil)
	add("errors", "two-undefined", "令典 = 【“a” = 未名甲，“b” = 未名乙，“c” = 未名丙】\n", nil)
	// e. input expressions failing in two places
	for i := 0; i < c.Pick(6, 40); i++ {
		strs := []string{}
		for k := 0; k < 6; k++ {
			val := fmt.Sprint(k)
			if k == 1 || k == 4 {
				val = fmt.Sprintf("未名%c + %d", nameGlyphs[k], i)
			}
			strs = append(strs, fmt.Sprintf("变%c", nameGlyphs[k]), val)
		}
		cases = append(cases, c11Case{fmt.Sprintf("exprinput%d", i), Req{Op: "exprinput", Strs: strs, Reps: reps}, "input-expressions"})
	}
	// f. samples of the generated corpora
	for i := 0; i < c.Pick(250, 4000); i++ {
		var p *zr.Program
		switch i % 4 {
		case 0:
			g := newPgen(rng, genOpts{maxDepth: 3, stmts: 3, funcs: 2, classes: 1, loops: true, returns: true, collections: true, recursion: 3, exceptions: true, faults: true, mutation: true})
			p = g.program()
		case 1:
			g := &c07Gen{r: rng, feat: map[string]bool{}}
			p = g.program(8)
		case 2:
			g := &c12Gen{r: rng, feat: map[string]bool{}}
			p = g.program(8)
		default:
			g := newPgen(rng, genOpts{maxDepth: 2, stmts: 4, funcs: 3, classes: 2, loops: true, collections: true, recursion: 2, mutation: true})
			p = g.program()
		}
		add("generated", fmt.Sprintf("gen%d", i), zr.Render(p, zr.Layout{}), nil)
	}
	for i, s := range corpus {
		if strings.Contains(s, "输入") {
			continue
		}
		add("corpus", fmt.Sprintf("corpus%d", i), s, func(r *Req) { r.Libs = true })
	}
	reqs := make([]Req, len(cases))
	for i := range cases {
		reqs[i] = cases[i].req
	}
	minCanary := 1 << 30
	maxCanary := 0
	orderOutcomes := map[string]map[string]string{} // group -> outcome -> one program showing it
	c.runBatches(reqs, 6, func(i int, req *Req, resp *Resp) {
		cs := cases[i]
		if cs.fam == "dict-equality-order" && (resp.Kind == "value" || resp.Kind == "error") {
			o := resp.Kind
			if resp.Kind == "value" && resp.Val != nil {
				o = resp.Val.String()
			} else if resp.Err != nil {
				o = fmt.Sprintf("error %d", resp.Err.Code)
			}
			g := strings.SplitN(cs.name, "#", 2)[0]
			c.mu.Lock()
			if orderOutcomes[g] == nil {
				orderOutcomes[g] = map[string]string{}
			}
			if _, seen := orderOutcomes[g][o]; !seen {
				orderOutcomes[g][o] = RunesToString(req.Src)
			}
			c.mu.Unlock()
		}
		c.Count("evaluations", int64(reps))
		c.Count("programs", 1)
		c.Nontrivial(cs.fam + "|" + cs.name)
		c.Distinct("families", cs.fam)
		src := RunesToString(req.Src)
		if req.Main != "" {
			src = string(StringOfBytes(req.Files[0].Data))
		}
		if req.Op == "exprinput" {
			src = strings.Join(req.Strs, " | ")
		}
		if resp.Kind == "died" || resp.Kind == "timeout" || resp.Kind == "panic" || resp.Kind == "flaky" {
			c.Violation("repeat:"+cs.fam+":"+cs.name+"|"+src, fmt.Sprintf("%s/%s: outcome %s %s", cs.fam, cs.name, resp.Kind, clip(resp.Panic+resp.Stderr, 300)), map[string]interface{}{"req": req})
			return
		}
		c.mu.Lock()
		if resp.CanaryOrders > maxCanary {
			maxCanary = resp.CanaryOrders
		}
		if resp.CanaryOrders > 0 && resp.CanaryOrders < minCanary {
			minCanary = resp.CanaryOrders
		}
		c.mu.Unlock()
		if resp.RepDistinct > 1 {
			c.Violation("repeat:"+cs.fam+":"+cs.name+"|"+src, fmt.Sprintf("%s/%s: %d distinct outcomes in %d repetitions of the same program with the same inputs:\n%s\nprogram:\n%s", cs.fam, cs.name, resp.RepDistinct, reps, clip(strings.Join(resp.RepOutcomes, "\n"), 700), clip(src, 500)), map[string]interface{}{"req": req})
		} else if i%97 == 0 {
			c.Sample(map[string]interface{}{"family": cs.fam, "program": clip(src, 300), "repetitions": reps, "distinct_outcomes": resp.RepDistinct, "outcome": resp.Kind})
		}
	})
	for _, g := range SortedKeys(orderOutcomes) {
		if len(orderOutcomes[g]) > 1 {
			desc := []string{}
			for _, o := range SortedKeys(orderOutcomes[g]) {
				desc = append(desc, fmt.Sprintf("outcome %s for:\n%s", o, orderOutcomes[g][o]))
			}
			c.Violation("order:dict-equality:"+g, fmt.Sprintf("dict-equality-order/%s: the same two dictionaries compare differently when the entries of the left one are written in another order:\n%s", g, clip(strings.Join(desc, "\n"), 1500)), map[string]interface{}{"programs": orderOutcomes[g]})
		}
	}
	// g. request headers / query parameters through the real HTTP handler
	if bin, err := buildTool(c, "./srvharness", "srvharness", false); err != nil {
		c.Inconclusive(err.Error())
	} else {
		n := c.Pick(60, 400)
		sum, _, _, err := runHarness(c, bin, "headers", 1, n, c.Seed, "headers")
		if err != nil {
			c.Inconclusive("headers: " + err.Error())
		} else {
			c.Count("evaluations", int64(sum.Requests))
			c.Count("programs", 1)
			c.Nontrivial("http-headers|5 request and response shapes")
			c.Distinct("families", "http-headers")
			if sum.Distinct != 1 {
				c.Violation("repeat:http-headers:x", fmt.Sprintf("the same HTTP request served %d times produced %d distinct responses (five request / response shapes, see samples): %s", sum.Requests, sum.Distinct, clip(strings.Join(sum.Samples, " ; "), 600)),
					map[string]interface{}{"scenario": "srvharness -mode headers -n " + fmt.Sprint(n)})
			}
		}
	}
	// aiming aid (not a verdict): the range-over-map sites of the working tree, against the list
	// that was reviewed when the corpus was written (c11_sites.txt: file, function, operand)
	if bin, err := buildTool(c, "./tools/maprange", "maprange", false); err == nil {
		cmd := exec.Command(bin, repoRoot(), "pkg/exec", "pkg/value", "pkg/runtime", "pkg/common", "pkg/server", "pkg/syntax", "pkg/syntax/zh", "pkg/io", "stdlib/json", "stdlib/file")
		cmd.Env = goEnv()
		cmd.Dir = repoRoot()
		if out, err := cmd.Output(); err == nil {
			reviewed := map[string]bool{}
			if data, err := os.ReadFile(filepath.Join(c.Root, "c11_sites.txt")); err == nil {
				for _, l := range strings.Split(strings.TrimSpace(string(data)), "\n") {
					reviewed[l] = true
				}
			}
			sites, fresh := []string{}, []string{}
			for _, l := range strings.Split(strings.TrimSpace(string(out)), "\n") {
				if l == "" {
					continue
				}
				sites = append(sites, l)
				if k := reSiteLine.ReplaceAllString(l, " "); !reviewed[k] {
					fresh = append(fresh, l)
				}
			}
			c.Extra("map_range_sites", sites)
			c.Extra("map_range_sites_not_reviewed", fresh)
		}
	}
	c.Extra("canary_min_distinct_map_orders_seen", minCanary)
	c.Extra("canary_max_distinct_map_orders_seen", maxCanary)
	// a 6-key map has at most 8 iteration orders; with 40 repetitions a single request can by
	// chance see only 3 or 4 of them, so the demonstration is judged on the best request and
	// requires that no request saw a single order only
	if maxCanary < 5 || minCanary < 2 {
		c.Inconclusive(fmt.Sprintf("the canary saw between %d and %d distinct map iteration orders per request: randomisation not demonstrated", minCanary, maxCanary))
	}
}

func dedupe(keys []string) []string {
	seen := map[string]bool{}
	out := []string{}
	for _, k := range keys {
		if !seen[k] {
			seen[k] = true
			out = append(out, k)
		}
	}
	return out
}

func StringOfBytes(b []int32) []byte { return []byte(StringOf(b)) }
