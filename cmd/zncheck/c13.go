package main

import (
	"strconv"
	"fmt"
	"math/rand"
	"strings"

	. "verif/internal/proto"
)

func init() { register("C13", "exploration", checkC13) }

type quoteFamily struct {
	name        string
	open, close rune
	tokType     int
}

var c13Families = []quoteFamily{
	{"double-curly", '“', '”', 2}, {"double-corner", '「', '」', 2},
	{"single-curly", '‘', '’', 6}, {"single-corner", '『', '』', 6},
	{"lib", '《', '》', 7},
}

var allQuotes = []rune("“”「」‘’『』《》")

func isQuote(r rune) bool { return strings.ContainsRune(string(allQuotes), r) }

// ---------------------------------------------------------------- reference decoder

type decRes struct {
	kind string // value, unterminated, unspecified
	val  []rune
}

var escNames = map[string][]rune{"CR": {'\r'}, "LF": {'\n'}, "CRLF": {'\r', '\n'}, "TAB": {'\t'}, "SP": {' '}, "BK": {'`'}}

// tryEscape: src[i] is a backtick. Returns (value, consumed, status) where status is
// "ok", "badscalar" or "none".
func tryEscape(src []rune, i int) ([]rune, int, string) {
	// `q` with q a quote character
	if i+2 < len(src) && isQuote(src[i+1]) && src[i+2] == '`' {
		return []rune{src[i+1]}, 3, "ok"
	}
	// find the closing backtick within a short window of name characters
	j := i + 1
	for j < len(src) && j-i <= 11 && src[j] != '`' {
		j++
	}
	if j >= len(src) || src[j] != '`' {
		return nil, 0, "none"
	}
	name := string(src[i+1 : j])
	if v, ok := escNames[name]; ok {
		return v, j - i + 1, "ok"
	}
	if strings.HasPrefix(name, "U+") && len(name) >= 3 && len(name) <= 10 {
		hex := name[2:]
		var n int64
		for _, ch := range hex {
			switch {
			case ch >= '0' && ch <= '9':
				n = n*16 + int64(ch-'0')
			case ch >= 'A' && ch <= 'F':
				n = n*16 + int64(ch-'A'+10)
			default:
				return nil, 0, "none"
			}
		}
		if n > 0x10FFFF || (n >= 0xD800 && n <= 0xDFFF) {
			return nil, j - i + 1, "badscalar"
		}
		return []rune{rune(n)}, j - i + 1, "ok"
	}
	return nil, 0, "none"
}

// decodeLiteral decodes src (which starts with the opening quote) under one reading of
// "any other backtick text is kept literally": mode 0 = keep the backtick and re-scan,
// mode 1 = keep everything up to and including the next backtick on the same literal,
// mode 2 = keep the backtick and the following character.
func decodeLiteral(src []rune, fam quoteFamily, mode int) decRes {
	depth := 1
	out := []rune{}
	i := 1
	for i < len(src) {
		ch := src[i]
		switch {
		case ch == '`':
			v, n, st := tryEscape(src, i)
			switch st {
			case "ok":
				out = append(out, v...)
				i += n
				continue
			case "badscalar":
				return decRes{kind: "unspecified"}
			}
			switch mode {
			case 0:
				out = append(out, '`')
				i++
			case 1:
				j := i + 1
				for j < len(src) && src[j] != '`' {
					j++
				}
				if j >= len(src) {
					out = append(out, '`')
					i++
				} else {
					out = append(out, src[i:j+1]...)
					i = j + 1
				}
			case 2:
				out = append(out, '`')
				i++
				if i < len(src) && !isQuote(src[i]) {
					out = append(out, src[i])
					i++
				}
			case 3:
				// keep the longest run that still looks like the beginning of an escape
				// name, plus the character that breaks it (quotes are never swallowed)
				j := i + 1
				for j < len(src) {
					if isQuote(src[j]) {
						break
					}
					j++
					if !isEscPrefix(string(src[i+1 : j])) {
						break
					}
				}
				out = append(out, src[i:j]...)
				i = j
			}
			continue
		case ch == fam.open:
			depth++
		case ch == fam.close:
			depth--
			if depth == 0 {
				if i != len(src)-1 {
					return decRes{kind: "trailing"}
				}
				return decRes{kind: "value", val: out}
			}
		}
		out = append(out, ch)
		i++
	}
	return decRes{kind: "unterminated"}
}

func refDecode(src []rune, fam quoteFamily) decRes {
	a := decodeLiteral(src, fam, 0)
	for mode := 1; mode <= 3; mode++ {
		b := decodeLiteral(src, fam, mode)
		if a.kind != b.kind || string(a.val) != string(b.val) {
			return decRes{kind: "unspecified"}
		}
	}
	return a
}

func isEscPrefix(s string) bool {
	for name := range escNames {
		if strings.HasPrefix(name, s) {
			return true
		}
	}
	if s == "U" || s == "U+" {
		return true
	}
	if strings.HasPrefix(s, "U+") {
		for _, ch := range s[2:] {
			if !((ch >= '0' && ch <= '9') || (ch >= 'A' && ch <= 'F')) {
				return false
			}
		}
		return true
	}
	return false
}

// ---------------------------------------------------------------- encoder

// hexEsc spells ch as `U+hex` with 1..8 hex digits (the manual's range): the natural width, or
// zero-padded to any width up to the limit of eight.
func hexEsc(r *rand.Rand, ch rune) string {
	nat := len(fmt.Sprintf("%X", ch))
	w := nat
	switch r.Intn(4) {
	case 0:
		w = nat + r.Intn(8-nat+1)
	case 1:
		w = 8
	}
	return fmt.Sprintf("`U+%0*X`", w, ch)
}

func encodeLiteral(r *rand.Rand, text []rune, fam quoteFamily) string {
	var sb strings.Builder
	sb.WriteRune(fam.open)
	// decide which own-family quote characters can stay raw: greedy balanced pairs
	raw := make([]bool, len(text))
	stack := []int{}
	for i, ch := range text {
		if ch == fam.open {
			stack = append(stack, i)
		} else if ch == fam.close && len(stack) > 0 {
			j := stack[len(stack)-1]
			stack = stack[:len(stack)-1]
			if r.Intn(4) > 0 {
				raw[i], raw[j] = true, true
			}
		}
	}
	// a raw pair must not enclose an unbalanced situation: since pairs are properly nested
	// and unpaired ones are escaped, the raw ones form a balanced sequence
	for i := 0; i < len(text); i++ {
		ch := text[i]
		switch {
		case ch == fam.open || ch == fam.close:
			if raw[i] {
				sb.WriteRune(ch)
			} else {
				sb.WriteString("`" + string(ch) + "`")
			}
		case isQuote(ch):
			if r.Intn(3) == 0 {
				sb.WriteString("`" + string(ch) + "`")
			} else {
				sb.WriteRune(ch)
			}
		case ch == '`':
			if r.Intn(4) == 0 {
				sb.WriteString(hexEsc(r, '`'))
			} else {
				sb.WriteString("`BK`")
			}
		case ch == '\r' && i+1 < len(text) && text[i+1] == '\n' && r.Intn(3) == 0:
			sb.WriteString("`CRLF`")
			i++
		case ch == '\r' && r.Intn(2) == 0:
			sb.WriteString("`CR`")
		case ch == '\n' && r.Intn(2) == 0:
			sb.WriteString("`LF`")
		case ch == '\t' && r.Intn(2) == 0:
			sb.WriteString("`TAB`")
		case ch == ' ' && r.Intn(4) == 0:
			sb.WriteString("`SP`")
		case ch == 0 && r.Intn(2) == 0:
			sb.WriteString(hexEsc(r, 0)) // (the other half of the time U+0000 is written raw, like any character)
		case r.Intn(12) == 0:
			sb.WriteString(hexEsc(r, ch))
		default:
			sb.WriteRune(ch)
		}
	}
	sb.WriteRune(fam.close)
	return sb.String()
}

var c13TextAlphabet = []rune("“”「」‘’『』《》`\r\n\t CRLFTABSPKU+0123456789ABCDEFabcxyz中文字，。：；！（）【】{}#=%/*-_\\\"'😀𠀀é")

func c13RandText(r *rand.Rand, n int) []rune {
	out := make([]rune, n)
	for i := range out {
		switch r.Intn(10) {
		case 0:
			out[i] = rune(0x4E00 + r.Intn(0x5000))
		case 2:
			out[i] = []rune{0, 0, 1, 0x7F, 0x85, 0x2028, 0x2029, 0xFEFF, 0xFFFE, 0xFFFF, 0x10FFFF}[r.Intn(11)]
		case 1:
			out[i] = rune(1 + r.Intn(0x10FFFF))
			if out[i] >= 0xD800 && out[i] <= 0xDFFF {
				out[i] = 'x'
			}
		default:
			out[i] = c13TextAlphabet[r.Intn(len(c13TextAlphabet))]
		}
	}
	return out
}

func toks(src string) Req { return Req{Op: "tokens", Src: Runes(src)} }

func checkC13(c *Ctx) {
	c.rule = "forward: random texts (length <= 200, biased to the ten quote characters, backtick, CR, LF, TAB, letters of the escape names, +, hex digits, NUL, CJK, astral) written as literals of the five quote spellings by an encoder that picks, per character, any rule-conformant spelling (raw, `CR` `LF` `CRLF` `TAB` `SP` `BK`, `U+hex`, backtick-wrapped unpaired quote, raw balanced pairs); zh.NextToken must return one token of the right type whose literal is the text, then EOF; for “ ”, 「 」 and 《 》 (the three documented ways to write a text value) also 输出‹literal› end to end; literals in source files longer than one read block, their characters (U+FEFF, multi-byte) sliding across the 4096 / 8192 byte marks, with and without a BOM; balanced pairs of the literal's own quotes nested 1 … 100000 deep (plain, flat, alternating with another family, followed by more text), as a token and through 输出; every printable ASCII character after each escape-name prefix inside a backtick pair (an escape only when it is exactly one); programs that end inside an unclosed literal (five opening quotes x five bodies x eleven positions: after each kind of comment, after a statement, in a declaration, a block, an argument list) must be syntax errors. reverse: all strings up to length 3 (quick) / 4 (thorough) plus random longer ones over a 28-symbol critical alphabet placed between the outer quotes of three families, against a three-valued reference decoder (value / unterminated = syntax error / unspecified where four readings of 'other backtick text is kept literally' differ or a U+ escape is not a scalar value). distinct_nontrivial = distinct (direction, family, escape kinds used / reference outcome class + content)"
	c.assumptions = []string{"token type codes 2/6/7 for the three literal families and 0 for EOF", "cases where the documented rules admit more than one reading are skipped and counted"}
	rng := c.Rand("c13")

	// ---------------------------------------------------------------- forward
	type fwd struct {
		text []rune
		fam  quoteFamily
		src  string
	}
	fw := []fwd{}
	nf := c.Pick(30000, 2000000)
	for i := 0; i < nf; i++ {
		n := rng.Intn(12)
		if rng.Intn(10) == 0 {
			n = rng.Intn(200)
		}
		t := c13RandText(rng, n)
		fam := c13Families[rng.Intn(len(c13Families))]
		fw = append(fw, fwd{t, fam, encodeLiteral(rng, t, fam)})
	}
	reqs := make([]Req, len(fw))
	for i, f := range fw {
		reqs[i] = toks(f.src)
	}
	c.runBatches(reqs, 500, func(i int, req *Req, resp *Resp) {
		c.Eval()
		f := fw[i]
		kinds := ""
		for _, k := range []string{"`CR`", "`LF`", "`CRLF`", "`TAB`", "`SP`", "`BK`", "`U+"} {
			if strings.Contains(f.src, k) {
				kinds += k
			}
		}
		c.Nontrivial(fmt.Sprintf("fwd|%s|%s|%d", f.fam.name, kinds, len(f.text)/8))
		key := "forward:" + f.fam.name + ":" + f.src
		rp := map[string]interface{}{"req": req, "expected": fmt.Sprintf("%q", string(f.text))}
		if resp.Kind != "ok" || len(resp.Toks) != 2 {
			msg := resp.Kind
			if resp.Err != nil {
				msg += fmt.Sprintf(" code %d at %d", resp.Err.Code, resp.Err.Cursor)
			}
			c.Violation(key, fmt.Sprintf("literal %q (text %q): %s, %d tokens", clip(f.src, 200), clip(string(f.text), 200), msg, len(resp.Toks)), rp)
			return
		}
		tk := resp.Toks[0]
		if tk.Type != f.fam.tokType || RunesToString(tk.Lit) != string(f.text) || resp.Toks[1].Type != 0 {
			c.Violation(key, fmt.Sprintf("literal %q reads back as type %d %q, expected type %d %q", clip(f.src, 200), tk.Type, clip(RunesToString(tk.Lit), 200), f.fam.tokType, clip(string(f.text), 200)), rp)
		} else if i%9000 == 0 {
			c.Sample(map[string]interface{}{"direction": "forward", "literal": clip(f.src, 120), "text": clip(fmt.Sprintf("%q", string(f.text)), 120)})
		}
	})
	// end to end through 输出
	e2e := []fwd{}
	for i := 0; i < c.Pick(4000, 200000); i++ {
		t := c13RandText(rng, rng.Intn(20))
		fam := c13Families[[]int{0, 1, 4}[rng.Intn(3)]] // the three documented ways to write a text value
		e2e = append(e2e, fwd{t, fam, encodeLiteral(rng, t, fam)})
	}
	ereqs := make([]Req, len(e2e))
	for i, f := range e2e {
		ereqs[i] = execReq("输出" + f.src + "\n")
	}
	c.runBatches(ereqs, 300, func(i int, req *Req, resp *Resp) {
		c.Eval()
		f := e2e[i]
		c.Nontrivial(fmt.Sprintf("e2e|%s|%d", f.fam.name, len(f.text)))
		if resp.Kind != "value" || resp.Val.T != "text" || resp.Val.S() != string(f.text) {
			got := resp.Kind
			if resp.Val != nil {
				got = resp.Val.String()
			}
			c.Violation("e2e:"+f.fam.name+":"+f.src, fmt.Sprintf("输出%s yields %s, expected text %q", clip(f.src, 200), clip(got, 200), clip(string(f.text), 200)), map[string]interface{}{"req": req})
		}
	})

	// a literal reads back exactly wherever it stands in a source *file*: files longer than one read
	// block (4096 bytes), the literal's characters (U+FEFF, 2- / 3- / 4-byte characters) sliding
	// across the block boundaries, with and without a byte-order mark at the start of the file
	{
		type lf struct {
			name, want string
		}
		lfs := []lf{}
		freqs := []Req{}
		texts := []string{"甲\uFEFF乙\uFEFF\uFEFF丙", "\uFEFF", "é\uFEFF😀\uFEFFz", "一二三四五六七八九十"}
		for _, mark := range []int{4096, 8192} {
			for delta := -14; delta <= 3; delta++ {
				for ti, t := range texts {
					for fi, fam := range []quoteFamily{c13Families[0], c13Families[1], c13Families[4]} {
						if (delta+ti+fi+mark/4096)%3 != 0 && c.Quick() {
							continue
						}
						for _, bom := range []string{"", "\uFEFF"} {
							head := bom + "注：填充"
							stmt := "输出" + string(fam.open)
							pad := mark + delta - len(head) - 1 - len(stmt)
							src := head + strings.Repeat("x", pad) + "\n" + stmt + t + string(fam.close) + "\n"
							lfs = append(lfs, lf{fmt.Sprintf("file/%s/mark%d%+d/t%d/bom%v", fam.name, mark, delta, ti, bom != ""), t})
							freqs = append(freqs, Req{Op: "exec", Main: "main.zn", Files: []File{{Path: "main.zn", Data: widen([]byte(src))}}, EvalBudget: 1000})
						}
					}
				}
			}
		}
		c.runBatches(freqs, 40, func(i int, req *Req, resp *Resp) {
			c.Eval()
			l := lfs[i]
			c.Nontrivial("in-file|" + l.name + "|" + resp.Kind)
			c.Count("literals_in_long_files", 1)
			if resp.Kind != "value" || resp.Val == nil || resp.Val.T != "text" || resp.Val.S() != l.want {
				c.Violation("in-file:"+l.name, fmt.Sprintf("%s: a source file whose literal holds %q (starting near a 4096-byte block boundary) yields %s", l.name, l.want, clip(resp.Outcome(), 160)), map[string]interface{}{"case": l.name})
			}
		})
	}
	// nested balanced pairs at any depth: the literal closes at its own closing quote only
	{
		type dn struct {
			name string
			fam  quoteFamily
			text string
		}
		dns := []dn{}
		depths := []int{1, 2, 3, 10, 100, 127, 128, 129, 254, 255, 256, 257, 300, 511, 512, 513, 1000, 32767, 32768, 32769, 65535, 65536, 65537, 100000}
		for _, fam := range c13Families {
			other := c13Families[0]
			if fam.open == other.open {
				other = c13Families[1]
			}
			for _, d := range depths {
				o, cl := string(fam.open), string(fam.close)
				dns = append(dns, dn{fmt.Sprintf("own/%d", d), fam, strings.Repeat(o, d) + "心" + strings.Repeat(cl, d)})
				dns = append(dns, dn{fmt.Sprintf("own-flat/%d", d), fam, strings.Repeat(o+"甲"+cl, d)})
				dns = append(dns, dn{fmt.Sprintf("mixed/%d", d), fam, strings.Repeat(o+string(other.open), d/2+1) + "心" + strings.Repeat(string(other.close)+cl, d/2+1)})
				dns = append(dns, dn{fmt.Sprintf("own-then-tail/%d", d), fam, strings.Repeat(o, d) + strings.Repeat(cl, d) + "尾" + o + cl})
			}
		}
		dreqs := []Req{}
		for _, d := range dns {
			lit := string(d.fam.open) + d.text + string(d.fam.close)
			dreqs = append(dreqs, toks(lit))
			if d.fam.tokType == 2 || d.fam.tokType == 7 {
				dreqs = append(dreqs, execReq("令甲 = 1\n输出"+lit+"\n"))
			} else {
				dreqs = append(dreqs, toks(lit+" "+lit))
			}
		}
		c.runBatches(dreqs, 20, func(i int, req *Req, resp *Resp) {
			c.Eval()
			d := dns[i/2]
			c.Nontrivial(fmt.Sprintf("nest|%s|%s|%d|%s", d.fam.name, d.name, i%2, resp.Kind))
			c.Count("nested_pair_literals", 1)
			key := fmt.Sprintf("nested:%s:%s:%d", d.fam.name, d.name, i%2)
			rp := map[string]interface{}{"req": req}
			if req.Op == "exec" {
				if resp.Kind != "value" || resp.Val == nil || resp.Val.T != "text" || resp.Val.S() != d.text {
					c.Violation(key, fmt.Sprintf("输出 of a %s literal holding %s (%d characters): outcome %s, expected the text between the outer quotes verbatim", d.fam.name, d.name, len([]rune(d.text)), clip(resp.Outcome(), 160)), rp)
				}
				return
			}
			want := 2 + i%2
			if resp.Kind != "ok" || len(resp.Toks) != want {
				c.Violation(key, fmt.Sprintf("a %s literal holding %s (%d characters): %s, %d tokens instead of %d", d.fam.name, d.name, len([]rune(d.text)), resp.Kind, len(resp.Toks), want), rp)
				return
			}
			for x := 0; x < want-1; x++ {
				if tk := resp.Toks[x]; tk.Type != d.fam.tokType || RunesToString(tk.Lit) != d.text {
					c.Violation(key, fmt.Sprintf("a %s literal holding %s reads back as type %d with %d characters (expected type %d, %d characters): %q…", d.fam.name, d.name, tk.Type, len(tk.Lit), d.fam.tokType, len([]rune(d.text)), clip(RunesToString(tk.Lit), 60)), rp)
					return
				}
			}
		})
	}

	// every printable ASCII character inside a backtick pair after each escape-name prefix: the
	// text is an escape only when it is exactly one (a name, or U+ and 1..8 hex digits of a valid
	// code point); anything else is kept literally, backticks included. (The short strings of the
	// reverse direction only reach the 28 critical characters; this sweep reaches the others, e.g.
	// the seven characters between '9' and 'A'.)
	{
		type ac struct {
			body string
			want string
		}
		acs := []ac{}
		isHex := func(ch byte) bool { return (ch >= '0' && ch <= '9') || (ch >= 'A' && ch <= 'F') }
		for _, prefix := range []string{"U+", "U+4", "U+4E2", "U+0000004", "C", "CR", "CRL", "T", "TA", "S", "B", "L", ""} {
			for ch := byte(0x20); ch < 0x7F; ch++ {
				if ch == '`' {
					continue
				}
				for _, tail := range []string{"", "1", "F"} {
					inner := prefix + string(ch) + tail
					want := "`" + inner + "`"
					if v, ok := escNames[inner]; ok {
						want = string(v)
					} else if strings.HasPrefix(inner, "U+") && len(inner) > 2 && len(inner) <= 10 {
						allHex := true
						for k := 2; k < len(inner); k++ {
							allHex = allHex && isHex(inner[k])
						}
						if allHex {
							n, _ := strconv.ParseUint(inner[2:], 16, 64)
							if n > 0x10FFFF || (n >= 0xD800 && n <= 0xDFFF) {
								continue // not a scalar value: unspecified (U8)
							}
							want = string(rune(n))
						}
					}
					acs = append(acs, ac{"x`" + inner + "`y", "x" + want + "y"})
					if tail == "" {
						// … and what follows the pair is read on its own: another escape, a wrapped quote
						acs = append(acs, ac{"x`" + inner + "``SP`y", "x" + want + " y"}, ac{"x`" + inner + "``”`y", "x" + want + "”y"}, ac{"x`" + inner + "`甲`LF`", "x" + want + "甲\n"})
					}
				}
			}
		}
		areqs := make([]Req, len(acs))
		for i, a := range acs {
			areqs[i] = toks("“" + a.body + "”")
		}
		c.runBatches(areqs, 500, func(i int, req *Req, resp *Resp) {
			c.Eval()
			a := acs[i]
			// where the documented rules admit more than one reading (what a closing backtick of a
			// text that is no escape pairs with), the four-reading reference decides whether the
			// case is judged at all
			if ref := refDecode([]rune("“"+a.body+"”"), c13Families[0]); ref.kind != "value" {
				c.Count("backtick_ascii_sweep_unspecified", 1)
				return
			} else if string(ref.val) != a.want {
				c.Count("backtick_ascii_sweep_unspecified", 1)
				return
			}
			c.Nontrivial("ascii-sweep|" + a.body[:min2(len(a.body), 6)] + "|" + resp.Kind)
			c.Count("backtick_ascii_sweep", 1)
			if resp.Kind != "ok" || len(resp.Toks) != 2 || RunesToString(resp.Toks[0].Lit) != a.want {
				got := resp.Kind
				if len(resp.Toks) > 0 {
					got = fmt.Sprintf("%q", RunesToString(resp.Toks[0].Lit))
				}
				c.Violation("ascii-sweep:"+a.body, fmt.Sprintf("literal “%s” reads back as %s, expected %q", a.body, got, a.want), map[string]interface{}{"req": req})
			}
		})
	}

	// an unterminated literal is a syntax error wherever it stands in a program: as the first
	// thing after each kind of comment, after a statement, inside a block, in an argument list
	{
		type up struct{ name, src string }
		ups := []up{}
		opens := []string{"“", "「", "《", "‘", "『"}
		bodies := []string{"天地玄黄", "", "甲“乙”丙", "第一行\n第二行", "`CR`x"}
		prefixes := map[string]string{
			"after-annotation":          "令甲 = 1\n注：备注\n",
			"after-numbered-annotation": "令甲 = 1\n注1：“备注”\n",
			"after-line-comment":        "令甲 = 1\n// 备注\n",
			"after-block-comment":       "令甲 = 1\n/* 备\n注 */\n",
			"after-two-comments":        "注：一\n// 二\n",
			"after-statement":           "令甲 = 1\n",
			"at-start":                  "",
			"in-declaration":            "令甲 = 1\n令乙 = ",
			"in-block":                  "如果 真：\n\t注：内\n\t",
			"in-arguments":              "（显示：1、",
			"after-comment-on-same-line": "令甲 = 1 /* 备注 */ ",
		}
		for _, pn := range SortedKeys(prefixes) {
			for oi, o := range opens {
				for bi, b := range bodies {
					if (oi+bi)%2 == 1 && c.Quick() {
						continue
					}
					ups = append(ups, up{pn + "/" + o, prefixes[pn] + o + b})
				}
			}
		}
		ureqs := make([]Req, len(ups))
		for i, u := range ups {
			ureqs[i] = execReq(u.src)
		}
		c.runBatches(ureqs, 100, func(i int, req *Req, resp *Resp) {
			c.Eval()
			u := ups[i]
			c.Nontrivial("unterminated|" + u.name + "|" + resp.Kind)
			if resp.Kind != "error" || resp.Err == nil || resp.Err.Class != "syntax" {
				c.Violation("unterminated:"+u.name+":"+u.src, fmt.Sprintf("the program %q ends inside a literal that is never closed, but the outcome is %s (a syntax error is required)", u.src, clip(resp.Outcome(), 120)), map[string]interface{}{"req": req})
			}
		})
	}

	// ---------------------------------------------------------------- reverse
	crit := []rune("“”「」‘’『』《》`\r\nCRLFTABSPKU+04Ex")
	fams := []quoteFamily{c13Families[0], c13Families[2], c13Families[4]}
	type rev struct {
		src []rune
		fam quoteFamily
		exp decRes
	}
	rv := []rev{}
	addRev := func(content []rune, fam quoteFamily) {
		src := append(append([]rune{fam.open}, content...), fam.close)
		rv = append(rv, rev{src, fam, refDecode(src, fam)})
		// and the unterminated variant (no closing quote appended)
		if len(content) > 0 && len(content) <= 2 {
			s2 := append([]rune{fam.open}, content...)
			rv = append(rv, rev{s2, fam, refDecode(s2, fam)})
		}
	}
	maxLen := c.Pick(3, 4)
	var rec func(cur []rune)
	rec = func(cur []rune) {
		for _, f := range fams {
			addRev(cur, f)
		}
		if len(cur) == maxLen {
			return
		}
		for _, ch := range crit {
			rec(append(append([]rune{}, cur...), ch))
		}
	}
	rec(nil)
	c.Count("reverse_exhaustive", int64(len(rv)))
	for i := 0; i < c.Pick(40000, 3000000); i++ {
		n := maxLen + 1 + rng.Intn(8)
		content := make([]rune, n)
		for k := range content {
			content[k] = crit[rng.Intn(len(crit))]
		}
		// bias: plant well-formed escapes
		if rng.Intn(3) == 0 {
			esc := []string{"`CR`", "`LF`", "`CRLF`", "`TAB`", "`SP`", "`BK`", "`U+4E`", "`U+0`", "`U+FFFFFFFF`", "`”`", "`“`", "`》`", "`CRL`", "`U+`", "`U+4e`", "`BKK`", "`U+00000041`", "`U+000000041`", "`U+0010FFFF`", "`U+00110000`"}[rng.Intn(20)]
			p := rng.Intn(len(content) + 1)
			content = append(append(append([]rune{}, content[:p]...), []rune(esc)...), content[p:]...)
		}
		addRev(content, fams[rng.Intn(3)])
	}
	rreqs := make([]Req, len(rv))
	for i, r := range rv {
		rreqs[i] = Req{Op: "tokens", Src: make([]int32, len(r.src))}
		for k, ch := range r.src {
			rreqs[i].Src[k] = int32(ch)
		}
	}
	c.runBatches(rreqs, 1000, func(i int, req *Req, resp *Resp) {
		c.Eval()
		r := rv[i]
		src := string(r.src)
		if r.exp.kind == "unspecified" || r.exp.kind == "trailing" {
			c.Count("reverse_unspecified_or_trailing", 1)
			return
		}
		c.Count("reverse_judged", 1)
		c.Nontrivial("rev|" + r.fam.name + "|" + r.exp.kind + "|" + clip(src, 40))
		key := "reverse:" + r.fam.name + ":" + src
		rp := map[string]interface{}{"req": req, "expected": fmt.Sprintf("%s %q", r.exp.kind, string(r.exp.val))}
		switch r.exp.kind {
		case "unterminated":
			if resp.Kind != "error" || resp.Err.Class != "syntax" {
				c.Violation(key, fmt.Sprintf("unterminated literal %q: expected a syntax error, observed %s %v", src, resp.Kind, resp.Toks), rp)
			}
		case "value":
			if resp.Kind != "ok" || len(resp.Toks) != 2 || resp.Toks[0].Type != r.fam.tokType || RunesToString(resp.Toks[0].Lit) != string(r.exp.val) {
				got := resp.Kind
				if len(resp.Toks) > 0 {
					got += fmt.Sprintf(" %d tokens, first: type %d %q", len(resp.Toks), resp.Toks[0].Type, RunesToString(resp.Toks[0].Lit))
				}
				c.Violation(key, fmt.Sprintf("literal %q: expected one token of type %d with text %q, observed %s", src, r.fam.tokType, string(r.exp.val), got), rp)
			} else if i%50000 == 0 {
				c.Sample(map[string]interface{}{"direction": "reverse", "literal": fmt.Sprintf("%q", src), "text": fmt.Sprintf("%q", string(r.exp.val))})
			}
		}
	})
}


func min2(a, b int) int {
	if a < b {
		return a
	}
	return b
}
