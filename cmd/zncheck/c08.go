package main

import (
	"fmt"

	. "verif/internal/proto"
	zr "verif/internal/znref"
)

func init() { register("C08", "exploration", checkC08) }

func c08Fixed(c *Ctx) ([]*zr.Program, []string) {
	progs := []*zr.Program{}
	shapes := []string{}
	add := func(shape string, body ...zr.Stmt) {
		progs = append(progs, &zr.Program{Body: body})
		shapes = append(shapes, shape)
	}
	probe := probeDef
	// arity x argument count, with a probe in every argument and a display as first body statement
	for arity := 0; arity <= 4; arity++ {
		for given := 0; given <= 5; given++ {
			params := []string{}
			sum := zr.Expr(intLit(0))
			for i := 0; i < arity; i++ {
				p := fmt.Sprintf("参%c", nameGlyphs[i])
				params = append(params, p)
				sum = zr.Bin{Op: "+", L: zr.Bin{Op: "*", L: sum, R: intLit(10)}, R: zr.N(p)}
			}
			fd := &zr.FuncDef{Name: "目标", Params: params, Body: []zr.Stmt{zr.Show(zr.S("body-start")), zr.Return{E: sum}}}
			args := []zr.Expr{}
			for i := 0; i < given; i++ {
				args = append(args, zr.CallE("探", intLit(i+1), intLit(i+1)))
			}
			for _, form := range []string{"call", "call-yield", "in-expr"} {
				var st []zr.Stmt
				switch form {
				case "call":
					st = []zr.Stmt{zr.Show(zr.S("r"), zr.CallE("目标", args...)), zr.Show(zr.S("after"))}
				case "call-yield":
					cl := zr.CallE("目标", args...)
					cl.Yield = "果"
					st = []zr.Stmt{zr.ExprStmt{E: cl}, zr.Show(zr.S("yield"), zr.N("果")), zr.Return{E: zr.N("果")}}
				case "in-expr":
					st = []zr.Stmt{zr.Return{E: zr.Bin{Op: "+", L: zr.CallE("目标", args...), R: intLit(1000)}}}
				}
				add(fmt.Sprintf("arity/%d/%d/%s", arity, given, form), append([]zr.Stmt{probe, fd}, st...)...)
			}
		}
	}
	// methods on objects: arity, unknown method/property, independent objects, default copies
	cls := zr.ClassDef{Name: "账", Props: []zr.PropDef{{Name: "余", Val: intLit(10)}, {Name: "录", Val: zr.ListLit{Items: []zr.Expr{intLit(0)}}}, {Name: "表", Val: zr.DictLit{Keys: []string{"初"}, KeyForm: []int{0}, Vals: []zr.Expr{intLit(1)}}}},
		Methods: []*zr.FuncDef{
			{Name: "存", Params: []string{"额"}, Body: []zr.Stmt{
				zr.Show(zr.S("存-start")),
				zr.Set(zr.ThisProp{Prop: "余"}, zr.Bin{Op: "+", L: zr.ThisProp{Prop: "余"}, R: zr.N("额")}),
				zr.ExprStmt{E: zr.MCall{Recv: zr.ThisProp{Prop: "录"}, Chain: []zr.CallPart{{Fn: "后增", Args: []zr.Expr{zr.N("额")}}}}},
				zr.Set(zr.Index{Recv: zr.ThisProp{Prop: "表"}, Idx: zr.S("末")}, zr.N("额")),
				zr.Return{E: zr.ThisProp{Prop: "余"}},
			}},
			{Name: "查", Body: []zr.Stmt{zr.Return{E: zr.ThisProp{Prop: "余"}}}},
			{Name: "转", Params: []string{"对方", "额"}, Body: []zr.Stmt{
				zr.Set(zr.ThisProp{Prop: "余"}, zr.Bin{Op: "-", L: zr.ThisProp{Prop: "余"}, R: zr.N("额")}),
				zr.ExprStmt{E: zr.MCall{Recv: zr.N("对方"), Chain: []zr.CallPart{{Fn: "存", Args: []zr.Expr{zr.N("额")}}}}},
				zr.Return{E: zr.ThisProp{Prop: "余"}},
			}},
		}}
	ctor := &zr.FuncDef{Name: "账", Ctor: true, Params: []string{"初值"}, Body: []zr.Stmt{zr.Show(zr.S("ctor"), zr.N("初值")), zr.Set(zr.ThisProp{Prop: "余"}, zr.N("初值"))}}
	showObj := func(n string) zr.Stmt {
		return zr.Show(zr.S(n), zr.Member{Recv: zr.N(n), Prop: "余"}, zr.Member{Recv: zr.N(n), Prop: "录"}, zr.Member{Recv: zr.N(n), Prop: "表"})
	}
	mc := func(recv string, m string, args ...zr.Expr) zr.Expr {
		return zr.MCall{Recv: zr.N(recv), Chain: []zr.CallPart{{Fn: m, Args: args}}}
	}
	base := []zr.Stmt{probe, cls, ctor, zr.LetS("甲户", zr.New{Class: "账", Args: []zr.Expr{intLit(100)}}), zr.LetS("乙户", zr.New{Class: "账", Args: []zr.Expr{intLit(5)}}), showObj("甲户"), showObj("乙户")}
	add("obj/independent", append(append([]zr.Stmt{}, base...),
		zr.ExprStmt{E: mc("甲户", "存", intLit(7))}, showObj("甲户"), showObj("乙户"),
		zr.ExprStmt{E: mc("乙户", "转", zr.N("甲户"), intLit(3))}, showObj("甲户"), showObj("乙户"),
		zr.LetS("丙户", zr.New{Class: "账", Args: []zr.Expr{intLit(1)}}), showObj("丙户"),
		zr.Return{E: mc("丙户", "查")})...)
	// in-place updates of default-valued properties: every object has its own defaults
	counter := zr.ClassDef{Name: "计数器", Props: []zr.PropDef{{Name: "次", Val: intLit(0)}, {Name: "名", Val: zr.S("默认")}, {Name: "记", Val: zr.ListLit{Items: []zr.Expr{intLit(0)}}}},
		Methods: []*zr.FuncDef{
			{Name: "增", Body: []zr.Stmt{zr.ExprStmt{E: zr.MCall{Recv: zr.ThisProp{Prop: "次"}, Chain: []zr.CallPart{{Fn: "自增", Args: []zr.Expr{intLit(1)}}}}}, zr.ExprStmt{E: zr.MCall{Recv: zr.Index{Recv: zr.ThisProp{Prop: "记"}, Idx: intLit(1)}, Chain: []zr.CallPart{{Fn: "自增", Args: []zr.Expr{intLit(10)}}}}}, zr.Return{E: zr.ThisProp{Prop: "次"}}}},
		}}
	showC := func(n string) zr.Stmt {
		return zr.Show(zr.S(n), zr.Member{Recv: zr.N(n), Prop: "次"}, zr.Member{Recv: zr.N(n), Prop: "名"}, zr.Member{Recv: zr.N(n), Prop: "记"})
	}
	add("obj/in-place-default-update", counter, zr.LetS("甲器", zr.New{Class: "计数器"}), zr.LetS("乙器", zr.New{Class: "计数器"}),
		zr.ExprStmt{E: mc("甲器", "增")}, zr.ExprStmt{E: mc("甲器", "增")}, zr.ExprStmt{E: mc("甲器", "增")}, showC("甲器"), showC("乙器"),
		zr.LetS("丙器", zr.New{Class: "计数器"}), showC("丙器"), zr.ExprStmt{E: mc("丙器", "增")}, showC("甲器"), showC("乙器"), showC("丙器"),
		zr.ExprStmt{E: zr.MCall{Recv: zr.Member{Recv: zr.N("乙器"), Prop: "次"}, Chain: []zr.CallPart{{Fn: "自减", Args: []zr.Expr{intLit(5)}}}}}, showC("甲器"), showC("乙器"), showC("丙器"),
		zr.Return{E: zr.Member{Recv: zr.New{Class: "计数器"}, Prop: "次"}})
	// the value a call yields (and binds with 得到) is the value at that moment: what the object
	// does to its own property afterwards (in place) must not show through the yielded name
	{
		yCall := func(m, y string) zr.Stmt {
			return zr.ExprStmt{E: zr.MCall{Recv: zr.N("甲器"), Chain: []zr.CallPart{{Fn: m}}, Yield: y}}
		}
		getter := func(prop string) *zr.FuncDef {
			return &zr.FuncDef{Name: "取" + prop, Body: []zr.Stmt{zr.Return{E: zr.ThisProp{Prop: prop}}}}
		}
		c2 := zr.ClassDef{Name: "计数器", Props: []zr.PropDef{{Name: "次", Val: intLit(0)}, {Name: "名", Val: zr.S("器")}, {Name: "记", Val: zr.ListLit{Items: []zr.Expr{intLit(1), intLit(2)}}}, {Name: "表", Val: zr.DictLit{Keys: []string{"k"}, KeyForm: []int{0}, Vals: []zr.Expr{intLit(1)}}}},
			Methods: append(append([]*zr.FuncDef{}, counter.Methods...), getter("次"), getter("记"), getter("表"),
				&zr.FuncDef{Name: "动", Body: []zr.Stmt{
					zr.ExprStmt{E: zr.MCall{Recv: zr.ThisProp{Prop: "次"}, Chain: []zr.CallPart{{Fn: "自增", Args: []zr.Expr{intLit(7)}}}}},
					zr.ExprStmt{E: zr.MCall{Recv: zr.ThisProp{Prop: "记"}, Chain: []zr.CallPart{{Fn: "后增", Args: []zr.Expr{intLit(9)}}}}},
					zr.Set(zr.Index{Recv: zr.ThisProp{Prop: "表"}, Idx: zr.S("k")}, intLit(5)),
					zr.Return{E: intLit(0)}}})}
		add("obj/yield-is-a-snapshot", c2, zr.LetS("甲器", zr.New{Class: "计数器"}),
			yCall("取次", "果次"), yCall("取记", "果记"), yCall("取表", "果表"), zr.LetS("抄次", zr.CallE("显示")),
			zr.Show(zr.S("before"), zr.N("果次"), zr.N("果记"), zr.N("果表")),
			zr.ExprStmt{E: mc("甲器", "动")}, zr.ExprStmt{E: mc("甲器", "动")},
			zr.Show(zr.S("after"), zr.N("果次"), zr.N("果记"), zr.N("果表")),
			zr.Show(zr.S("object"), zr.Member{Recv: zr.N("甲器"), Prop: "次"}, zr.Member{Recv: zr.N("甲器"), Prop: "记"}, zr.Member{Recv: zr.N("甲器"), Prop: "表"}),
			zr.Return{E: zr.Bin{Op: "*", L: zr.N("果次"), R: intLit(8)}})
	}
	// a constructor that fails (too few arguments, or its body raises) inside a call that handles
	// the failure: afterwards 其 in the calling method still denotes that method's own receiver
	for _, fail := range []string{"arity", "throw", "fault"} {
		var newE zr.Expr = zr.New{Class: "理", Args: []zr.Expr{intLit(1)}}
		ctorBody := []zr.Stmt{zr.Set(zr.ThisProp{Prop: "名"}, zr.N("甲")), zr.Set(zr.ThisProp{Prop: "数"}, zr.N("乙"))}
		switch fail {
		case "throw":
			newE = zr.New{Class: "理", Args: []zr.Expr{intLit(1), intLit(2)}}
			ctorBody = append(ctorBody, zr.Throw{Class: "异常", Args: []zr.Expr{zr.S("ctor")}})
		case "fault":
			newE = zr.New{Class: "理", Args: []zr.Expr{intLit(1), intLit(0)}}
			ctorBody = append(ctorBody, zr.Set(zr.ThisProp{Prop: "数"}, zr.Bin{Op: "/", L: intLit(1), R: zr.N("乙")}))
		}
		li := zr.ClassDef{Name: "理", Props: []zr.PropDef{{Name: "名", Val: zr.S("理")}, {Name: "数", Val: intLit(0)}}}
		lictor := &zr.FuncDef{Name: "理", Ctor: true, Params: []string{"甲", "乙"}, Body: ctorBody}
		try := &zr.FuncDef{Name: "试造", Body: []zr.Stmt{zr.LetS("物", newE), zr.Return{E: zr.S("made")}}, Catches: []zr.Catch{{Class: "异常", Body: []zr.Stmt{zr.Return{E: zr.S("败")}}}}}
		chang := zr.ClassDef{Name: "厂", Props: []zr.PropDef{{Name: "名", Val: zr.S("厂")}}, Methods: []*zr.FuncDef{
			{Name: "造", Body: []zr.Stmt{zr.LetS("果", zr.CallE("试造")), zr.Show(zr.S("this-after"), zr.N("果"), zr.ThisProp{Prop: "名"}), zr.Set(zr.ThisProp{Prop: "名"}, zr.S("新厂")), zr.Return{E: zr.ThisProp{Prop: "名"}}}},
			{Name: "试", Body: []zr.Stmt{zr.LetS("物", newE), zr.Return{E: zr.S("made")}}, Catches: []zr.Catch{{Class: "异常", Body: []zr.Stmt{zr.Show(zr.S("caught-in-method")), zr.Return{E: zr.S("败")}}}}},
		}}
		add("obj/failed-ctor-handled/"+fail, li, lictor, try, chang, zr.LetS("甲厂", zr.New{Class: "厂"}), zr.LetS("乙厂", zr.New{Class: "厂"}),
			zr.Show(zr.S("r1"), mc("甲厂", "造")), zr.Show(zr.S("names"), zr.Member{Recv: zr.N("甲厂"), Prop: "名"}, zr.Member{Recv: zr.N("乙厂"), Prop: "名"}),
			zr.Show(zr.S("r2"), mc("乙厂", "造")), zr.Show(zr.S("names"), zr.Member{Recv: zr.N("甲厂"), Prop: "名"}, zr.Member{Recv: zr.N("乙厂"), Prop: "名"}),
			zr.Show(zr.S("again"), zr.CallE("试造")))
	}
	for given := 0; given <= 3; given++ {
		args := []zr.Expr{}
		for i := 0; i < given; i++ {
			args = append(args, zr.CallE("探", intLit(i+1), intLit(i+1)))
		}
		add(fmt.Sprintf("obj/method-arity/%d", given), append(append([]zr.Stmt{}, base...), zr.Show(zr.S("r"), mc("甲户", "存", args...)), showObj("甲户"))...)
		add(fmt.Sprintf("obj/ctor-arity/%d", given), probe, cls, ctor, zr.LetS("户", zr.New{Class: "账", Args: args}), zr.Show(zr.S("made")))
	}
	add("obj/unknown-method", append(append([]zr.Stmt{}, base...), zr.ExprStmt{E: mc("甲户", "不存在")}, zr.Show(zr.S("after")))...)
	add("obj/unknown-prop-read", append(append([]zr.Stmt{}, base...), zr.Show(zr.Member{Recv: zr.N("甲户"), Prop: "不存在"}), zr.Show(zr.S("after")))...)
	add("obj/unknown-prop-write", append(append([]zr.Stmt{}, base...), zr.Set(zr.Member{Recv: zr.N("甲户"), Prop: "不存在"}, intLit(1)), zr.Show(zr.S("after")))...)
	add("obj/unknown-function", probe, zr.ExprStmt{E: zr.CallE("缺失方法", intLit(1))}, zr.Show(zr.S("after")))
	add("obj/call-non-method", probe, zr.LetS("数", intLit(5)), zr.ExprStmt{E: zr.CallE("数", intLit(1))}, zr.Show(zr.S("after")))
	add("obj/new-non-type", probe, zr.LetS("数", intLit(5)), zr.LetS("物", zr.New{Class: "数"}), zr.Show(zr.S("after")))
	add("obj/this-outside", probe, zr.Show(zr.ThisProp{Prop: "余"}), zr.Show(zr.S("after")))
	// chains feed results forward
	add("chain/text", zr.ExprStmt{E: zr.MCall{Recv: zr.S("a-b-c"), Chain: []zr.CallPart{{Fn: "替换", Args: []zr.Expr{zr.S("-"), zr.S("+")}}, {Fn: "拼接", Args: []zr.Expr{zr.S("!")}}, {Fn: "分隔", Args: []zr.Expr{zr.S("+")}}}, Yield: "段"}}, zr.Show(zr.N("段")), zr.Return{E: zr.Member{Recv: zr.N("段"), Prop: "长度"}})
	add("chain/object-then-number", append(append([]zr.Stmt{}, base...), zr.ExprStmt{E: zr.MCall{Recv: zr.N("甲户"), Chain: []zr.CallPart{{Fn: "存", Args: []zr.Expr{intLit(1)}}, {Fn: "不存在"}}}}, zr.Show(zr.S("after")))...)
	// deep recursion
	for _, depth := range []int{10, 200, c.Pick(400, 5000)} {
		fd := &zr.FuncDef{Name: "深", Params: []string{"层"}, Body: []zr.Stmt{
			zr.If{Cond: zr.Bin{Op: "<=", L: zr.N("层"), R: intLit(0)}, Then: []zr.Stmt{zr.Return{E: intLit(0)}}},
			zr.Return{E: zr.Bin{Op: "+", L: zr.N("层"), R: zr.CallE("深", zr.Bin{Op: "-", L: zr.N("层"), R: intLit(1)})}},
		}}
		even := &zr.FuncDef{Name: "偶", Params: []string{"数"}, Body: []zr.Stmt{
			zr.If{Cond: zr.Bin{Op: "==", L: zr.N("数"), R: intLit(0)}, Then: []zr.Stmt{zr.Return{E: zr.N("真")}}},
			zr.Return{E: zr.CallE("奇", zr.Bin{Op: "-", L: zr.N("数"), R: intLit(1)})},
		}}
		odd := &zr.FuncDef{Name: "奇", Params: []string{"数"}, Body: []zr.Stmt{
			zr.If{Cond: zr.Bin{Op: "==", L: zr.N("数"), R: intLit(0)}, Then: []zr.Stmt{zr.Return{E: zr.N("假")}}},
			zr.Return{E: zr.CallE("偶", zr.Bin{Op: "-", L: zr.N("数"), R: intLit(1)})},
		}}
		add(fmt.Sprintf("recursion/self/%d", depth), fd, zr.Return{E: zr.CallE("深", intLit(depth))})
		add(fmt.Sprintf("recursion/mutual/%d", depth), even, odd, zr.Show(zr.CallE("偶", intLit(depth))), zr.Return{E: zr.CallE("奇", intLit(depth+1))})
	}
	return progs, shapes
}

func checkC08(c *Ctx) {
	c.rule = "hand-written: a declared property whose name a built-in value uses for a computed or internal property (自身, 长度, 文本, 内容, …) is read, written and kept apart per object like any other; hand-written multi-file programs: objects of an imported type created by the importer (constructor uses its module's variables / helpers, importer has names of the same spelling, selective import, factory vs direct creation, thrown imported exception type, relay module, methods / type methods / constructors of an imported module that hold nested definitions and are called several times); programs: (a) fixed families: every (declared arity 0..4 x given argument count 0..5 x call form) with a display probe in every argument and a display as first body statement (a count mismatch must be an error with no body effect); object families (independent instances, default-property copies, constructor/method arity, unknown method/property/function, 其 outside a method), text-method chains, self and mutual recursion to depth 5000; (b) random programs with 0-3 methods (arity 0-3, recursion), 0-2 types (default properties incl. collections, constructors, methods using 其), calls nested in arguments, 得到 on both call forms. Oracle: reference evaluator (value + ordered display trace). distinct_nontrivial = distinct (family / feature set, outcome kind)"
	c.assumptions = []string{"method bodies use only their own parameters/locals and module-level definitions (U1)", "何为 getters and 此 are not exercised (U5)"}
	rng := c.Rand("c08")
	progs, shapes := c08Fixed(c)
	c.Count("fixed_family_programs", int64(len(progs)))
	n := c.Pick(4000, 250000)
	for i := 0; i < n; i++ {
		g := newPgen(rng, genOpts{maxDepth: 2 + rng.Intn(2), stmts: 3, funcs: 3, classes: 2, loops: rng.Intn(2) == 0, returns: false, collections: true, recursion: 4, mutation: true})
		p := g.program()
		progs = append(progs, p)
		shapes = append(shapes, "rand/"+featureKey(g.features))
	}
	var inputs []map[string]Val
	// hand-written programs outside the reference evaluator's subset (a type that is defined,
	// and given its constructor, inside a method body): expected results written down
	{
		type hp struct{ name, src, want string }
		hps := []hp{
			// arguments are evaluated once, left to right, and bound as evaluated: a later argument
			// that changes a number in place does not reach into an earlier one
			{"args-are-values/function", "令计 = 0\n如何下一个？\n\t以计（自增：1）\n\t输出 计\n如何成对？\n\t输入甲、乙\n\t输出【甲，乙】\n输出（成对：（下一个）、（下一个））\n", `list[num(1),num(2)]`},
			{"args-are-values/constructor", "定义点：\n\t其横 = 0\n\t其纵 = 0\n如何新建点？\n\t输入甲、乙\n\t其横 = 甲\n\t其纵 = 乙\n令数 = 1\n令物 = （新建点：数、以数（自增：10））\n输出【物之横，物之纵】\n", `list[num(1),num(11)]`},
			{"args-are-values/type-method", "定义箱：\n\t其记 = 0\n\t如何装？\n\t\t输入甲、乙\n\t\t输出【甲，乙】\n令数 = 1\n令物 = （新建箱）\n输出 以物（装：数、以数（自增：10））\n", `list[num(1),num(11)]`},
			{"args-are-values/thrown-constructor", "定义错：\n\t其甲 = 0\n\t其乙 = 0\n如何新建错？\n\t输入子、丑\n\t其甲 = 子\n\t其乙 = 丑\n如何试？\n\t令数 = 5\n\t抛出错：数、以数（自增：1）！\n\n\t拦截错：\n\t\t输出【其甲，其乙】\n输出（试）\n", `list[num(5),num(6)]`},
			// … and a number handed over is a value: what the callee does to its input in place stays
			// in the callee, whichever position the argument has
			{"args-are-values/only-argument-changed-by-callee", "如何改？\n\t输入数\n\t以数（自增：1）\n\t输出 数\n令甲 = 5\n令果 = （改：甲）\n输出【果，甲】\n", "list[num(6),num(5)]"},
			{"args-are-values/last-of-two-changed-by-callee", "如何改？\n\t输入子、丑\n\t以子（自增：10）\n\t以丑（自增：10）\n\t输出 子 + 丑\n令甲 = 1\n令乙 = 2\n令果 = （改：甲、乙）\n输出【果，甲，乙】\n", "list[num(23),num(1),num(2)]"},
			{"args-are-values/property-of-another-object", "定义户：\n\t其余额 = 100\n\t如何试算？\n\t\t输入数\n\t\t以数（自增：100）\n\t\t输出 数\n令甲 = （新建户）\n令乙 = （新建户）\n令果 = 以甲（试算：乙之余额）\n输出【果，甲之余额，乙之余额】\n", "list[num(200),num(100),num(100)]"},
			{"args-are-values/recursion-counting-down-its-input", "如何数？\n\t输入层\n\t如果 层 <= 0：\n\t\t输出 0\n\t以层（自减：1）\n\t输出 1 + （数：层）\n令甲 = 4\n输出【（数：甲），甲】\n", "list[num(4),num(4)]"},
			{"args-are-values/list-item-and-loop-variable", "如何改？\n\t输入数\n\t以数（自增：1）\n\t输出 数\n令列 = 【1，2】\n令和 = 0\n以项遍历列：\n\t和 = 和 + （改：项）\n输出【和，列，（改：列#1），列】\n", "list[num(5),list[num(1),num(2)],num(2),list[num(1),num(2)]]"},
			{"args-are-values/constructor-and-throw", "定义错：\n\t其码 = 0\n如何新建错？\n\t输入码\n\t以码（自增：1）\n\t其码 = 码\n令数 = 7\n令物 = （新建错：数）\n如何试？\n\t抛出错：数！\n\n\t拦截错：\n\t\t输出 其码\n输出【物之码，（试），数】\n", "list[num(8),num(8),num(7)]"},
			{"args-are-values/display", "令数 = 1\n（显示：数、{以数（自增：10）}、数）\n输出 数\n", `num(11)`},
			// the call yields the value of the 输出 that was reached first, from inside any loop over any
			// kind of collection, and nothing of the method runs afterwards
			{"return-from-dict-loop/first-match", "如何查？\n\t输入表\n\t以键、值遍历表：\n\t\t如果 值 > 1：\n\t\t\t输出 键\n\t输出 “无”\n输出（查：【“甲” = 1，“乙” = 2，“丙” = 3，“丁” = 4】）\n", `text("乙")`},
			{"return-from-dict-loop/no-later-effects", "定义计：\n\t其数 = 0\n如何查？\n\t输入表、器\n\t以键、值遍历表：\n\t\t器之数 = 器之数 + 1\n\t\t如果 值 == 2：\n\t\t\t输出 键\n\t输出 “无”\n令器 = （新建计）\n令果 = （查：【“甲” = 1，“乙” = 2，“丙” = 3，“丁” = 4】、器）\n输出【果，器之数】\n", `list[text("乙"),num(2)]`},
			{"return-from-dict-loop/in-type-method", "定义库：\n\t其表 = 【“甲” = 1，“乙” = 2，“丙” = 2】\n\t其次 = 0\n\t如何查？\n\t\t以键、值遍历 其表：\n\t\t\t其次 = 其次 + 1\n\t\t\t如果 值 == 2：\n\t\t\t\t输出 键\n\t\t输出 “无”\n令物 = （新建库）\n令果 = 以物（查）\n输出【果，物之次】\n", `list[text("乙"),num(2)]`},
			{"return-from-list-loop/no-later-effects", "定义计：\n\t其数 = 0\n如何查？\n\t输入列、器\n\t以项遍历列：\n\t\t器之数 = 器之数 + 1\n\t\t如果 项 == 2：\n\t\t\t输出 项\n\t输出 0\n令器 = （新建计）\n令果 = （查：【1，2，2，2】、器）\n输出【果，器之数】\n", `list[num(2),num(2)]`},
			{"return-from-nested-loops", "如何查？\n\t输入表\n\t以键、值遍历表：\n\t\t以项遍历值：\n\t\t\t如果 项 > 2：\n\t\t\t\t输出【键，项】\n\t输出 “无”\n输出（查：【“甲” = 【1，2】，“乙” = 【3，4】，“丙” = 【5】】）\n", `list[text("乙"),num(3)]`},
			{"local-type-with-constructor", "如何造？\n\t输入名字\n\t定义猫：\n\t\t其名 = “无”\n\t如何新建猫？\n\t\t输入名\n\t\t其名 = 名\n\t输出（新建猫：名字）之名\n输出【（造：“咪”），（造：“喵”）】\n", `list[text("咪"),text("喵")]`},
			{"local-type-default-constructor", "如何造？\n\t定义猫：\n\t\t其名 = “无”\n\t输出（新建猫）之名\n输出【（造），（造）】\n", `list[text("无"),text("无")]`},
			{"module-type-with-constructor", "定义猫：\n\t其名 = “无”\n如何新建猫？\n\t输入名\n\t其名 = 名\n输出（新建猫：“咪”）之名\n", `text("咪")`},
			{"local-type-method-and-this", "如何造？\n\t输入名字\n\t定义猫：\n\t\t其名 = “无”\n\t\t如何叫？\n\t\t\t输出 其名\n\t如何新建猫？\n\t\t输入名\n\t\t其名 = 名\n\t令物 = （新建猫：名字）\n\t输出 以物（叫）\n输出（造：“咪”）\n", `text("咪")`},
		}
		hreqs := make([]Req, len(hps))
		for k, h := range hps {
			hreqs[k] = execReq(h.src)
		}
		c.runBatches(hreqs, 10, func(k int, req *Req, resp *Resp) {
			c.Eval()
			c.Nontrivial("hand|" + hps[k].name + "|" + resp.Kind)
			got := resp.Kind
			if resp.Kind == "value" && resp.Val != nil {
				got = resp.Val.String()
			}
			if got != hps[k].want {
				c.Violation("hand:"+hps[k].name, fmt.Sprintf("%s: outcome %s %v, expected %s\nprogram:\n%s", hps[k].name, got, resp.Err, hps[k].want, hps[k].src), map[string]interface{}{"req": req})
			}
		})
	}
	// a property is whatever name the type declares: also a name that some built-in value uses for a
	// computed property or that the implementation uses internally. What was declared / written is
	// what is read - on this object, not on another one
	{
		hc := []handCase{}
		for _, pn := range []string{"自身", "长度", "数目", "文本", "内容", "首项", "末项", "所有索引", "所有值", "字数", "字符组", "逆序", "名", "类型", "状态码", "头部"} {
			src := "定义甲：\n\t其" + pn + " = 5\n\t如何读？\n\t\t输出 其" + pn + "\n\t如何写？\n\t\t输入值\n\t\t其" + pn + " = 值\n\t\t输出 其" + pn + "\n" +
				"令子 = （新建甲）\n令丑 = （新建甲）\n令前 = 子之" + pn + "\n子之" + pn + " = 7\n令中 = 【子之" + pn + "，以子（读），丑之" + pn + "】\n令后 = 以丑（写：9）\n输出【前，中，后，丑之" + pn + "，子之" + pn + "】\n"
			hc = append(hc, handCase{"property-named/" + pn, src, "list[num(5),list[num(7),num(7),num(5)],num(9),num(9),num(7)]"})
		}
		c.runHand("property-names", hc)
	}
	// a call with the wrong number of arguments is an error *of the call*: none of the callee's body
	// runs - not its statements and not its 拦截 blocks - and the caller does not get a value
	{
		fn := "令迹 = 【】\n如何求商？\n\t输入甲、乙\n\t以迹（后增：“body”）\n\t输出 甲 / 乙\n\n\t拦截异常：\n\t\t以迹（后增：“handler”）\n\t\t输出 -1\n"
		ty := "定义器：\n\t其数 = 1\n\t如何算？\n\t\t输入甲\n\t\t输出 甲 + 其数\n\n\t\t拦截异常：\n\t\t\t输出 -1\n如何新建器？\n\t输入初\n\t其数 = 初\n\n\t拦截异常：\n\t\t其数 = -1\n"
		wrap := func(call string) string {
			return "如何试？\n\t令果 = " + call + "\n\t输出 “got-a-value”\n\n\t拦截异常：\n\t\t输出 “refused”\n输出（试）\n"
		}
		c.runHand("arity-and-callee-handler", []handCase{
			{"function/too-many", fn + wrap("（求商：6、3、2）"), `text("refused")`},
			{"function/too-few", fn + wrap("（求商：6）"), `text("refused")`},
			{"function/none", fn + wrap("（求商）"), `text("refused")`},
			{"function/uncaught", fn + "令果 = （求商：6、3、2）\n输出 果\n", "error:*"},
			{"function/control-division-fault-is-the-callee's", fn + wrap("（求商：6、0）"), `text("got-a-value")`},
			{"type-method/too-many", ty + "令物 = （新建器：5）\n" + wrap("以物（算：1、2）"), `text("refused")`},
			{"type-method/too-few", ty + "令物 = （新建器：5）\n" + wrap("以物（算）"), `text("refused")`},
			{"constructor/too-many", ty + wrap("（新建器：1、2）"), `text("refused")`},
			{"constructor/too-few", ty + wrap("（新建器）"), `text("refused")`},
			{"function/body-and-handler-untouched", fn + "如何试？\n\t令果 = （求商：6、3、2）\n\t输出 1\n\n\t拦截异常：\n\t\t输出 迹\n输出（试）\n", `list[]`},
		})
	}
	// a call binds its arguments to the callee's inputs whatever the caller's blocks hold: a local of
	// the calling block that is named like an input of the callee, at any block depth, after earlier
	// calls written at other depths (every call opens and closes the same kinds of scopes)
	{
		fn := "如何加一？\n\t输入数\n\t输出 数 + 1\n定义器：\n\t其底 = 10\n\t如何加？\n\t\t输入数\n\t\t如果 数 > 0：\n\t\t\t令丙 = 1\n\t\t输出 其底 + 数\n如何新建器？\n\t输入数\n\t其底 = 数\n"
		c.runHand("same-named-local-in-caller", []handCase{
			{"function/deeper-block-after-top-level-call", fn + "令甲 =（加一：1）\n如果 真：\n\t令数 = 5\n\t令结果 =（加一：数）\n\t输出【甲，结果】\n", "list[num(2),num(6)]"},
			{"function/loop-body-after-top-level-call", fn + "令甲 =（加一：1）\n令和 = 0\n以项遍历【1，2】：\n\t令数 = 项 * 10\n\t和 = 和 +（加一：数）\n输出 和\n", "num(32)"},
			{"function/two-levels-deeper", fn + "令甲 =（加一：1）\n如果 真：\n\t令乙 =（加一：2）\n\t如果 真：\n\t\t令数 = 7\n\t\t输出【甲，乙，（加一：数）】\n", "list[num(2),num(3),num(8)]"},
			{"function/inside-method-after-calls", fn + "如何外？\n\t令甲 =（加一：1）\n\t如果 真：\n\t\t令数 = 5\n\t\t输出（加一：数）\n\t输出 0\n输出【（外），（外）】\n", "list[num(6),num(6)]"},
			{"type-method/deeper-block-after-call", fn + "令物 =（新建器：1）\n令甲 = 以物（加：1）\n如果 真：\n\t令数 = 5\n\t输出【甲，以物（加：数）】\n", "list[num(2),num(6)]"},
			{"constructor/deeper-block-after-call", fn + "令物 =（新建器：1）\n如果 真：\n\t令数 = 5\n\t令新 =（新建器：数）\n\t输出【物之底，新之底】\n", "list[num(1),num(5)]"},
			{"function/redeclaring-an-input-after-an-inner-block", "如何试？\n\t输入数\n\t如果 数 > 0：\n\t\t令内 = 1\n\t令数 = 9\n\t输出 数\n输出（试：1）\n", "error:*"},
			{"function/first-call-in-a-deeper-block-control", fn + "如果 真：\n\t令数 = 5\n\t输出（加一：数）\n", "num(6)"},
		})
	}
	// objects of a type that another module defines: 新建 in the importer initialises them with the
	// constructor as its module wrote it (that module's variables, helpers, constants), 其 is the new
	// object, methods and constructor agree, and the importer's own names of the same spelling play
	// no part
	{
		lib := "令费率 = 10\n如何折算？\n\t输入数\n\t输出 数 * 费率\n定义账户：\n\t其名 = “无”\n\t其余额 = 0\n\t其历史 = 【】\n\t如何存入？\n\t\t输入数\n\t\t其余额 = 其余额 + （折算：数）\n\t\t以其历史（后增：数）\n\t\t输出 其余额\n如何新建账户？\n\t输入名、数\n\t其名 = 名\n\t其余额 = 数 * 费率\n如何开户？\n\t输入名、数\n\t输出（新建账户：名、数）\n" +
			"定义欠费异常：\n\t其内容 = “”\n\t其额 = 0\n如何新建欠费异常？\n\t输入数\n\t其额 = （折算：数）\n\t其内容 = “欠费”\n"
		mf := func(main string) map[string]string { return map[string]string{"main.zn": main, "库.zn": lib} }
		c.runHandFiles("imported-type", []handFiles{
			{"constructor-uses-module-variable", mf("导入“库”\n令户 = （新建账户：“甲”、5）\n输出【户之名，户之余额】\n"), `list[text("甲"),num(50)]`},
			{"importer-has-variable-of-the-same-name", mf("导入“库”\n令费率 = 2\n令户 = （新建账户：“甲”、5）\n以户（存入：1）\n输出【户之余额，费率】\n"), `list[num(60),num(2)]`},
			{"importer-has-method-of-the-same-name", mf("导入“库”之账户\n如何折算？\n\t输入数\n\t输出 数 * 1000\n令户 = （新建账户：“甲”、5）\n以户（存入：1）\n输出【户之余额，（折算：1）】\n"), `list[num(60),num(1000)]`},
			{"selective-import-of-the-type-only", mf("导入“库”之账户\n令户 = （新建账户：“乙”、3）\n输出【户之名，户之余额，以户（存入：2）】\n"), `list[text("乙"),num(30),num(50)]`},
			{"factory-and-direct-creation-agree", mf("导入“库”\n令甲 = （新建账户：“子”、4）\n令乙 = （开户：“子”、4）\n输出【甲之余额，乙之余额，甲之名 为 乙之名】\n"), `list[num(40),num(40),bool(true)]`},
			{"two-objects-independent", mf("导入“库”\n令甲 = （新建账户：“子”、1）\n令乙 = （新建账户：“丑”、2）\n以甲（存入：3）\n输出【甲之余额，乙之余额，甲之历史，乙之历史】\n"), `list[num(40),num(20),list[num(3)],list[]]`},
			{"thrown-imported-exception-type", mf("导入“库”\n如何试？\n\t抛出欠费异常：7！\n\n\t拦截欠费异常：\n\t\t输出【其内容，其额】\n输出（试）\n"), `list[text("欠费"),num(70)]`},
			{"created-inside-importer-method-and-loop", mf("导入“库”\n如何批量？\n\t输入数\n\t令和 = 0\n\t以序遍历【1，2，3】：\n\t\t令户 = （新建账户：“批”、数 + 序）\n\t\t和 = 和 + 户之余额\n\t输出 和\n输出（批量：1）\n"), `num(90)`},
			{"constructor-arity-through-importer", mf("导入“库”\n如何试？\n\t令户 = （新建账户：“甲”）\n\t输出 户之余额\n\n\t拦截异常：\n\t\t输出 “refused”\n输出（试）\n"), `text("refused")`},
			{"nested-definitions-in-imported-function-called-twice", map[string]string{"main.zn": "导入“库二”\n输出【（求阶乘和：3），（求阶乘和：4），（求阶乘和：3）】\n", "库二.zn": "如何求阶乘和？\n\t输入数\n\t如何阶乘？\n\t\t输入甲\n\t\t如果 甲 <= 1：\n\t\t\t输出 1\n\t\t输出 甲 * （阶乘：甲 - 1）\n\t令和 = 0\n\t令次 = 1\n\t每当 次 <= 数：\n\t\t和 = 和 + （阶乘：次）\n\t\t次 = 次 + 1\n\t输出 和\n"}, `list[num(9),num(33),num(9)]`},
			{"nested-definitions-in-imported-type-method-and-constructor", map[string]string{"main.zn": "导入“库三”\n令甲 = （新建计：1）\n令乙 = （新建计：2）\n输出【甲之数，乙之数，以甲（加倍），以甲（加倍），以乙（加倍）】\n", "库三.zn": "定义计：\n\t其数 = 0\n\t如何加倍？\n\t\t如何双？\n\t\t\t输入甲\n\t\t\t输出 甲 * 2\n\t\t其数 = （双：其数 + 1）\n\t\t输出 其数\n如何新建计？\n\t输入初\n\t如何规整？\n\t\t输入甲\n\t\t输出 甲 + 100\n\t其数 = （规整：初）\n"}, `list[num(101),num(102),num(204),num(410),num(206)]`},
			{"nested-type-in-imported-function-called-twice", map[string]string{"main.zn": "导入“库四”\n输出【（造：“咪”），（造：“喵”），（造：“咪”）】\n", "库四.zn": "如何造？\n\t输入名字\n\t定义猫：\n\t\t其名 = “无”\n\t如何新建猫？\n\t\t输入名\n\t\t其名 = 名\n\t输出（新建猫：名字）之名\n"}, `list[text("咪"),text("喵"),text("咪")]`},
			{"imported-through-relay-module", map[string]string{"main.zn": "导入“中转”\n输出（经手：6）\n", "中转.zn": "导入“库”\n令费率 = 3\n如何经手？\n\t输入数\n\t令户 = （新建账户：“转”、数）\n\t输出【户之余额，费率】\n", "库.zn": lib}, `list[num(60),num(3)]`},
		})
	}
	c.runRefCases("call", progs, inputs, shapes, nil, nil)
}
