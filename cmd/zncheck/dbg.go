package main

import (
	"encoding/json"
	"fmt"
	"os"
	"strconv"
	"strings"

	. "verif/internal/proto"
)

func init() { register("DBG", "other", checkDBG) }

// DBG: developer aid. Runs the corpus (or the programs in $VERIF_DBG_FILE, separated by
// lines of "====") through the worker and prints what it observed.
func checkDBG(c *Ctx) {
	progs := corpus
	if f := os.Getenv("VERIF_DBG_FILE"); f != "" {
		data, err := os.ReadFile(f)
		if err != nil {
			fmt.Println(err)
			return
		}
		progs = strings.Split(string(data), "\n====\n")
	}
	for i, p := range progs {
		req := execReq(p)
		req.Libs = true
		req.Inputs = map[string]Val{"长": Num(3), "宽": Num(4)}
		if n, err := strconv.Atoi(os.Getenv("VERIF_DBG_REPS")); err == nil {
			req.Reps = n
		}
		resp := c.Pool.Do(req)
		fmt.Printf("---- program %d ----\n%s\n-> kind=%s", i, p, resp.Kind)
		if resp.Val != nil {
			fmt.Printf(" val=%s str=%q", resp.Val.String(), resp.Val.Str)
		}
		fmt.Printf(" ticks=%d/%d callstack=%d scopes=%v\n", resp.ParseTicks, resp.EvalTicks, resp.CallStack, resp.Scopes)
		if resp.RepDistinct > 0 {
			fmt.Printf("reps: distinct outcomes=%d %q (canary orders %d)\n", resp.RepDistinct, resp.RepOutcomes, resp.CanaryOrders)
		}
		if resp.Display != "" {
			fmt.Printf("display:\n%s", resp.Display)
		}
		if resp.Err != nil {
			b, _ := json.Marshal(resp.Err)
			fmt.Printf("err: %s\n%s\n", b, resp.Err.Text)
		}
		if resp.Panic != "" {
			fmt.Println("panic:", resp.Panic)
		}
		if os.Getenv("VERIF_DBG_PARSE") != "" {
			pr := c.Pool.Do(parseReq([]rune(p)))
			fmt.Println("dump:", pr.Dump)
		}
	}
	c.Count("evaluations", int64(len(progs)))
	c.Nontrivial("a")
	c.Nontrivial("b")
}
