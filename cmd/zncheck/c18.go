package main

import (
	"fmt"
	"math/rand"
	"regexp"
	"strconv"
	"strings"

	. "verif/internal/proto"
	zr "verif/internal/znref"
)

func init() { register("C18", "exploration", checkC18) }

type c18Frame struct {
	module string
	line   int
	text   string
	native bool
}

var reHead = regexp.MustCompile(`^在主模块中，位于第 (\d+) 行发生异常：$|^在模块“(.*)”中，位于第 (\d+) 行发生异常：$`)
var reBody = regexp.MustCompile(`^来自主模块，第 (\d+) 行：$|^来自“(.*)”模块，第 (\d+) 行：$`)

// parseErrorText splits exec.DisplayError output into location entries, caret column and message.
func parseErrorText(text string) (frames []c18Frame, caret int, msg string, ok bool) {
	caret = -1
	lines := strings.Split(text, "\n")
	i := 0
	for i < len(lines) {
		l := lines[i]
		var f *c18Frame
		if m := reHead.FindStringSubmatch(l); m != nil {
			if m[1] != "" {
				n, _ := strconv.Atoi(m[1])
				f = &c18Frame{module: "主模块", line: n}
			} else {
				n, _ := strconv.Atoi(m[3])
				f = &c18Frame{module: m[2], line: n}
			}
		} else if m := reBody.FindStringSubmatch(l); m != nil {
			if m[1] != "" {
				n, _ := strconv.Atoi(m[1])
				f = &c18Frame{module: "主模块", line: n}
			} else {
				n, _ := strconv.Atoi(m[3])
				f = &c18Frame{module: m[2], line: n}
			}
		} else if strings.Contains(l, "<内置模块>") {
			f = &c18Frame{native: true}
		}
		if f != nil {
			i++
			if i < len(lines) && strings.HasPrefix(lines[i], "    ") && !strings.HasPrefix(strings.TrimSpace(lines[i]), "^") {
				f.text = lines[i][4:]
				i++
				if i < len(lines) && strings.HasSuffix(lines[i], "^") && strings.TrimSpace(lines[i]) == "^" {
					caret = len(lines[i]) - 4 - 1
					i++
				}
			}
			frames = append(frames, *f)
			continue
		}
		if m := regexp.MustCompile(`^(语法错误|运行异常|IO错误)(\[\d+\])?：(.*)$`).FindStringSubmatch(l); m != nil {
			msg = m[3]
			ok = true
		}
		i++
	}
	return
}

// ---------------------------------------------------------------- runtime fault programs

type c18Case struct {
	files   []File
	main    string // source of the main file
	expect  []c18Frame
	shape   string
	srcs    map[string]string
}

var c18Faults = []string{"div0", "index", "undefined", "type", "throw", "key", "method-missing", "atoi", "arity", "nonbool-cond", "iterate-non-collection", "member-stmt", "member-of-call-stmt", "member-in-expr"}

func c18FaultStmt(kind string, tag int) zr.Stmt {
	switch kind {
	case "nonbool-cond":
		return zr.If{Cond: intLit(1), Then: []zr.Stmt{zr.Show(zr.S("x"))}}
	case "iterate-non-collection":
		return zr.Iter{Names: []string{"项"}, Over: intLit(5), Body: []zr.Stmt{zr.Show(zr.S("x"))}}
	case "member-stmt": // a statement that is nothing but a member access
		return zr.ExprStmt{E: zr.Member{Recv: zr.ListLit{Items: []zr.Expr{intLit(1)}}, Prop: "不存在"}}
	case "member-of-call-stmt": // … of a call result
		return zr.ExprStmt{E: zr.Member{Recv: zr.CallE("层0", zr.ListLit{Items: []zr.Expr{intLit(1)}}), Prop: "不存在"}}
	case "member-in-expr":
		return zr.LetS(fmt.Sprintf("坏%d", tag), zr.Bin{Op: "+", L: intLit(1), R: zr.Member{Recv: zr.ListLit{Items: []zr.Expr{intLit(1)}}, Prop: "不存在"}})
	}
	return c09RaiseStmt(kind, fmt.Sprint(tag))
}

func c18Verbatims(r *rand.Rand, k int) zr.Stmt {
	n := fmt.Sprintf("杂%d", k)
	switch r.Intn(7) {
	case 0:
		return zr.Verbatim{Lines: []string{"令" + n + " = “第一行", "第二行", "  第三行”"}, S: zr.LetS(n, zr.S("x"))}
	case 1:
		return zr.Verbatim{Lines: []string{"/* 多行", "注释", "*/"}, S: zr.Empty{}}
	case 2:
		return zr.Verbatim{Lines: []string{"注：“引号", "注释", "”"}, S: zr.Empty{}}
	case 3:
		return zr.Verbatim{Lines: []string{"令" + n + " = 【1，", "\x012，", "\x013】"}, S: zr.LetS(n, zr.S("x"))}
	case 4:
		return zr.Verbatim{Lines: []string{"令" + n + " = “含`", "`反引号换行”"}, S: zr.LetS(n, zr.S("x"))}
	case 5:
		return zr.Verbatim{Lines: []string{"（显示：", "\x01“续行”、", "\x011）"}, S: zr.Show(zr.S("续行"), intLit(1))}
	default:
		return zr.Verbatim{Lines: []string{"令" + n + " = “宽字符：全角ＡＢＣ，😀”"}, S: zr.LetS(n, zr.S("x"))}
	}
}

// c18Program: main -> 层1 -> … -> 层d, the innermost raises. Some levels live in module 模甲.
// c18HandlerFault: when > 0, the body at that level has a 拦截异常 block which, after taking over the
// exception raised deeper down, faults itself (nobody handles that second fault).
var c18HandlerFault int

func c18Program(r *rand.Rand, d int, fault string, useModule bool, handledFirst bool, asMethod bool) (*zr.Program, map[string]*zr.Program) {
	mods := map[string]*zr.Program{}
	mainBody := []zr.Stmt{}
	modBody := []zr.Stmt{}
	nv := 0
	sprinkle := func(body []zr.Stmt) []zr.Stmt {
		for r.Intn(3) == 0 {
			nv++
			body = append(body, c18Verbatims(r, nv))
		}
		return body
	}
	inModule := func(level int) bool { return useModule && level%2 == 0 }
	holder := zr.ClassDef{Name: "持有", Props: []zr.PropDef{{Name: "记", Val: intLit(1)}}}
	mainBody = append(mainBody, &zr.FuncDef{Name: "层0", Params: []string{"参0"}, Body: []zr.Stmt{zr.Return{E: zr.N("参0")}}})
	if useModule {
		modBody = append(modBody, &zr.FuncDef{Name: "层0", Params: []string{"参0"}, Body: []zr.Stmt{zr.Return{E: zr.N("参0")}}})
	}
	for level := d; level >= 1; level-- {
		p := fmt.Sprintf("参%d", level)
		fb := []zr.Stmt{zr.LetS(fmt.Sprintf("局%d", level), zr.Bin{Op: "+", L: zr.N(p), R: intLit(1)})}
		for k := 0; k < r.Intn(3); k++ {
			fb = append(fb, zr.Show(zr.S(fmt.Sprintf("在%d", level))))
		}
		if level == d {
			st := c18FaultStmt(fault, level)
			switch r.Intn(3) {
			case 0:
				st = zr.If{Cond: zr.N("真"), Then: []zr.Stmt{zr.Show(zr.S("内")), st}}
			case 1:
				st = zr.Iter{Names: []string{"轮"}, Over: zr.ListLit{Items: []zr.Expr{intLit(1), intLit(2)}}, Body: []zr.Stmt{zr.If{Cond: zr.Bin{Op: "==", L: zr.N("轮"), R: intLit(2)}, Then: []zr.Stmt{st}}}}
			}
			fb = append(fb, st)
		} else {
			// a call that returns before the fault must not appear in the chain
			fb = append(fb, zr.ExprStmt{E: zr.CallE("层0", intLit(1))})
			var call zr.Expr = zr.CallE(fmt.Sprintf("层%d", level+1), zr.N(p))
			switch r.Intn(3) {
			case 0:
				fb = append(fb, zr.ExprStmt{E: call})
			case 1:
				fb = append(fb, zr.LetS(fmt.Sprintf("得%d", level), zr.Bin{Op: "+", L: call, R: intLit(1)}))
			default:
				fb = append(fb, zr.If{Cond: zr.Bin{Op: ">", L: call, R: intLit(0)}, Then: []zr.Stmt{zr.Show(zr.S("不到"))}})
			}
		}
		fb = append(fb, zr.Return{E: intLit(level)})
		fd := &zr.FuncDef{Name: fmt.Sprintf("层%d", level), Params: []string{p}, Body: fb}
		if c18HandlerFault == level {
			second := []string{"div0", "index", "undefined", "type", "throw"}[r.Intn(5)]
			hb := []zr.Stmt{zr.Show(zr.S("处理"))}
			if r.Intn(2) == 0 {
				hb = append(hb, zr.ExprStmt{E: zr.CallE("层0", intLit(2))})
			}
			hb = append(hb, c18FaultStmt(second, 90+level), zr.Show(zr.S("不到")))
			fd.Catches = []zr.Catch{{Class: "异常", Body: hb}}
		}
		switch {
		case inModule(level):
			modBody = append(modBody, fd)
		case asMethod && level == 1:
			holder.Methods = append(holder.Methods, fd)
		default:
			mainBody = sprinkle(mainBody)
			mainBody = append(mainBody, fd)
		}
	}
	prog := &zr.Program{}
	if useModule {
		// module functions that call main-level functions cannot (separate modules): make the
		// chain cross the boundary only main->module->… by importing in both directions is a
		// cycle; so the module holds even levels and calls deeper levels only if they are in
		// the module too. Restrict: with a module, all levels >= 2 live in the module.
	}
	if asMethod && len(holder.Methods) > 0 {
		mainBody = append([]zr.Stmt{holder}, mainBody...)
	}
	if handledFirst {
		mainBody = append(mainBody,
			&zr.FuncDef{Name: "先败", Body: []zr.Stmt{zr.ExprStmt{E: zr.CallE("再败")}, zr.Return{E: intLit(1)}}, Catches: []zr.Catch{{Class: "异常", Body: []zr.Stmt{zr.Return{E: intLit(-1)}}}}},
			&zr.FuncDef{Name: "再败", Body: []zr.Stmt{zr.Throw{Class: "异常", Args: []zr.Expr{zr.S("早")}}}})
	}
	mainBody = sprinkle(mainBody)
	mainBody = append(mainBody, zr.LetS("主变", intLit(1)))
	if handledFirst {
		mainBody = append(mainBody, zr.Show(zr.S("先"), zr.CallE("先败")))
	}
	mainBody = sprinkle(mainBody)
	switch {
	case d == 0:
		mainBody = append(mainBody, c18FaultStmt(fault, 0))
	case asMethod && len(holder.Methods) > 0:
		mainBody = append(mainBody, zr.LetS("物", zr.New{Class: "持有"}), zr.ExprStmt{E: zr.MCall{Recv: zr.N("物"), Chain: []zr.CallPart{{Fn: "层1", Args: []zr.Expr{intLit(1)}}}}})
	default:
		mainBody = append(mainBody, zr.ExprStmt{E: zr.CallE("层1", intLit(1))})
	}
	mainBody = append(mainBody, zr.Show(zr.S("不到")))
	prog.Body = mainBody
	if useModule {
		prog.Imports = []zr.Import{{Name: "模甲"}}
		mods["模甲"] = &zr.Program{Body: modBody}
	}
	return prog, mods
}

func checkC18(c *Ctx) {
	c.rule = "fixed location cases (35 hand-written programs: loop / branch conditions on later passes, hoisted definitions, failing imports and faults down a chain of modules, missing 输入, faults at call entry, lines after empty annotations, leftover indented lines) with every expected (module, line) written down; runtime faults: call chains main -> 层1 -> … -> 层d (d = 0..4; levels >= 2 optionally in an imported module, level 1 optionally a type method) whose innermost body raises one of 11 fault kinds at a generator-known statement (plain, inside 如果, inside 遍历), with calls that returned earlier, an earlier handled exception, and multi-line literals / comments / bracket continuations / wide characters before the fault; rendered with LF, CR, CRLF or LFCR line ends, TAB or 4-space indents, blank lines and comments. The DisplayError text is parsed into (module, line, quoted text) entries and compared with the reference evaluator's call stack at the fault mapped to physical lines by the renderer: same entries in either printing order, no entry for a returned call, quoted text = that physical line. Faults inside a handler block are compared exactly as well: the level whose handler runs contributes the handler's current line only (not the statement whose exception was handled). Syntax faults: an unknown character / stray closing bracket planted at a known offset of a valid program: line, quoted line and caret column (display width of the text before the character; ASCII 1, CJK/full-width 2); a stray bracket after a text of 1-8 characters drawn from every width class that has been stable since the first East Asian Width tables (printable ASCII incl. ~, unified ideographs and extension A up to U+4DB5, kana, CJK symbols, Hangul syllables, full-width forms and signs), the first and last code point of each class among them. distinct_nontrivial = distinct (fault kind, depth, module/method/handled flags, line-end style, fault line)"
	c.assumptions = []string{"fault statements occupy one physical line", "unterminated literals and EOF positions are not judged", "frames that have not started a statement yet (line unknown) are compared by module only"}
	rng := c.Rand("c18")
	type rcase struct {
		req    Req
		ref    zr.Result
		lineOf map[string]map[int]int
		srcs   map[string]string
		shape  string
		inHandler bool
	}
	var cases []rcase
	n := c.Pick(3000, 250000)
	for i := 0; i < n; i++ {
		d := rng.Intn(5)
		fault := c18Faults[rng.Intn(len(c18Faults))]
		useModule := d >= 2 && rng.Intn(3) == 0
		asMethod := d >= 1 && !useModule && rng.Intn(3) == 0
		handled := rng.Intn(3) == 0
		var prog *zr.Program
		var mods map[string]*zr.Program
		hf := 0
		if useModule {
			// all levels >= 2 live in the module, level 1 in main
			prog, mods = c18ModuleProgram(rng, d, fault, handled)
		} else {
			if d >= 2 && rng.Intn(3) == 0 && fault != "throw-custom" {
				hf = 1 + rng.Intn(d-1) // a level above the raising one
			}
			c18HandlerFault = hf
			prog, mods = c18Program(rng, d, fault, false, handled, asMethod)
			c18HandlerFault = 0
		}
		next := 0
		prog = zr.TagProgram(prog, &next)
		tmods := map[string]*zr.Program{}
		for name, mp := range mods {
			tmods[name] = zr.TagProgram(mp, &next)
		}
		layout := zr.Layout{Rng: rand.New(rand.NewSource(rng.Int63()))}
		layout.EOL = []string{"\n", "\n", "\r", "\r\n", "\n\r"}[rng.Intn(5)]
		if rng.Intn(2) == 0 {
			layout.Indent = "    "
		}
		layout.BlankLines = rng.Intn(2) == 0
		layout.Comments = rng.Intn(2) == 0
		layout.TightKW = rng.Intn(2) == 0
		lineOf := map[string]map[int]int{}
		srcs := map[string]string{}
		src, lo := zr.RenderWithLines(prog, layout)
		lineOf["主模块"] = lo
		srcs["主模块"] = src
		files := []File{{Path: "main.zn", Data: widen([]byte(src))}}
		for name, mp := range tmods {
			ms, mlo := zr.RenderWithLines(mp, layout)
			lineOf[name] = mlo
			srcs[name] = ms
			files = append(files, File{Path: c15Path(name), Data: widen([]byte(ms))})
		}
		ip := zr.NewInterp()
		ip.Files = tmods
		ref := ip.Run(prog)
		req := Req{Op: "exec", Main: "main.zn", Files: files, EvalBudget: 50*ref.Steps + 5000, ParseBudget: 400000}
		cases = append(cases, rcase{req, ref, lineOf, srcs, fmt.Sprintf("%s/d%d/mod%v/meth%v/handled%v/hfault%d/eol%q", fault, d, useModule, asMethod, handled, hf, layout.EOL), hf > 0})
	}
	reqs := make([]Req, len(cases))
	for i := range cases {
		reqs[i] = cases[i].req
	}
	c.runBatches(reqs, 60, func(i int, req *Req, resp *Resp) {
		c.Eval()
		cs := cases[i]
		if _, ok := cs.ref.Err.(*zr.Unspec); ok || cs.ref.Err == nil {
			c.Count("runtime_not_judged", 1)
			return
		}
		key := "runtime:" + strings.SplitN(cs.shape, "/", 2)[0] + ":" + cs.shape + "|" + cs.srcs["主模块"]
		rp := map[string]interface{}{"req": req}
		if resp.Kind != "error" || resp.Err == nil || resp.Err.Class != "runtime" {
			c.Violation(key, fmt.Sprintf("%s: expected a runtime error, observed %s %v\nmain:\n%s", cs.shape, resp.Kind, resp.Err, cs.srcs["主模块"]), rp)
			return
		}
		frames, _, _, ok := parseErrorText(resp.Err.Text)
		if !ok {
			c.Violation(key, fmt.Sprintf("%s: error text has no message line:\n%s", cs.shape, resp.Err.Text), rp)
			return
		}
		// expected entries
		exp := []c18Frame{}
		for k, f := range cs.ref.Frames {
			// a handler block runs in place of its body: the body is not at a call site any more
			// (the statement it was interrupted in is over - if that was a call, the call has
			// returned), so the only entry of that level is the handler's own current line
			if k+1 < len(cs.ref.Frames) && cs.ref.Frames[k+1].Kind == "handler" {
				continue
			}
			e := c18Frame{module: f.Module}
			if f.Line != 0 {
				e.line = cs.lineOf[f.Module][f.Line]
				e.text = physLine(cs.srcs[f.Module], e.line)
			}
			exp = append(exp, e)
		}
		got := []c18Frame{}
		for _, f := range frames {
			if !f.native {
				got = append(got, f)
			}
		}
		faultLine := 0
		if len(exp) > 0 {
			faultLine = exp[len(exp)-1].line
		}
		c.Nontrivial(fmt.Sprintf("%s|%d", cs.shape, faultLine))
		match := func(g []c18Frame) string {
			if len(g) != len(exp) {
				return fmt.Sprintf("%d location entries, %d expected", len(g), len(exp))
			}
			for k := range exp {
				if g[k].module != exp[k].module {
					return fmt.Sprintf("entry %d names module %q, expected %q", k+1, g[k].module, exp[k].module)
				}
				if exp[k].line == 0 {
					continue
				}
				if g[k].line != exp[k].line {
					return fmt.Sprintf("entry %d names line %d of %s, expected line %d (%q)", k+1, g[k].line, g[k].module, exp[k].line, strings.TrimSpace(exp[k].text))
				}
				if trimIndent(g[k].text) != trimIndent(exp[k].text) {
					return fmt.Sprintf("entry %d quotes %q, line %d is %q", k+1, g[k].text, exp[k].line, exp[k].text)
				}
			}
			return ""
		}
		rev := make([]c18Frame, len(got))
		for k := range got {
			rev[len(got)-1-k] = got[k]
		}
		if cs.inHandler {
			c.Count("faults_inside_handlers_judged", 1)
		}
		d1 := match(got)
		if d1 != "" && match(rev) != "" {
			expDesc := []string{}
			for _, e := range exp {
				expDesc = append(expDesc, fmt.Sprintf("%s:%d", e.module, e.line))
			}
			c.Violation(key, fmt.Sprintf("%s: %s\nexpected chain (outermost first): %s\nerror text:\n%s\nmain file:\n%s", cs.shape, d1, strings.Join(expDesc, " -> "), resp.Err.Text, clip(cs.srcs["主模块"], 1200)), rp)
		} else if i%400 == 0 {
			c.Sample(map[string]interface{}{"shape": cs.shape, "error_text": resp.Err.Text})
		}
	})
	checkC18Syntax(c)
	c18Fixed(c)
}

// c18Fixed: hand-written programs with the physical line of every expected entry written down;
// places a fault can arise that are not ordinary statements of a body: a loop condition on a
// later pass, hoisted definitions, import statements (also down a chain of modules), the 输入
// line, the moment a call is entered, and lines after comments that contain nothing.
func c18Fixed(c *Ctx) {
	type fr struct {
		mod  string
		line int
	}
	type fx struct {
		name    string
		files   map[string]string
		inputs  map[string]Val
		accept  [][]fr // acceptable chains, outermost first
		syntax  bool   // a syntax error is expected: accept[0][0] is its line, caretAt the rune under the marker
		caretAt string
	}
	M := "主模块"
	cases := []fx{
		{name: "while-cond/later-pass", files: map[string]string{"main.zn": "令甲 = 2\n令乙 = 0\n每当 10 / 甲 > 0：\n\t乙 = 乙 + 1\n\t甲 = 甲 - 1\n"}, accept: [][]fr{{{M, 3}}}},
		{name: "while-cond/call-on-later-pass", files: map[string]string{"main.zn": "令次 = 0\n如何查？\n\t输入数\n\t输出 10 / 数 > 0\n令甲 = 1\n每当 （查：甲）：\n\t令丙 = 1\n\t甲 = 甲 - 1\n"}, accept: [][]fr{{{M, 6}, {M, 4}}}},
		{name: "while-cond/first-pass", files: map[string]string{"main.zn": "令甲 = 0\n\n每当 10 / 甲 > 0：\n\t甲 = 甲 - 1\n"}, accept: [][]fr{{{M, 3}}}},
		{name: "branch-cond/elseif", files: map[string]string{"main.zn": "令甲 = 0\n如果 甲 > 5：\n\t令乙 = 1\n再如 1 / 甲 > 0：\n\t令乙 = 2\n"}, accept: [][]fr{{{M, 4}}, {{M, 2}}}},
		{name: "hoisted/duplicate-method", files: map[string]string{"main.zn": "令甲 = 1\n令乙 = 2\n如何测试？\n\t输出 1\n\n如何测试？\n\t输出 2\n"}, accept: [][]fr{{{M, 6}}}},
		{name: "hoisted/property-initialiser", files: map[string]string{"main.zn": "令甲 = 1\n令乙 = 2\n定义丙：\n\t其丁 = 1 / 0\n"}, accept: [][]fr{{{M, 3}}, {{M, 4}}}},
		{name: "hoisted/constructor-of-unknown-type", files: map[string]string{"main.zn": "令甲 = 1\n令乙 = 2\n\n如何新建箱？\n\t输入值\n\t其值 = 值\n"}, accept: [][]fr{{{M, 4}}}},
		{name: "hoisted/in-method-body", files: map[string]string{"main.zn": "如何外？\n\t令甲 = 1\n\t如何内？\n\t\t输出 1\n\t如何内？\n\t\t输出 2\n\t输出 3\n\n令子 = 1\n（外）\n"}, accept: [][]fr{{{M, 10}, {M, 5}}}},
		{name: "import/missing-module", files: map[string]string{"main.zn": "注：“多行\n注释”\n导入“不存在”\n令甲 = 1\n"}, accept: [][]fr{{{M, 3}}}},
		{name: "import/missing-library", files: map[string]string{"main.zn": "注：一\n注：二\n导入《@JSON》\n导入《@不存在的库》\n令甲 = 1\n"}, accept: [][]fr{{{M, 4}}}},
		{name: "import/fault-down-a-chain", files: map[string]string{"main.zn": "注：一\n导入“甲”\n令子 = 1\n", "甲.zn": "注：一\n注：二\n导入“乙”\n如何甲法？\n\t输出 1\n", "乙.zn": "注：一\n注：二\n注：三\n令寅 = 1 / 0\n"}, accept: [][]fr{{{M, 2}, {"甲", 3}, {"乙", 4}}}},
		{name: "import/cycle", files: map[string]string{"main.zn": "注：一\n导入“甲”\n", "甲.zn": "注：一\n注：二\n导入“乙”\n", "乙.zn": "注：一\n注：二\n注：三\n导入“甲”\n"}, accept: [][]fr{{{M, 2}, {"甲", 3}, {"乙", 4}}}},
		{name: "input/missing-value", files: map[string]string{"main.zn": "注：a\n注：b\n输入甲\n令乙 = 1\n"}, accept: [][]fr{{{M, 3}}}},
		{name: "call-entry/not-a-method", files: map[string]string{"main.zn": "注：a\n注：b\n令算 = 1\n令子 = 1\n（算：1、2）\n"}, accept: [][]fr{{{M, 5}}}},
		{name: "method-entry/input-name-is-no-identifier", files: map[string]string{"main.zn": "注：a\n令子 = 1\n如何算？\n\t输入5x\n\t输出 1\n令丑 = 1\n（算：1）\n"}, accept: [][]fr{{{M, 7}, {M, 4}}}},
		{name: "method-entry/input-name-is-no-identifier-in-type-method", files: map[string]string{"main.zn": "定义狗：\n\t其名 = 1\n\t如何叫？\n\n\t\t输入数、7y\n\t\t输出 1\n令D = （新建狗）\n令丑 = 1\n以D（叫：1、2）\n"}, accept: [][]fr{{{M, 9}, {M, 5}}}},
		{name: "while-cond/fault-after-a-pass-ended-by-continue", files: map[string]string{"main.zn": "令次 = 0\n每当 10 / {3 - 次} > 0：\n\t次 = 次 + 1\n\t如果 次 < 5：\n\t\t继续循环\n\t令甲 = 1\n"}, accept: [][]fr{{{M, 2}}}},
		{name: "while-cond/call-fault-after-a-pass-ended-by-continue", files: map[string]string{"main.zn": "如何查？\n\t输入数\n\t输出 10 / {3 - 数} > 0\n令次 = 0\n令子 = 1\n每当 （查：次）：\n\t次 = 次 + 1\n\t如果 真：\n\t\t继续循环\n\t令甲 = 1\n"}, accept: [][]fr{{{M, 6}, {M, 3}}}},
		{name: "while-cond/fault-after-inner-loop-broke", files: map[string]string{"main.zn": "令次 = 0\n每当 10 / {2 - 次} > 0：\n\t次 = 次 + 1\n\t以项遍历【1，2，3】：\n\t\t如果 项 == 2：\n\t\t\t结束循环\n\t令甲 = 1\n"}, accept: [][]fr{{{M, 2}}}},
		{name: "while-cond/in-method-after-continue", files: map[string]string{"main.zn": "如何跑？\n\t令次 = 0\n\t每当 【1，2】#{次 + 1} > 0：\n\t\t次 = 次 + 1\n\t\t继续循环\n\t输出 次\n令子 = 1\n（跑）\n"}, accept: [][]fr{{{M, 8}, {M, 3}}}},
		{name: "iterate/fault-in-body-after-continue", files: map[string]string{"main.zn": "令和 = 0\n以项遍历【1，2，0】：\n\t如果 项 == 1：\n\t\t继续循环\n\t和 = 和 + 10 / {项 - 2}\n\t令乙 = 10 / 项\n"}, accept: [][]fr{{{M, 5}}}},
		{name: "call-entry/arity", files: map[string]string{"main.zn": "注：a\n注：b\n如何算？\n\t输入数\n\t输出 数\n\n令子 = 1\n（算：1、2）\n"}, accept: [][]fr{{{M, 8}}, {{M, 8}, {M, 3}}, {{M, 8}, {M, 4}}}},
		{name: "call-entry/arity-in-module", files: map[string]string{"main.zn": "导入“甲”\n令子 = 1\n令丑 = 1\n（算：1、2）\n", "甲.zn": "注：a\n注：b\n如何算？\n\t输入数\n\t输出 数\n"}, accept: [][]fr{{{M, 4}}, {{M, 4}, {"甲", 3}}, {{M, 4}, {"甲", 4}}}},
		{name: "call-entry/constructor-arity", files: map[string]string{"main.zn": "注：a\n定义箱：\n\t其值 = 0\n如何新建箱？\n\t输入值\n\t其值 = 值\n\n令物 = （新建箱：1、2）\n"}, accept: [][]fr{{{M, 8}}, {{M, 8}, {M, 4}}, {{M, 8}, {M, 5}}}},
		{name: "method-entry/missing-object-method", files: map[string]string{"main.zn": "令甲 = 1\n定义狗：\n\t其名 = “a”\n\t如何叫？\n\t\t输出 1\n\n令D = （新建狗）\n令乙 = 2\n令丙 = 3\n以D（不存在）\n"}, accept: [][]fr{{{M, 10}}}},
		{name: "method-entry/missing-method-of-imported-type", files: map[string]string{"main.zn": "导入“甲”\n令乙 = 2\n令D = （新建狗）\n以D（不存在）\n", "甲.zn": "注：a\n注：b\n定义狗：\n\t其名 = “a”\n"}, accept: [][]fr{{{M, 4}}}},
		{name: "method-entry/object-method-arity", files: map[string]string{"main.zn": "注：a\n定义狗：\n\t其名 = “a”\n\t如何叫？\n\t\t输入甲\n\t\t输出 1\n令D = （新建狗）\n以D（叫：1、2）\n"}, accept: [][]fr{{{M, 8}}, {{M, 8}, {M, 4}}, {{M, 8}, {M, 5}}}},
		{name: "method-entry/object-method-fault", files: map[string]string{"main.zn": "注：a\n定义狗：\n\t其名 = “a”\n\t如何叫？\n\t\t令乙 = 1\n\t\t输出 1 / 0\n令D = （新建狗）\n以D（叫）\n"}, accept: [][]fr{{{M, 8}, {M, 6}}}},
		{name: "method-entry/builtin-method-missing", files: map[string]string{"main.zn": "注：a\n令甲 = 【1】\n以甲（不存在）\n"}, accept: [][]fr{{{M, 3}}}},
		{name: "native/library-function-fails", files: map[string]string{"main.zn": "导入《@JSON》\n令乙 = 2\n令丙 = （解析JSON：“{”）\n"}, accept: [][]fr{{{M, 3}}}},
		{name: "native/library-function-alias-fails", files: map[string]string{"main.zn": "导入《@JSON》\n令乙 = 2\n令函 = 解析JSON\n令丙 = （函：“{”）\n"}, accept: [][]fr{{{M, 4}}}},
		{name: "native/library-function-fails-in-method", files: map[string]string{"main.zn": "导入《@JSON》\n如何读？\n\t输入文\n\t输出（解析JSON：文）\n令乙 = 2\n令丙 = （读：“{”）\n"}, accept: [][]fr{{{M, 6}, {M, 4}}}},
		{name: "comment/empty-annotation", files: map[string]string{"main.zn": "注：\n令甲 = 1\n令乙 = 1 / 0\n"}, accept: [][]fr{{{M, 3}}}},
		{name: "comment/empty-numbered-annotation", files: map[string]string{"main.zn": "令子 = 1\n注12：\n令甲 = 1\n令乙 = 甲 / 0\n"}, accept: [][]fr{{{M, 4}}}},
		{name: "comment/empty-annotation-cr", files: map[string]string{"main.zn": "注：\r令甲 = 1\r令乙 = 1 / 0\r"}, accept: [][]fr{{{M, 3}}}},
		{name: "comment/empty-annotation-crlf", files: map[string]string{"main.zn": "注：\r\n令甲 = 1\r\n令乙 = 1 / 0\r\n"}, accept: [][]fr{{{M, 3}}}},
		{name: "comment/empty-annotation-trailing", files: map[string]string{"main.zn": "令甲 = 1  注：\n令乙 = 2\n令丙 = 乙 / 0\n"}, accept: [][]fr{{{M, 3}}}},
		{name: "comment/empty-annotation-undefined", files: map[string]string{"main.zn": "注：\n令甲 = 1\n输出 甲\n"}, accept: nil},
		{name: "member-statement/this-property", files: map[string]string{"main.zn": "定义狗：\n\t其名 = “a”\n\t如何叫？\n\t\t令乙 = 1\n\t\t其不存在\n令D = （新建狗）\n以D（叫）\n"}, accept: [][]fr{{{M, 7}, {M, 5}}}},
		{name: "member-statement/of-variable", files: map[string]string{"main.zn": "令甲 = 5\n令乙 = 6\n令丙 = 7\n甲之不存在\n"}, accept: [][]fr{{{M, 4}}}},
		{name: "member-statement/call-site-inside", files: map[string]string{"main.zn": "如何取？\n\t输入数\n\t输出 10 / 数\n令甲 = 5\n令乙 = 6\n\n（取：0）之长度\n"}, accept: [][]fr{{{M, 7}, {M, 3}}}},
		{name: "after-loop-signal-from-callee/continue-then-fault-in-call", files: map[string]string{"main.zn": "如何跳？\n\t令甲 = 1\n\t继续循环\n如何坏？\n\t令乙 = 1 / 0\n以项遍历【1，2】：\n\t（跳）\n\t令丙 = 1\n（坏）\n"}, accept: [][]fr{{{M, 9}, {M, 5}}}},
		{name: "after-loop-signal-from-callee/continue-then-fault-in-main", files: map[string]string{"main.zn": "如何跳？\n\t令甲 = 1\n\t继续循环\n令次 = 0\n每当 次 < 2：\n\t次 = 次 + 1\n\t（跳）\n令子 = 1\n令丑 = 2\n令乙 = 1 / 0\n"}, accept: [][]fr{{{M, 10}}}},
		{name: "after-loop-signal-from-callee/break-then-fault-in-call", files: map[string]string{"main.zn": "如何跳？\n\t令甲 = 1\n\t结束循环\n如何坏？\n\t令乙 = 【1】#5\n以项遍历【1，2】：\n\t（跳）\n\t令丙 = 1\n（坏）\n"}, accept: [][]fr{{{M, 9}, {M, 5}}}},
		{name: "after-loop-signal-from-type-method/continue-then-fault", files: map[string]string{"main.zn": "定义器：\n\t其数 = 0\n\t如何跳？\n\t\t继续循环\n令物 = （新建器）\n以项遍历【1，2】：\n\t以物（跳）\n令子 = 1\n令乙 = 子 / 0\n"}, accept: [][]fr{{{M, 9}}}},
		{name: "handler-fault/top-level", files: map[string]string{"main.zn": "令A = 1\n令B = A / 0\n令C = 2\n拦截异常：\n\t令D = 1\n\t令E = D / 0\n"}, accept: [][]fr{{{M, 6}}}},
		{name: "handler-fault/after-returned-call", files: map[string]string{"main.zn": "如何丙？\n\t令Z = 1\n\t令W = Z / 0\n\n如何乙？\n\t令Y = 1 / 0\n\n如何甲？\n\t令X = 1\n\t（乙）\n\t令X2 = 1\n\t拦截异常：\n\t\t令Q = 1\n\t\t（丙）\n\n令A = 1\n（甲）\n"}, accept: [][]fr{{{M, 17}, {M, 14}, {M, 3}}}},
		{name: "handler-fault/handler-name-is-no-identifier", files: map[string]string{"main.zn": "如何乙？\n\t令K = 1\n\t令Y = 1 / 0\n\n如何甲？\n\t令K = 1\n\t（乙）\n\n\t拦截1异常：\n\t\t输出5\n\n令A = 1\n（甲）\n"}, accept: [][]fr{{{M, 13}, {M, 7}}, {{M, 13}, {M, 9}}}},
		{name: "handler-fault/in-handler-of-handler-caller", files: map[string]string{"main.zn": "如何乙？\n\t令Y = 1 / 0\n\n\t拦截异常：\n\t\t令丁 = 【1】#5\n\n如何甲？\n\t（乙）\n\n\t拦截异常：\n\t\t令戊 = 1\n\t\t令己 = 戊 / 0\n\n令A = 1\n（甲）\n"}, accept: [][]fr{{{M, 15}, {M, 12}}}},
		{name: "mixed-line-ends/crlf-then-lf-lf", files: map[string]string{"main.zn": "令甲 = 1\r\n\n\n令乙 = ~1\n"}, accept: [][]fr{{{M, 4}}}, syntax: true, caretAt: ""},
		{name: "mixed-line-ends/lf-then-crlf-crlf", files: map[string]string{"main.zn": "令甲 = 1\n令乙 = 2\r\n\r\n令丙 = ~1\r\n"}, accept: [][]fr{{{M, 4}}}, syntax: true, caretAt: ""},
		{name: "mixed-line-ends/cr-then-lf-lf", files: map[string]string{"main.zn": "令甲 = 1\r令乙 = 2\n\n令丙 = 】\n"}, accept: [][]fr{{{M, 4}}}, syntax: true, caretAt: ""},
		{name: "mixed-line-ends/crlf-lf-lf-lf-crlf", files: map[string]string{"main.zn": "令甲 = 1\r\n\n\n\n\r\n令乙 = 2\n令丙 = ~1\n"}, accept: [][]fr{{{M, 7}}}, syntax: true, caretAt: ""},
		{name: "mixed-line-ends/runtime-fault", files: map[string]string{"main.zn": "令甲 = 1\r\n\n\n令乙 = 甲 / 0\n"}, accept: [][]fr{{{M, 4}}}},
		{name: "mixed-line-ends/runtime-fault-in-call", files: map[string]string{"main.zn": "如何坏？\r\n\t令乙 = 1 / 0\r\n\n\n令子 = 1\n（坏）\r\n"}, accept: [][]fr{{{M, 6}, {M, 2}}}},
		{name: "syntax/after-literal-with-unfinished-escape-before-lf", files: map[string]string{"main.zn": "令甲设为「一`C\n二」\n令乙设为 ）\n"}, accept: [][]fr{{{M, 3}}}, syntax: true, caretAt: ""},
		{name: "syntax/after-literal-with-unfinished-u-escape-before-cr", files: map[string]string{"main.zn": "令甲设为“一`U+4E\r二”\r令丙 = 1\r令乙设为 ）\r"}, accept: [][]fr{{{M, 4}}}, syntax: true, caretAt: ""},
		{name: "syntax/after-literal-with-several-unfinished-escapes", files: map[string]string{"main.zn": "令甲设为「`TA\n`S\n`CRL\n尾」\n令乙设为 】\n"}, accept: [][]fr{{{M, 5}}}, syntax: true, caretAt: ""},
		{name: "runtime/after-literal-with-unfinished-escape-before-lf", files: map[string]string{"main.zn": "令甲 = “一`B\n二`L\n三”\n令乙 = 1 / 0\n"}, accept: [][]fr{{{M, 4}}}},
		{name: "syntax/indent-two-spaces", files: map[string]string{"main.zn": "令甲 = 1\n如果 甲 == 1：\n  令乙 = 2\n令丙 = 3\n"}, accept: [][]fr{{{M, 3}}}, syntax: true, caretAt: ""},
		{name: "syntax/indent-six-spaces-later", files: map[string]string{"main.zn": "如果 真：\n    令甲 = 1\n    令乙 = 2\n如果 真：\n      令丙 = 3\n令丁 = 4\n"}, accept: [][]fr{{{M, 5}}}, syntax: true, caretAt: ""},
		{name: "syntax/indent-tab-in-space-file", files: map[string]string{"main.zn": "如果 真：\n    令甲 = 1\n如果 真：\n\t令乙 = 2\n"}, accept: [][]fr{{{M, 4}}}, syntax: true, caretAt: ""},
		{name: "syntax/indent-spaces-in-tab-file", files: map[string]string{"main.zn": "如果 真：\n\t令甲 = 1\n令子 = 1\n如果 真：\n    令乙 = 2\n"}, accept: [][]fr{{{M, 5}}}, syntax: true, caretAt: ""},
		{name: "syntax/indent-two-spaces-crlf", files: map[string]string{"main.zn": "令甲 = 1\r\n令乙 = 2\r\n如果 甲 == 1：\r\n  令丙 = 2\r\n"}, accept: [][]fr{{{M, 4}}}, syntax: true, caretAt: ""},
		{name: "syntax/indent-two-spaces-after-multiline-literal", files: map[string]string{"main.zn": "令文 = “一\n二”\n如果 真：\n  令丙 = 2\n"}, accept: [][]fr{{{M, 4}}}, syntax: true, caretAt: ""},
		{name: "syntax/leftover-indented-line", files: map[string]string{"main.zn": "令甲 = 1\n    令乙 = 2\n令丙 = 3\n"}, accept: [][]fr{{{M, 2}}}, syntax: true, caretAt: "令"},
		{name: "syntax/leftover-after-block", files: map[string]string{"main.zn": "如果 真：\n\t令甲 = 1\n\t\t令乙 = 2\n"}, accept: [][]fr{{{M, 3}}}, syntax: true, caretAt: "令"},
		{name: "syntax/after-empty-annotation", files: map[string]string{"main.zn": "注：\n令甲 = 1\n令乙 = = 0\n"}, accept: [][]fr{{{M, 3}}}, syntax: true, caretAt: ""},
	}
	reqs := make([]Req, len(cases))
	for i, k := range cases {
		fl := []File{}
		for p, src := range k.files {
			fl = append(fl, File{Path: p, Data: widen([]byte(src))})
		}
		reqs[i] = Req{Op: "exec", Main: "main.zn", Files: fl, Libs: true, Inputs: k.inputs, EvalBudget: 20000, ParseBudget: 20000}
	}
	c.runBatches(reqs, 8, func(i int, req *Req, resp *Resp) {
		c.Eval()
		k := cases[i]
		c.Count("fixed_location_cases", 1)
		c.Nontrivial("fixed|" + k.name + "|" + resp.Kind)
		key := "fixed:" + strings.SplitN(k.name, "/", 2)[0] + ":" + k.name
		rp := map[string]interface{}{"req": req}
		if k.accept == nil {
			// no fault expected at all: the program must run to its end
			if resp.Kind != "value" {
				c.Violation(key, fmt.Sprintf("%s: the program is valid and must yield a value, observed %s %v\n%s", k.name, resp.Kind, resp.Err, k.files["main.zn"]), rp)
			}
			return
		}
		if resp.Kind != "error" || resp.Err == nil {
			c.Violation(key, fmt.Sprintf("%s: expected an error report, observed %s\n%s", k.name, resp.Kind, k.files["main.zn"]), rp)
			return
		}
		if k.syntax != (resp.Err.Class == "syntax") {
			c.Violation(key, fmt.Sprintf("%s: expected syntax error = %v, observed class %s: %s", k.name, k.syntax, resp.Err.Class, resp.Err.Text), rp)
			return
		}
		frames, caret, _, ok := parseErrorText(resp.Err.Text)
		if !ok {
			c.Violation(key, fmt.Sprintf("%s: error text has no message line:\n%s", k.name, resp.Err.Text), rp)
			return
		}
		got := []fr{}
		texts := []string{}
		for _, f := range frames {
			if !f.native {
				got = append(got, fr{f.module, f.line})
				texts = append(texts, f.text)
			}
		}
		same := func(a, b []fr) bool {
			if len(a) != len(b) {
				return false
			}
			for x := range a {
				if a[x] != b[x] {
					return false
				}
			}
			return true
		}
		rev := make([]fr, len(got))
		for x := range got {
			rev[len(got)-1-x] = got[x]
		}
		okChain := false
		for _, a := range k.accept {
			if same(got, a) || same(rev, a) {
				okChain = true
			}
		}
		if !okChain {
			c.Violation(key, fmt.Sprintf("%s: the report names %v (as printed), expected %v (outermost first)\nerror text:\n%s\nmain.zn:\n%s", k.name, got, k.accept, resp.Err.Text, k.files["main.zn"]), rp)
			return
		}
		// every quoted line is the physical line it names
		for x, g := range got {
			src := k.files["main.zn"]
			if g.mod != M {
				src = k.files[g.mod+".zn"]
			}
			if want := physLine(src, g.line); trimIndent(texts[x]) != trimIndent(want) {
				c.Violation(key, fmt.Sprintf("%s: entry %s:%d quotes %q, but that line is %q", k.name, g.mod, g.line, texts[x], want), rp)
				return
			}
		}
		if k.syntax && k.caretAt != "" && len(got) > 0 {
			line := []rune(physLine(k.files["main.zn"], got[0].line))
			// caret is a display column relative to the quoted (indent-trimmed) line
			trimmed := []rune(trimIndent(string(line)))
			if w, okw := displayWidth(string(trimmed[:0])); okw && caret >= 0 {
				_ = w
				col := 0
				at := -1
				for x, ch := range trimmed {
					if col == caret {
						at = x
						break
					}
					cw, _ := displayWidth(string(ch))
					col += cw
				}
				if at < 0 || string(trimmed[at]) != k.caretAt {
					under := "?"
					if at >= 0 {
						under = string(trimmed[at])
					}
					c.Violation(key, fmt.Sprintf("%s: the column marker is under %q, expected under the first offending character %q\nerror text:\n%s", k.name, under, k.caretAt, resp.Err.Text), rp)
				}
			}
		}
	})
}

func physLine(src string, n int) string {
	lines := splitPhysicalLines([]rune(src))
	if n >= 1 && n <= len(lines) {
		return lines[n-1]
	}
	return "<no such line>"
}

// c18ModuleProgram: level 1 in main, levels >= 2 in module 模甲.
func c18ModuleProgram(r *rand.Rand, d int, fault string, handledFirst bool) (*zr.Program, map[string]*zr.Program) {
	modBody := []zr.Stmt{&zr.FuncDef{Name: "模层0", Params: []string{"参0"}, Body: []zr.Stmt{zr.Return{E: zr.N("参0")}}}}
	nv := 100
	for level := d; level >= 2; level-- {
		p := fmt.Sprintf("参%d", level)
		fb := []zr.Stmt{zr.LetS(fmt.Sprintf("局%d", level), zr.N(p))}
		if level == d {
			fb = append(fb, c18FaultStmtMod(fault, level))
		} else {
			fb = append(fb, zr.ExprStmt{E: zr.CallE("模层0", intLit(1))}, zr.ExprStmt{E: zr.CallE(fmt.Sprintf("层%d", level+1), zr.N(p))})
		}
		fb = append(fb, zr.Return{E: intLit(level)})
		if r.Intn(3) == 0 {
			nv++
			modBody = append(modBody, c18Verbatims(r, nv))
		}
		modBody = append(modBody, &zr.FuncDef{Name: fmt.Sprintf("层%d", level), Params: []string{p}, Body: fb})
	}
	modBody = append(modBody, zr.Show(zr.S("模块体")))
	mainBody := []zr.Stmt{
		&zr.FuncDef{Name: "层1", Params: []string{"参1"}, Body: []zr.Stmt{zr.Show(zr.S("在1")), zr.ExprStmt{E: zr.CallE("层2", zr.N("参1"))}, zr.Return{E: intLit(1)}}},
	}
	if handledFirst {
		mainBody = append(mainBody,
			&zr.FuncDef{Name: "先败", Body: []zr.Stmt{zr.ExprStmt{E: zr.CallE("层2", intLit(0))}, zr.Return{E: intLit(1)}}, Catches: []zr.Catch{{Class: "异常", Body: []zr.Stmt{zr.Return{E: intLit(-1)}}}}})
	}
	if r.Intn(2) == 0 {
		nv++
		mainBody = append(mainBody, c18Verbatims(r, nv))
	}
	if handledFirst {
		mainBody = append(mainBody, zr.Show(zr.S("先"), zr.CallE("先败")))
	}
	mainBody = append(mainBody, zr.ExprStmt{E: zr.CallE("层1", intLit(1))}, zr.Show(zr.S("不到")))
	return &zr.Program{Imports: []zr.Import{{Name: "模甲"}}, Body: mainBody}, map[string]*zr.Program{"模甲": {Body: modBody}}
}

func c18FaultStmtMod(kind string, tag int) zr.Stmt {
	if kind == "arity" {
		return zr.ExprStmt{E: zr.CallE("模层0", intLit(1), intLit(2), intLit(3))}
	}
	if kind == "throw-custom" {
		kind = "throw"
	}
	return c18FaultStmt(kind, tag)
}

// ---------------------------------------------------------------- syntax faults

func displayWidth(s string) (int, bool) {
	w := 0
	for _, ch := range s {
		switch {
		case ch < 0x7f && ch >= 0x20:
			w++
		case ch == '\t':
			return 0, false
		case (ch >= 0x302A && ch <= 0x302F) || ch == 0x3099 || ch == 0x309A:
			return 0, false // combining marks: not judged
		case (ch >= 0x4E00 && ch <= 0x9FFF) || (ch >= 0xFF01 && ch <= 0xFF60) || (ch >= 0x3000 && ch <= 0x303E) || (ch >= 0x3041 && ch <= 0x3096) || (ch >= 0x309B && ch <= 0x30FF) ||
			(ch >= 0x3400 && ch <= 0x4DB5) || (ch >= 0xAC00 && ch <= 0xD7A3) || (ch >= 0xFFE0 && ch <= 0xFFE6):
			// East Asian Width W / F since the first versions of UAX #11 (unified ideographs and
			// extension A, kana, CJK symbols and punctuation, Hangul syllables, full-width forms)
			w += 2
		default:
			return 0, false // ambiguous width: not judged
		}
	}
	return w, true
}

func checkC18Syntax(c *Ctx) {
	rng := c.Rand("c18syn")
	type scase struct {
		src     []rune
		off     int
		kind    string
	}
	var cases []scase
	seeds := []string{}
	for i, s := range corpus {
		if i == 12 || i == 14 || i == 17 || i == 22 || i == 23 {
			continue // multi-line comments/literals and CRLF are covered by dedicated seeds below
		}
		seeds = append(seeds, s)
	}
	seeds = append(seeds,
		"令文 = “第一行\n第二行”\n令甲 = 1\n令乙 = 2\n",
		"/* 注\n释 */\n令甲 = 1\n（显示：甲）\n",
		"令甲 = 1\r\n令乙 = 2\r\n如果甲 == 1：\r\n\t（显示：乙）\r\n",
		"令宽字符变量甲乙丙 = 1\n令乙 = 宽字符变量甲乙丙 + 1\n如果乙 > 0：\n\t令丙 = 乙 + 宽字符变量甲乙丙\n输出乙\n",
	)
	for i := 0; i < c.Pick(1500, 60000); i++ {
		rs := []rune(seeds[rng.Intn(len(seeds))])
		// candidate offsets: positions right before an identifier/number that starts a token after a blank or '='… keep it simple: after "= " or "：" + newline+indent
		cands := []int{}
		for k := 1; k < len(rs)-1; k++ {
			if k >= 2 && rs[k-1] == ' ' && rs[k-2] == '=' && rs[k] != ' ' {
				cands = append(cands, k)
			}
		}
		if len(cands) == 0 {
			continue
		}
		off := cands[rng.Intn(len(cands))]
		// the offset must not be inside a string literal or comment: check quote balance before it on the line
		lineStart := off
		for lineStart > 0 && rs[lineStart-1] != '\n' && rs[lineStart-1] != '\r' {
			lineStart--
		}
		seg := string(rs[lineStart:off])
		if strings.ContainsAny(seg, "“”「」`/注") {
			continue
		}
		bad := []rune{'~', '\\', '"', '^'}[rng.Intn(3)]
		kind := "unknown-char"
		ins := []rune{bad}
		if rng.Intn(3) == 0 {
			kind = "stray-bracket"
			ins = []rune{'】'}
		}
		src := append(append(append([]rune{}, rs[:off]...), ins...), rs[off:]...)
		cases = append(cases, scase{src, off, kind})
	}
	// the column marker after characters of every width class, the first and last code point of
	// each class among them: a stray closing bracket follows a text whose characters are drawn
	// from printable ASCII (one column) and the wide / full-width classes (two columns)
	{
		borders := []rune{0x20, 0x21, 0x41, 0x7A, 0x7B, 0x7C, 0x7D, 0x7E, 0x3000, 0x3001, 0x303E, 0x3041, 0x3096, 0x30A0, 0x30FF, 0x3400, 0x4DB5, 0x4E00, 0x9FA5, 0x9FFF, 0xAC00, 0xD7A3, 0xFF01, 0xFF5E, 0xFF5F, 0xFF60, 0xFFE0, 0xFFE6}
		pools := [][2]rune{{0x20, 0x7E}, {0x4E00, 0x9FFF}, {0x3041, 0x30FF}, {0xFF01, 0xFF60}, {0xAC00, 0xD7A3}, {0x3400, 0x4DB5}, {0x3000, 0x303E}, {0xFFE0, 0xFFE6}}
		mk := func(prefix []rune) {
			for _, ch := range prefix {
				if ch == '`' || ch == '「' || ch == '」' || ch == '『' || ch == '』' || ch == '《' || ch == '》' {
					return
				}
			}
			head := "令甲 = 1\n令丙 = 2\n"
			line := "令乙 = 「" + string(prefix) + "」 + "
			src := []rune(head + line + "）\n令丁 = 3\n")
			cases = append(cases, scase{src, len([]rune(head + line)), "stray-bracket-after-text"})
		}
		for _, b := range borders {
			mk([]rune{b})
			mk([]rune{'a', b, b, '中'})
		}
		for i := 0; i < c.Pick(600, 20000); i++ {
			n := 1 + rng.Intn(8)
			pre := make([]rune, n)
			for k := range pre {
				pl := pools[rng.Intn(len(pools))]
				pre[k] = pl[0] + rune(rng.Intn(int(pl[1]-pl[0])+1))
			}
			mk(pre)
		}
	}
	reqs := make([]Req, len(cases))
	for i, cs := range cases {
		reqs[i] = parseReq(cs.src)
	}
	c.runBatches(reqs, 300, func(i int, req *Req, resp *Resp) {
		c.Eval()
		cs := cases[i]
		src := string(cs.src)
		rp := map[string]interface{}{"req": req}
		key := "syntax:" + cs.kind + ":" + src
		if resp.Kind != "error" || resp.Err == nil || resp.Err.Class != "syntax" {
			// a multi-line literal opened earlier may swallow the planted character: only then may it parse
			c.Count("syntax_not_rejected", 1)
			return
		}
		// the generator guarantees that everything before the offset is valid, so the error
		// must be reported on the line of the planted character (an error reported earlier
		// would mean the valid prefix was rejected)
		phys := splitPhysicalLines(cs.src)
		wantLine := 1
		for k := 0; k < cs.off; k++ {
			if cs.src[k] == '\n' || cs.src[k] == '\r' {
				if k+1 < len(cs.src) && ((cs.src[k] == '\r' && cs.src[k+1] == '\n') || (cs.src[k] == '\n' && cs.src[k+1] == '\r')) {
					k++
				}
				wantLine++
			}
		}
		frames, caret, _, ok := parseErrorText(resp.Err.Text)
		if !ok || len(frames) != 1 {
			c.Violation(key, fmt.Sprintf("syntax fault (%s at offset %d): error text has %d location entries:\n%s", cs.kind, cs.off, len(frames), resp.Err.Text), rp)
			return
		}
		c.Nontrivial(fmt.Sprintf("syntax|%s|%d|%d", cs.kind, wantLine, caret))
		f := frames[0]
		if f.line != wantLine {
			c.Violation(key, fmt.Sprintf("syntax fault (%s) planted on line %d is reported on line %d\nerror text:\n%s\nsource:\n%s", cs.kind, wantLine, f.line, resp.Err.Text, clip(src, 600)), rp)
			return
		}
		if trimIndent(f.text) != trimIndent(phys[wantLine-1]) {
			c.Violation(key, fmt.Sprintf("syntax fault on line %d: quoted %q, the line is %q", wantLine, f.text, phys[wantLine-1]), rp)
			return
		}
		// caret column
		lineStart := cs.off
		for lineStart > 0 && cs.src[lineStart-1] != '\n' && cs.src[lineStart-1] != '\r' {
			lineStart--
		}
		before := string(cs.src[lineStart:cs.off])
		quotedIndent := len(f.text) - len(strings.TrimLeft(f.text, " \t"))
		_ = quotedIndent
		if strings.HasPrefix(f.text, before) || strings.HasPrefix(f.text, trimIndent(before)) {
			b := before
			if !strings.HasPrefix(f.text, before) {
				b = trimIndent(before)
			}
			if w, ok := displayWidth(b); ok {
				c.Count("caret_columns_judged", 1)
				if caret != w {
					c.Violation(key, fmt.Sprintf("syntax fault (%s): caret at column %d, the offending character follows %q (display width %d)\nerror text:\n%s", cs.kind, caret, b, w, resp.Err.Text), rp)
				}
			}
		}
	})
}
