// zncheck: the judge. It never imports /repo; it builds the worker from /repo's current
// working tree (hooks on), generates workloads, observes the worker and decides.
package main

import (
	"crypto/sha1"
	"encoding/hex"
	"encoding/json"
	"fmt"
	"hash/fnv"
	"math/rand"
	"os"
	"os/exec"
	"path/filepath"
	"runtime"
	"sort"
	"strconv"
	"strings"
	"sync"
	"time"

	"verif/internal/pool"
	. "verif/internal/proto"
)

type Finding struct {
	Status   string `json:"status"` // known | fixed
	Property string `json:"property"`
	Key      string `json:"key"`
	What     string `json:"what"`
	Commit   string `json:"commit,omitempty"`
}

type Violation struct {
	Key    string      `json:"key"`
	What   string      `json:"what"`
	Replay interface{} `json:"replay"`
}

type Ctx struct {
	ID      string
	Tier    string
	Seed    int64
	Root    string // /verif
	Scratch string
	Pool    *pool.Pool
	Level   string

	mu           sync.Mutex
	counters     map[string]int64
	distinct     map[string]map[uint64]struct{}
	samples      []interface{}
	sampleCap    int
	violations   []Violation
	vioKeys      map[string]bool
	knownHit     map[string]bool
	findings     []Finding
	notes        []string
	rule         string
	assumptions  []string
	exhaustive   bool
	inconclusive []string
	extra        map[string]interface{}
	start        time.Time
}

func (c *Ctx) Quick() bool { return c.Tier == "quick" }

// Pick returns q for the quick tier and t for thorough.
func (c *Ctx) Pick(q, t int) int {
	if c.Quick() {
		return q
	}
	return t
}

func (c *Ctx) Rand(stream string) *rand.Rand {
	h := fnv.New64a()
	fmt.Fprintf(h, "%d|%s|%s|%s", c.Seed, c.ID, c.Tier, stream)
	return rand.New(rand.NewSource(int64(h.Sum64())))
}

func (c *Ctx) Count(name string, n int64) {
	c.mu.Lock()
	c.counters[name] += n
	c.mu.Unlock()
}

func (c *Ctx) Get(name string) int64 {
	c.mu.Lock()
	defer c.mu.Unlock()
	return c.counters[name]
}

// Distinct records a structural key in the named set; the size of the set "nontrivial"
// is what the evidence reports as distinct_nontrivial.
func (c *Ctx) Distinct(set, key string) {
	h := fnv.New64a()
	h.Write([]byte(key))
	c.mu.Lock()
	m := c.distinct[set]
	if m == nil {
		m = map[uint64]struct{}{}
		c.distinct[set] = m
	}
	m[h.Sum64()] = struct{}{}
	c.mu.Unlock()
}

func (c *Ctx) Eval() { c.Count("evaluations", 1) }

func (c *Ctx) Nontrivial(key string) { c.Distinct("nontrivial", key) }

func (c *Ctx) Sample(s interface{}) {
	c.mu.Lock()
	if len(c.samples) < c.sampleCap {
		c.samples = append(c.samples, s)
	}
	c.mu.Unlock()
}

func (c *Ctx) Note(s string) {
	c.mu.Lock()
	c.notes = append(c.notes, s)
	c.mu.Unlock()
}

func (c *Ctx) Extra(k string, v interface{}) {
	c.mu.Lock()
	c.extra[k] = v
	c.mu.Unlock()
}

func (c *Ctx) Inconclusive(why string) {
	c.mu.Lock()
	c.inconclusive = append(c.inconclusive, why)
	c.mu.Unlock()
}

// Violation reports a refuting observation. key identifies the specific failing input
// (used for matching against known_findings.json); at most a few are kept per key class.
func (c *Ctx) Violation(key, what string, replay interface{}) {
	c.mu.Lock()
	defer c.mu.Unlock()
	for _, f := range c.findings {
		if f.Property == c.ID && f.Status == "known" && f.Key == key {
			c.knownHit[key] = true
			return
		}
	}
	if c.vioKeys[key] {
		return
	}
	c.vioKeys[key] = true
	cls := key
	if parts := strings.SplitN(key, ":", 3); len(parts) == 3 {
		cls = parts[0] + ":" + parts[1]
	}
	c.counters["violations_class_"+cls]++
	if c.counters["violations_class_"+cls] <= 3 && len(c.violations) < 60 {
		c.violations = append(c.violations, Violation{Key: key, What: what, Replay: replay})
	} else {
		c.counters["violations_not_listed"]++
	}
}

func (c *Ctx) NumViolations() int {
	c.mu.Lock()
	defer c.mu.Unlock()
	return len(c.violations)
}

// KnownOpen reports whether a known (unfixed) finding with this key is listed.
func (c *Ctx) KnownOpen(key string) bool {
	for _, f := range c.findings {
		if f.Property == c.ID && f.Status == "known" && f.Key == key {
			return true
		}
	}
	return false
}

var checks = map[string]struct {
	level string
	fn    func(c *Ctx)
}{}

func register(id, level string, fn func(c *Ctx)) {
	checks[id] = struct {
		level string
		fn    func(c *Ctx)
	}{level, fn}
}

func goEnv() []string {
	env := os.Environ()
	env = append(env, "GOFLAGS=-mod=mod", "GOPROXY=off", "GOSUMDB=off", "GOTOOLCHAIN=local", "CGO_ENABLED=1")
	return env
}

// repoRoot is the tree under verification: /repo, unless VERIF_REPO names another checkout
// (used to try candidate changes in a scratch worktree without touching /repo; the registered
// commands never set it).
func repoRoot() string {
	if r := os.Getenv("VERIF_REPO"); r != "" {
		return r
	}
	return "/repo"
}

// modArgs returns the -modfile arguments needed to build against repoRoot().
func modArgs(root, scratch string) []string {
	if data, err := os.ReadFile(filepath.Join(repoRoot(), "go.sum")); err == nil {
		old, _ := os.ReadFile(filepath.Join(root, "go.sum"))
		if string(old) != string(data) && repoRoot() == "/repo" {
			os.WriteFile(filepath.Join(root, "go.sum"), data, 0o644)
		}
	}
	if repoRoot() == "/repo" {
		return nil
	}
	mod, err := os.ReadFile(filepath.Join(root, "go.mod"))
	if err != nil {
		return nil
	}
	alt := strings.Replace(string(mod), "=> /repo", "=> "+repoRoot(), 1)
	os.WriteFile(filepath.Join(scratch, "alt.mod"), []byte(alt), 0o644)
	if sum, err := os.ReadFile(filepath.Join(repoRoot(), "go.sum")); err == nil {
		os.WriteFile(filepath.Join(scratch, "alt.sum"), sum, 0o644)
	}
	return []string{"-modfile=" + filepath.Join(scratch, "alt.mod")}
}

func buildWorker(root, scratch string, extra ...string) (string, error) {
	bin := filepath.Join(scratch, "znworker")
	args := []string{"build", "-tags", "verif"}
	args = append(args, modArgs(root, scratch)...)
	args = append(args, extra...)
	args = append(args, "-o", bin, "./worker")
	cmd := exec.Command("go", args...)
	cmd.Dir = root
	cmd.Env = goEnv()
	out, err := cmd.CombinedOutput()
	if err != nil {
		return "", fmt.Errorf("worker build failed: %v\n%s", err, out)
	}
	return bin, nil
}

func main() {
	if len(os.Args) < 3 {
		fmt.Fprintln(os.Stderr, "usage: zncheck <ID> <quick|thorough> | zncheck <ID> --replay <file>")
		os.Exit(2)
	}
	id := os.Args[1]
	tier := os.Args[2]
	replayFile := ""
	if tier == "--replay" {
		if len(os.Args) < 4 {
			fmt.Fprintln(os.Stderr, "missing replay file")
			os.Exit(2)
		}
		replayFile = os.Args[3]
		tier = "quick"
	}
	// the explicit argument wins; VERIF_TIER only fills in when the argument is not a tier
	if tier != "quick" && tier != "thorough" {
		if t := os.Getenv("VERIF_TIER"); t == "quick" || t == "thorough" {
			tier = t
		} else {
			tier = "quick"
		}
	}
	chk, ok := checks[id]
	if !ok {
		fmt.Fprintln(os.Stderr, "unknown property", id)
		os.Exit(2)
	}
	seed := int64(1)
	if s := os.Getenv("VERIF_SEED"); s != "" {
		if v, err := strconv.ParseInt(s, 10, 64); err == nil {
			seed = v
		}
	}
	root, _ := os.Getwd()
	scratch := filepath.Join(root, "scratch", fmt.Sprintf("%s-%s-%d", id, tier, os.Getpid()))
	os.MkdirAll(scratch, 0o755)
	defer os.RemoveAll(scratch)

	c := &Ctx{ID: id, Tier: tier, Seed: seed, Root: root, Scratch: scratch, Level: chk.level,
		counters: map[string]int64{}, distinct: map[string]map[uint64]struct{}{}, sampleCap: 12,
		vioKeys: map[string]bool{}, knownHit: map[string]bool{}, extra: map[string]interface{}{}, start: time.Now()}
	if data, err := os.ReadFile(filepath.Join(root, "known_findings.json")); err == nil {
		if err := json.Unmarshal(data, &c.findings); err != nil {
			fmt.Fprintln(os.Stderr, "known_findings.json:", err)
			os.Exit(2)
		}
	}

	bin, err := buildWorker(root, scratch)
	if err != nil {
		fmt.Fprintln(os.Stderr, "INCONCLUSIVE:", err)
		os.RemoveAll(scratch)
		os.Exit(2)
	}
	n := runtime.NumCPU()
	if v := os.Getenv("VERIF_WORKERS"); v != "" {
		if k, err := strconv.Atoi(v); err == nil && k > 0 {
			n = k
		}
	}
	c.Pool = pool.New(bin, scratch, n)

	if replayFile != "" {
		code := doReplay(c, replayFile)
		c.Pool.Close()
		os.RemoveAll(scratch)
		os.Exit(code)
	}

	chk.fn(c)
	c.Pool.Close()
	code := c.finish()
	os.RemoveAll(scratch)
	os.Exit(code)
}

func (c *Ctx) finish() int {
	wall := time.Since(c.start).Seconds()
	cov := map[string]interface{}{}
	for k, v := range c.counters {
		cov[k] = v
	}
	for k, m := range c.distinct {
		cov["distinct_"+k] = len(m)
	}
	cov["evaluations"] = c.counters["evaluations"]
	cov["distinct_nontrivial"] = len(c.distinct["nontrivial"])
	delete(cov, "distinct_distinct_nontrivial")
	cov["rule"] = c.rule
	if len(c.samples) == 0 {
		c.samples = []interface{}{}
	}
	cov["samples"] = c.samples
	if c.exhaustive {
		cov["exhaustive"] = true
	}
	cov["worker_requests"] = c.Pool.Requests
	cov["worker_deaths"] = c.Pool.Deaths
	cov["worker_timeouts"] = c.Pool.Timeouts
	cov["worker_peak_resident_set_mib"] = c.Pool.PeakRSSMB
	cov["worker_watchdog_cases_completed_on_retry"] = c.Pool.SlowRetries
	if len(c.notes) > 0 {
		cov["notes"] = c.notes
	}
	for k, v := range c.extra {
		cov[k] = v
	}
	known := []string{}
	for k := range c.knownHit {
		known = append(known, k)
	}
	sort.Strings(known)
	cov["known_findings_reproduced"] = known
	if len(c.inconclusive) > 0 {
		cov["inconclusive"] = c.inconclusive
	}
	ev := map[string]interface{}{
		"property_id": c.ID,
		"tier":        c.Tier,
		"seed":        c.Seed,
		"level":       c.Level,
		"coverage":    cov,
		"assumptions": c.assumptions,
		"wall_s":      float64(int(wall*100)) / 100,
		"violations":  len(c.violations),
	}
	// runs against another checkout (VERIF_REPO: seeded changes) keep their evidence and
	// replays apart from those of the registered commands
	evDir, rpDir := filepath.Join(c.Root, "evidence"), filepath.Join(c.Root, "replays")
	if os.Getenv("VERIF_REPO") != "" {
		evDir, rpDir = filepath.Join(c.Root, "scratch", "other-repo", "evidence"), filepath.Join(c.Root, "scratch", "other-repo", "replays")
	}
	os.MkdirAll(evDir, 0o755)
	data, _ := json.MarshalIndent(ev, "", " ")
	os.WriteFile(filepath.Join(evDir, c.ID+".json"), data, 0o644)

	for _, f := range c.findings {
		if f.Property == c.ID && f.Status == "known" {
			if c.knownHit[f.Key] {
				fmt.Printf("KNOWN-FINDING: property=%s %s [%s]\n", c.ID, f.What, f.Key)
			} else {
				fmt.Printf("note: listed finding not reproduced in this run: property=%s [%s]\n", c.ID, f.Key)
			}
		}
	}
	fmt.Printf("%s %s seed=%d: evaluations=%d distinct_nontrivial=%d violations=%d wall=%.1fs\n",
		c.ID, c.Tier, c.Seed, c.counters["evaluations"], len(c.distinct["nontrivial"]), len(c.violations), wall)
	if len(c.violations) > 0 {
		dir := filepath.Join(rpDir, c.ID)
		os.MkdirAll(dir, 0o755)
		for _, v := range c.violations {
			h := sha1.Sum([]byte(v.Key))
			path := filepath.Join(dir, hex.EncodeToString(h[:6])+".json")
			rd, _ := json.MarshalIndent(map[string]interface{}{"property": c.ID, "key": v.Key, "what": v.What, "seed": c.Seed, "tier": c.Tier, "replay": v.Replay}, "", " ")
			os.WriteFile(path, rd, 0o644)
			what := v.What
			if len(what) > 600 {
				what = what[:600] + "…"
			}
			fmt.Printf("VIOLATION property=%s replay=%s\n  %s\n", c.ID, path, strings.ReplaceAll(what, "\n", "\n  "))
		}
		return 1
	}
	if len(c.inconclusive) > 0 {
		for _, w := range c.inconclusive {
			fmt.Println("INCONCLUSIVE:", w)
		}
		return 2
	}
	return 0
}

// doReplay re-runs the worker request(s) stored in a replay file and prints the outcome.
func doReplay(c *Ctx, file string) int {
	data, err := os.ReadFile(file)
	if err != nil {
		fmt.Fprintln(os.Stderr, err)
		return 2
	}
	var doc struct {
		Key    string          `json:"key"`
		What   string          `json:"what"`
		Replay json.RawMessage `json:"replay"`
	}
	if err := json.Unmarshal(data, &doc); err != nil {
		fmt.Fprintln(os.Stderr, err)
		return 2
	}
	fmt.Println("key:", doc.Key)
	fmt.Println("recorded:", doc.What)
	var rp struct {
		Req      *Req   `json:"req"`
		Reqs     []Req  `json:"reqs"`
		Expected string `json:"expected"`
	}
	json.Unmarshal(doc.Replay, &rp)
	reqs := rp.Reqs
	if rp.Req != nil {
		reqs = append(reqs, *rp.Req)
	}
	if len(reqs) == 0 {
		fmt.Println("replay file carries no worker request; see its 'replay' field for the scenario")
		return 0
	}
	for _, r := range reqs {
		resp := c.Pool.Do(r)
		out, _ := json.MarshalIndent(resp, "", " ")
		if len(r.Src) > 0 {
			fmt.Println("source:\n" + RunesToString(r.Src))
		}
		fmt.Println("observed now:", string(out))
	}
	if rp.Expected != "" {
		fmt.Println("expected:", rp.Expected)
	}
	return 0
}

// ---------------------------------------------------------------- helpers shared by checks

func execReq(src string) Req {
	return Req{Op: "exec", Src: Runes(src), EvalBudget: 200000, ParseBudget: 64*(len(src)+16) + 2000}
}

func clip(s string, n int) string {
	if len(s) > n {
		return s[:n] + "…"
	}
	return s
}

// runBatches runs reqs through the pool in chunks, calling handle for each (req, resp) pair.
func (c *Ctx) runBatches(reqs []Req, chunk int, handle func(i int, req *Req, resp *Resp)) {
	nChunks := (len(reqs) + chunk - 1) / chunk
	c.Pool.Map(nChunks, func(ci int) {
		lo := ci * chunk
		hi := lo + chunk
		if hi > len(reqs) {
			hi = len(reqs)
		}
		// a tree that already produced a hundred distinct violations of this property is decided:
		// the remaining cases are not run (a broken tree can make every one of them slow)
		c.mu.Lock()
		enough := len(c.vioKeys) >= 100
		if enough {
			c.counters["cases_not_run_after_100_violations"] += int64(hi - lo)
		}
		c.mu.Unlock()
		if enough {
			return
		}
		sub := make([]Req, hi-lo)
		copy(sub, reqs[lo:hi])
		resps := c.Pool.Batch(sub)
		for j := range resps {
			handle(lo+j, &reqs[lo+j], &resps[j])
		}
	})
}
