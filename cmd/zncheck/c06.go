package main

import (
	"fmt"
	"strings"
	"sort"

	. "verif/internal/proto"
	zr "verif/internal/znref"
)

func init() { register("C06", "exploration", checkC06) }

// ---------------------------------------------------------------- scope API model

type scopeModelEntry struct {
	v     int
	konst bool
}

// runScopeModel interprets ops on a stack of maps; returns the expected result per op.
func runScopeModel(ops []ScopeOp) []int {
	stack := []map[string]*scopeModelEntry{{}}
	out := make([]int, len(ops))
	find := func(n string) *scopeModelEntry {
		for i := len(stack) - 1; i >= 0; i-- {
			if e, ok := stack[i][n]; ok {
				return e
			}
		}
		return nil
	}
	for i, op := range ops {
		switch op.Op {
		case "begin":
			stack = append(stack, map[string]*scopeModelEntry{})
		case "end":
			stack = stack[:len(stack)-1]
		case "decl", "const":
			top := stack[len(stack)-1]
			if _, ok := top[op.Name]; ok {
				out[i] = 43
			} else {
				top[op.Name] = &scopeModelEntry{op.V, op.Op == "const"}
			}
		case "set":
			e := find(op.Name)
			switch {
			case e == nil:
				out[i] = 42
			case e.konst:
				out[i] = 44
			default:
				e.v = op.V
			}
		case "get":
			e := find(op.Name)
			if e == nil {
				out[i] = -1
			} else {
				out[i] = e.v
			}
		}
	}
	return out
}

func checkScopeAPI(c *Ctx) {
	alphabet := []ScopeOp{{Op: "begin"}, {Op: "end"}, {Op: "decl", Name: "a"}, {Op: "decl", Name: "b"}, {Op: "const", Name: "a"}, {Op: "const", Name: "c"},
		{Op: "set", Name: "a"}, {Op: "set", Name: "b"}, {Op: "set", Name: "c"}, {Op: "get", Name: "a"}, {Op: "get", Name: "b"}, {Op: "get", Name: "c"}}
	maxLen := c.Pick(4, 5)
	var seqs [][]ScopeOp
	var rec func(cur []ScopeOp, depth int)
	val := 0
	rec = func(cur []ScopeOp, depth int) {
		if len(cur) > 0 {
			seqs = append(seqs, append([]ScopeOp{}, cur...))
		}
		if len(cur) == maxLen {
			return
		}
		for _, a := range alphabet {
			nd := depth
			if a.Op == "begin" {
				nd++
			}
			if a.Op == "end" {
				if depth == 0 {
					continue
				}
				nd--
			}
			val++
			a.V = val%97 + 1
			rec(append(cur, a), nd)
		}
	}
	rec(nil, 0)
	// random long histories
	rng := c.Rand("scope")
	for i := 0; i < c.Pick(3000, 50000); i++ {
		n := 10 + rng.Intn(190)
		seq := []ScopeOp{}
		depth := 0
		names := []string{"a", "b", "c", "d", "e"}
		for j := 0; j < n; j++ {
			var op ScopeOp
			switch rng.Intn(10) {
			case 0, 1:
				op = ScopeOp{Op: "begin"}
				depth++
			case 2, 3:
				if depth == 0 {
					continue
				}
				op = ScopeOp{Op: "end"}
				depth--
			case 4, 5:
				op = ScopeOp{Op: "decl", Name: names[rng.Intn(5)], V: 1 + rng.Intn(900)}
			case 6:
				op = ScopeOp{Op: "const", Name: names[rng.Intn(5)], V: 1 + rng.Intn(900)}
			case 7:
				op = ScopeOp{Op: "set", Name: names[rng.Intn(5)], V: 1 + rng.Intn(900)}
			default:
				op = ScopeOp{Op: "get", Name: names[rng.Intn(5)]}
			}
			seq = append(seq, op)
		}
		seqs = append(seqs, seq)
	}
	c.Count("scope_api_histories", int64(len(seqs)))
	reqs := make([]Req, len(seqs))
	for i, s := range seqs {
		reqs[i] = Req{Op: "scope", ScopeOps: s}
	}
	c.runBatches(reqs, 2000, func(i int, req *Req, resp *Resp) {
		c.Eval()
		want := runScopeModel(seqs[i])
		key := ""
		for _, op := range seqs[i] {
			key += op.Op[:1] + op.Name
		}
		if len(seqs[i]) <= 5 {
			c.Nontrivial("scopeapi|" + key)
		} else {
			c.Nontrivial(fmt.Sprintf("scopeapi-long|%d|%s", len(seqs[i]), clip(key, 20)))
		}
		if resp.Kind != "ok" || len(resp.Ints) != len(want) {
			c.Violation("scopeapi:"+resp.Kind+":"+key, fmt.Sprintf("scope history %s: outcome %s %s", key, resp.Kind, clip(resp.Panic, 200)), map[string]interface{}{"req": req})
			return
		}
		for j := range want {
			if want[j] != resp.Ints[j] {
				c.Violation("scopeapi:mismatch:"+key, fmt.Sprintf("scope history %v: step %d (%s %s) gave %d, model says %d (codes: 42 undefined, 43 redeclared, 44 constant; get: value or -1)", seqs[i], j, seqs[i][j].Op, seqs[i][j].Name, resp.Ints[j], want[j]), map[string]interface{}{"req": req})
				return
			}
		}
	})
}

// ---------------------------------------------------------------- program-level probes

func c06Fixed() ([]*zr.Program, []map[string]Val, []string) {
	progs := []*zr.Program{}
	ins := []map[string]Val{}
	shapes := []string{}
	add := func(shape string, in map[string]Val, inputs []string, body ...zr.Stmt) {
		progs = append(progs, &zr.Program{Inputs: inputs, Body: body})
		ins = append(ins, in)
		shapes = append(shapes, shape)
	}
	show := func(tag string, names ...string) zr.Stmt {
		args := []zr.Expr{zr.S(tag)}
		for _, n := range names {
			args = append(args, zr.N(n))
		}
		return zr.Show(args...)
	}
	lit := intLit
	// containers that open a block
	type blockMaker func(body []zr.Stmt) []zr.Stmt
	blocks := map[string]blockMaker{
		"if": func(b []zr.Stmt) []zr.Stmt { return []zr.Stmt{zr.If{Cond: zr.N("真"), Then: b}} },
		"else": func(b []zr.Stmt) []zr.Stmt {
			return []zr.Stmt{zr.If{Cond: zr.N("假"), Then: []zr.Stmt{show("x")}, HasElse: true, Else: b}}
		},
		"elif": func(b []zr.Stmt) []zr.Stmt {
			return []zr.Stmt{zr.If{Cond: zr.N("假"), Then: []zr.Stmt{show("x")}, Elifs: []zr.Elif{{Cond: zr.N("真"), Body: b}}}}
		},
		"while": func(b []zr.Stmt) []zr.Stmt {
			return []zr.Stmt{zr.LetS("计", lit(0)), zr.While{Cond: zr.Bin{Op: "<", L: zr.N("计"), R: lit(2)}, Body: append([]zr.Stmt{zr.Set(zr.N("计"), zr.Bin{Op: "+", L: zr.N("计"), R: lit(1)})}, b...)}}
		},
		"iter": func(b []zr.Stmt) []zr.Stmt {
			return []zr.Stmt{zr.Iter{Names: []string{"序", "项"}, Over: zr.ListLit{Items: []zr.Expr{lit(7), lit(8)}}, Body: b}}
		},
	}
	for bn, mk := range blocks {
		// a. declared inside, visible inside, undefined after
		add("after-block/"+bn, nil, nil, append(mk([]zr.Stmt{zr.LetS("内", lit(1)), show("in", "内")}), show("after", "内"), show("not-reached"))...)
		// f. use before declaration inside the block
		add("use-before-decl/"+bn, nil, nil, mk([]zr.Stmt{show("early", "后"), zr.LetS("后", lit(1))})...)
		// g. shadowing: inner declaration hides the outer one until the block ends
		add("shadow/"+bn, nil, nil, append(append([]zr.Stmt{zr.LetS("名", lit(1))}, mk([]zr.Stmt{show("before-shadow", "名"), zr.LetS("名", lit(2)), show("shadowed", "名"), zr.Set(zr.N("名"), lit(3)), show("inner-assigned", "名")})...), show("after", "名"), zr.Return{E: zr.N("名")})...)
		// assignment without shadowing reaches the outer variable
		add("assign-outer/"+bn, nil, nil, append(append([]zr.Stmt{zr.LetS("名", lit(1))}, mk([]zr.Stmt{zr.Set(zr.N("名"), zr.Bin{Op: "+", L: zr.N("名"), R: lit(10)}), show("in", "名")})...), show("after", "名"))...)
		// h. redeclaration in the same (inner) block
		add("redeclare/"+bn, nil, nil, append(mk([]zr.Stmt{zr.LetS("双", lit(1)), show("once", "双"), zr.LetS("双", lit(2)), show("not-reached")}), show("not-reached-2"))...)
		add("redeclare-const/"+bn, nil, nil, append(mk([]zr.Stmt{zr.ConstS("双", lit(1)), zr.ConstS("双", lit(2)), show("not-reached")}), show("not-reached-2"))...)
		// constant declared inside cannot be assigned inside
		add("const-assign/"+bn, nil, nil, mk([]zr.Stmt{zr.ConstS("定", lit(1)), zr.Set(zr.N("定"), lit(2)), show("not-reached", "定")})...)
	}
	// loop variables gone after the loop
	add("after-loop/loopvar", nil, nil, zr.Iter{Names: []string{"序", "项"}, Over: zr.ListLit{Items: []zr.Expr{lit(7)}}, Body: []zr.Stmt{show("in", "序", "项")}}, show("after", "项"))
	add("after-loop/loopkey", nil, nil, zr.Iter{Names: []string{"序", "项"}, Over: zr.ListLit{Items: []zr.Expr{lit(7)}}, Body: []zr.Stmt{show("in", "序", "项")}}, show("after", "序"))
	// top-level
	add("redeclare/top", nil, nil, zr.LetS("甲", lit(1)), zr.LetS("甲", lit(2)), show("not-reached"))
	add("redeclare/top-multi", nil, nil, zr.Let{Pairs: []zr.LetPair{{Names: []string{"甲", "甲"}, Val: lit(1)}}}, show("not-reached"))
	add("use-before-decl/top", nil, nil, show("early", "甲"), zr.LetS("甲", lit(1)))
	add("assign-undeclared/top", nil, nil, zr.Set(zr.N("甲"), lit(1)), show("not-reached"))
	add("const-assign/top", nil, nil, zr.ConstS("甲", lit(1)), show("ok", "甲"), zr.Set(zr.N("甲"), lit(2)), show("not-reached"))
	add("const-assign/block-form", nil, nil, zr.Let{Block: true, Pairs: []zr.LetPair{{Names: []string{"甲"}, Val: lit(1), Const: true}, {Names: []string{"乙", "丙"}, Val: lit(2)}}}, zr.Set(zr.N("乙"), lit(5)), show("ok", "甲", "乙", "丙"), zr.Set(zr.N("甲"), lit(2)), show("not-reached"))
	add("const-assign/input", map[string]Val{"入值": Num(4)}, []string{"入值"}, show("ok", "入值"), zr.Set(zr.N("入值"), lit(2)), show("not-reached"))
	add("const-assign/inner-block-of-outer-const", nil, nil, zr.ConstS("甲", lit(1)), zr.If{Cond: zr.N("真"), Then: []zr.Stmt{zr.Set(zr.N("甲"), lit(2)), show("not-reached")}})
	// methods: locals, params, yield names
	fn := &zr.FuncDef{Name: "方法", Params: []string{"参"}, Body: []zr.Stmt{zr.LetS("局", zr.Bin{Op: "+", L: zr.N("参"), R: lit(1)}), show("in-method", "参", "局"), zr.Return{E: zr.N("局")}}}
	call := func(yield string) zr.Stmt {
		cl := zr.CallE("方法", lit(5))
		cl.Yield = yield
		return zr.ExprStmt{E: cl}
	}
	add("after-call/local", nil, nil, fn, call(""), show("after", "局"))
	add("after-call/param", nil, nil, fn, call(""), show("after", "参"))
	add("const-assign/param", nil, nil, &zr.FuncDef{Name: "方法", Params: []string{"参"}, Body: []zr.Stmt{show("in", "参"), zr.Set(zr.N("参"), lit(9)), show("not-reached")}}, call(""), show("not-reached-2"))
	add("const-assign/yield-call", nil, nil, fn, call("果"), show("ok", "果"), zr.Set(zr.N("果"), lit(0)), show("not-reached"))
	add("const-assign/yield-mcall", nil, nil, zr.ExprStmt{E: zr.MCall{Recv: zr.S("ab"), Chain: []zr.CallPart{{Fn: "拼接", Args: []zr.Expr{zr.S("c")}}}, Yield: "果"}}, show("ok", "果"), zr.Set(zr.N("果"), zr.S("x")), show("not-reached"))
	add("redeclare/yield-twice", nil, nil, fn, call("果"), call("果"), show("not-reached"))
	add("redeclare/yield-over-var", nil, nil, fn, zr.LetS("果", lit(1)), call("果"), show("not-reached"))
	add("const-assign/method-name", nil, nil, fn, zr.Set(zr.N("方法"), lit(1)), show("not-reached"))
	add("const-assign/type-name", nil, nil, zr.ClassDef{Name: "型", Props: []zr.PropDef{{Name: "甲", Val: lit(1)}}}, zr.Set(zr.N("型"), lit(1)), show("not-reached"))
	add("redeclare/method-twice", nil, nil, fn, &zr.FuncDef{Name: "方法", Body: []zr.Stmt{zr.Return{E: lit(1)}}}, show("not-reached"))
	// rejected assignment leaves the old value intact (observed through the parameter in the handler)
	add("intact/param", nil, nil, &zr.FuncDef{Name: "方法", Params: []string{"参", "列参"}, Body: []zr.Stmt{zr.Set(zr.N("参"), lit(9)), show("not-reached")},
		Catches: []zr.Catch{{Class: "异常", Body: []zr.Stmt{show("intact", "参", "列参"), zr.Return{E: zr.N("参")}}}}},
		zr.Show(zr.S("r"), zr.CallE("方法", lit(5), zr.ListLit{Items: []zr.Expr{lit(1), lit(2)}})))
	add("intact/list-param", nil, nil, &zr.FuncDef{Name: "方法", Params: []string{"参", "列参"}, Body: []zr.Stmt{zr.Set(zr.N("列参"), zr.ListLit{Items: []zr.Expr{lit(9)}}), show("not-reached")},
		Catches: []zr.Catch{{Class: "异常", Body: []zr.Stmt{show("intact", "参", "列参"), zr.Return{E: zr.N("列参")}}}}},
		zr.Show(zr.S("r"), zr.CallE("方法", lit(5), zr.ListLit{Items: []zr.Expr{lit(1), lit(2)}})))
	// recursion: each activation has its own locals
	add("recursion/own-locals", nil, nil, &zr.FuncDef{Name: "递", Params: []string{"层"}, Body: []zr.Stmt{
		zr.LetS("局", zr.Bin{Op: "*", L: zr.N("层"), R: lit(10)}),
		zr.If{Cond: zr.Bin{Op: ">", L: zr.N("层"), R: lit(0)}, Then: []zr.Stmt{zr.ExprStmt{E: zr.CallE("递", zr.Bin{Op: "-", L: zr.N("层"), R: lit(1)})}}},
		show("unwind", "层", "局"),
		zr.Return{E: zr.N("局")}}}, zr.Return{E: zr.CallE("递", lit(4))})
	// after a handled exception none of the callee's declarations remain
	add("after-exception/local", nil, nil, &zr.FuncDef{Name: "方法", Params: []string{"参"}, Body: []zr.Stmt{zr.LetS("局", lit(1)), zr.If{Cond: zr.N("真"), Then: []zr.Stmt{zr.LetS("深", lit(2)), zr.Throw{Class: "异常", Args: []zr.Expr{zr.S("e")}}}}},
		Catches: []zr.Catch{{Class: "异常", Body: []zr.Stmt{show("handled"), zr.Return{E: lit(0)}}}}}, call(""), show("after", "深"))
	add("after-exception/local2", nil, nil, &zr.FuncDef{Name: "方法", Params: []string{"参"}, Body: []zr.Stmt{zr.LetS("局", lit(1)), zr.Throw{Class: "异常", Args: []zr.Expr{zr.S("e")}}},
		Catches: []zr.Catch{{Class: "异常", Body: []zr.Stmt{show("handled"), zr.Return{E: lit(0)}}}}}, call(""), show("after", "局"))
	add("after-exception/caller-state", nil, nil, &zr.FuncDef{Name: "方法", Params: []string{"参"}, Body: []zr.Stmt{zr.LetS("局", lit(1)), zr.Throw{Class: "异常", Args: []zr.Expr{zr.S("e")}}},
		Catches: []zr.Catch{{Class: "异常", Body: []zr.Stmt{show("handled"), zr.Return{E: lit(0)}}}}},
		zr.LetS("外", lit(7)), zr.If{Cond: zr.N("真"), Then: []zr.Stmt{zr.LetS("块内", lit(8)), call("果"), show("caller", "外", "块内", "果")}}, show("after", "外"), show("gone", "块内"))
	// the same for every way a body can be left through its handler: an explicit 抛出, runtime
	// faults, a call with the wrong number of arguments (method, object method, constructor),
	// a rejected declaration / assignment - directly, inside an inner block, or one call deeper
	helper := &zr.FuncDef{Name: "助", Params: []string{"子"}, Body: []zr.Stmt{zr.LetS("助局", lit(3)), zr.Return{E: zr.N("子")}}}
	hcls := zr.ClassDef{Name: "助型", Props: []zr.PropDef{{Name: "值", Val: lit(1)}}, Methods: []*zr.FuncDef{{Name: "取", Params: []string{"子"}, Body: []zr.Stmt{zr.Return{E: zr.N("子")}}}}}
	hctor := &zr.FuncDef{Name: "助型", Ctor: true, Params: []string{"初"}, Body: []zr.Stmt{zr.Set(zr.ThisProp{Prop: "值"}, zr.N("初"))}}
	raises := map[string]zr.Stmt{
		"throw":        zr.Throw{Class: "异常", Args: []zr.Expr{zr.S("e")}},
		"div0":         zr.LetS("坏", zr.Bin{Op: "/", L: lit(1), R: lit(0)}),
		"undefined":    zr.Show(zr.N("未名")),
		"index":        zr.Show(zr.Index{Recv: zr.ListLit{Items: []zr.Expr{lit(1)}}, Idx: lit(3)}),
		"arity-more":   zr.ExprStmt{E: zr.CallE("助", lit(1), lit(2), lit(3))},
		"arity-less":   zr.ExprStmt{E: zr.CallE("助")},
		"arity-method": zr.ExprStmt{E: zr.MCall{Recv: zr.New{Class: "助型", Args: []zr.Expr{lit(1)}}, Chain: []zr.CallPart{{Fn: "取", Args: []zr.Expr{lit(1), lit(2)}}}}},
		"arity-ctor":   zr.LetS("物", zr.New{Class: "助型", Args: []zr.Expr{lit(1), lit(2)}}),
		"arity-ctor0":  zr.LetS("物", zr.New{Class: "助型"}),
		"const-assign": zr.Set(zr.N("参"), lit(9)),
		"redeclare":    zr.LetS("局", lit(5)),
		"type":         zr.Show(zr.Bin{Op: "*", L: zr.S("a"), R: lit(2)}),
	}
	rnames := []string{}
	for k := range raises {
		rnames = append(rnames, k)
	}
	sort.Strings(rnames)
	for _, rk := range rnames {
		rs := raises[rk]
		for _, where := range []string{"direct", "in-block", "in-loop", "deeper"} {
			var fbody []zr.Stmt
			switch where {
			case "direct":
				fbody = []zr.Stmt{zr.LetS("局", lit(1)), rs, show("not-reached")}
			case "in-block":
				fbody = []zr.Stmt{zr.LetS("局", lit(1)), zr.If{Cond: zr.N("真"), Then: []zr.Stmt{zr.LetS("深", lit(2)), zr.If{Cond: zr.N("真"), Then: []zr.Stmt{zr.LetS("更深", lit(3)), rs}}}}, show("not-reached")}
			case "in-loop":
				fbody = []zr.Stmt{zr.LetS("局", lit(1)), zr.Iter{Names: []string{"轮"}, Over: zr.ListLit{Items: []zr.Expr{lit(1), lit(2)}}, Body: []zr.Stmt{zr.LetS("深", lit(2)), rs}}, show("not-reached")}
			case "deeper":
				if rk == "const-assign" || rk == "redeclare" {
					continue
				}
				fbody = []zr.Stmt{zr.LetS("局", lit(1)), zr.ExprStmt{E: zr.CallE("中")}, show("not-reached")}
			}
			mid := &zr.FuncDef{Name: "中", Body: []zr.Stmt{zr.LetS("中局", lit(4)), rs, show("not-reached-mid")}}
			f := &zr.FuncDef{Name: "方法", Params: []string{"参"}, Body: fbody, Catches: []zr.Catch{{Class: "异常", Body: []zr.Stmt{show("handled", "参"), zr.Return{E: lit(0)}}}}}
			pre := []zr.Stmt{hcls, hctor, helper, mid, f}
			tag := rk + "/" + where
			for _, gone := range []string{"局", "参", "深", "中局", "子", "助局", "初"} {
				add("after-exception2/"+tag+"/gone-"+gone, nil, nil, append(append([]zr.Stmt{}, pre...), call(""), show("after", gone))...)
			}
			add("after-exception2/"+tag+"/caller-state", nil, nil, append(append([]zr.Stmt{}, pre...),
				zr.LetS("外", lit(7)), zr.If{Cond: zr.N("真"), Then: []zr.Stmt{zr.LetS("块内", lit(8)), call("果"), show("caller", "外", "块内", "果"), zr.LetS("新", lit(9)), show("new", "新")}}, show("after", "外"), show("gone", "块内"))...)
			add("after-exception2/"+tag+"/caller-redeclare", nil, nil, append(append([]zr.Stmt{}, pre...),
				zr.LetS("外", lit(7)), zr.If{Cond: zr.N("真"), Then: []zr.Stmt{zr.LetS("块内", lit(8)), call(""), zr.LetS("块内", lit(9)), show("not-reached", "块内")}}, show("not-reached-2"))...)
			add("after-exception2/"+tag+"/caller-redeclare-top", nil, nil, append(append([]zr.Stmt{}, pre...),
				zr.LetS("外", lit(7)), call(""), zr.LetS("外", lit(9)), show("not-reached", "外"))...)
			add("after-exception2/"+tag+"/block-end-after", nil, nil, append(append([]zr.Stmt{}, pre...),
				zr.If{Cond: zr.N("真"), Then: []zr.Stmt{call(""), zr.LetS("块后", lit(8)), show("in", "块后")}}, show("gone", "块后"))...)
			// in the main program: the handler of the program itself
		}
	}
	// a method defined inside a method body is a declaration of that body like any other: gone
	// when the body returns, so the outer method can be called again and again (and recursively)
	inner := &zr.FuncDef{Name: "内", Params: []string{"数"}, Body: []zr.Stmt{zr.Return{E: zr.Bin{Op: "+", L: zr.N("数"), R: lit(1)}}}}
	outer := &zr.FuncDef{Name: "外", Params: []string{"次"}, Body: []zr.Stmt{inner, show("in-outer", "次"), zr.Return{E: zr.CallE("内", zr.N("次"))}}}
	add("nested-def/twice", nil, nil, outer, zr.Show(zr.S("r1"), zr.CallE("外", lit(1))), zr.Show(zr.S("r2"), zr.CallE("外", lit(2))), zr.Show(zr.S("r3"), zr.CallE("外", lit(3))))
	add("nested-def/gone-after", nil, nil, outer, zr.Show(zr.S("r1"), zr.CallE("外", lit(1))), zr.Show(zr.S("leak?"), zr.CallE("内", lit(5))))
	add("nested-def/gone-before", nil, nil, outer, zr.Show(zr.S("early?"), zr.CallE("内", lit(5))))
	recOuter := &zr.FuncDef{Name: "外", Params: []string{"次"}, Body: []zr.Stmt{inner, show("in-outer", "次"),
		zr.If{Cond: zr.Bin{Op: ">", L: zr.N("次"), R: lit(0)}, Then: []zr.Stmt{zr.Return{E: zr.CallE("外", zr.Bin{Op: "-", L: zr.N("次"), R: lit(1)})}}},
		zr.Return{E: zr.CallE("内", zr.N("次"))}}}
	add("nested-def/recursive", nil, nil, recOuter, zr.Show(zr.S("r"), zr.CallE("外", lit(3))))
	add("nested-def/in-loop", nil, nil, outer, zr.Iter{Names: []string{"轮"}, Over: zr.ListLit{Items: []zr.Expr{lit(1), lit(2), lit(3)}}, Body: []zr.Stmt{zr.Show(zr.S("r"), zr.CallE("外", zr.N("轮")))}})
	add("nested-def/after-exception", nil, nil, &zr.FuncDef{Name: "外", Params: []string{"次"}, Body: []zr.Stmt{inner, zr.Throw{Class: "异常", Args: []zr.Expr{zr.S("e")}}},
		Catches: []zr.Catch{{Class: "异常", Body: []zr.Stmt{zr.Return{E: zr.CallE("内", zr.N("次"))}}}}},
		zr.Show(zr.S("r1"), zr.CallE("外", lit(1))), zr.Show(zr.S("r2"), zr.CallE("外", lit(2))))
	// the statements of a body share its block with the 输入 names and the definitions of that
	// body: 令 of such a name is a second declaration in the same block; in an inner block it shadows
	pf := &zr.FuncDef{Name: "方法", Params: []string{"参"}, Body: []zr.Stmt{zr.LetS("参", lit(5)), show("not-reached", "参"), zr.Return{E: zr.N("参")}}}
	add("redeclare/param-by-let", nil, nil, pf, zr.Show(zr.S("r"), zr.CallE("方法", lit(1))), show("not-reached-2"))
	add("redeclare/param-by-const", nil, nil, &zr.FuncDef{Name: "方法", Params: []string{"参"}, Body: []zr.Stmt{zr.ConstS("参", lit(5)), show("not-reached")}}, zr.ExprStmt{E: zr.CallE("方法", lit(1))}, show("not-reached-2"))
	add("redeclare/param-by-yield", nil, nil, &zr.FuncDef{Name: "助", Body: []zr.Stmt{zr.Return{E: lit(1)}}}, &zr.FuncDef{Name: "方法", Params: []string{"参"}, Body: []zr.Stmt{func() zr.Stmt { e := zr.CallE("助"); e.Yield = "参"; return zr.ExprStmt{E: e} }(), show("not-reached")}}, zr.ExprStmt{E: zr.CallE("方法", lit(1))}, show("not-reached-2"))
	add("shadow/param-in-inner-block", nil, nil, &zr.FuncDef{Name: "方法", Params: []string{"参"}, Body: []zr.Stmt{zr.If{Cond: zr.N("真"), Then: []zr.Stmt{zr.LetS("参", lit(5)), show("inner", "参")}}, show("outer", "参"), zr.Return{E: zr.N("参")}}}, zr.Show(zr.S("r"), zr.CallE("方法", lit(1))))
	add("redeclare/input-by-let", map[string]Val{"入值": Num(4)}, []string{"入值"}, zr.LetS("入值", lit(3)), show("not-reached", "入值"))
	add("redeclare/method-name-by-let", nil, nil, fn, zr.LetS("方法", lit(1)), show("not-reached"))
	add("redeclare/let-then-method-name", nil, nil, zr.LetS("方法", lit(1)), fn, show("not-reached"))
	add("redeclare/type-name-by-let", nil, nil, zr.ClassDef{Name: "型", Props: []zr.PropDef{{Name: "甲", Val: lit(1)}}}, zr.LetS("型", lit(3)), show("not-reached"))
	add("redeclare/nested-method-name-by-let", nil, nil, &zr.FuncDef{Name: "外", Body: []zr.Stmt{&zr.FuncDef{Name: "内", Body: []zr.Stmt{zr.Return{E: lit(1)}}}, zr.LetS("内", lit(2)), show("not-reached")}}, zr.ExprStmt{E: zr.CallE("外")}, show("not-reached-2"))
	// predefined names
	for _, n := range zr.Predefined {
		add("predefined/assign/"+n, nil, nil, zr.Set(zr.N(n), lit(1)), show("not-reached"))
		add("predefined/declare/"+n, nil, nil, zr.LetS(n, lit(1)), show("not-reached"))
		add("predefined/declare-const/"+n, nil, nil, zr.ConstS(n, lit(1)), show("not-reached"))
		add("predefined/declare-in-block/"+n, nil, nil, zr.If{Cond: zr.Bin{Op: "==", L: lit(1), R: lit(1)}, Then: []zr.Stmt{zr.LetS(n, lit(1)), show("not-reached")}})
		add("predefined/as-param/"+n, nil, nil, &zr.FuncDef{Name: "方法", Params: []string{n}, Body: []zr.Stmt{show("not-reached")}}, zr.ExprStmt{E: zr.CallE("方法", lit(1))}, show("not-reached-2"))
		add("predefined/as-loopvar/"+n, nil, nil, zr.Iter{Names: []string{n}, Over: zr.ListLit{Items: []zr.Expr{lit(1)}}, Body: []zr.Stmt{show("not-reached")}})
		fnp := &zr.FuncDef{Name: "方法", Body: []zr.Stmt{zr.Return{E: lit(1)}}}
		cl := zr.CallE("方法")
		cl.Yield = n
		add("predefined/as-yield/"+n, nil, nil, fnp, zr.ExprStmt{E: cl}, show("not-reached"))
	}
	add("predefined/still-work", nil, nil, zr.Show(zr.N("真"), zr.N("假"), zr.N("空")), zr.Return{E: zr.Bin{Op: "且", L: zr.N("真"), R: zr.Bin{Op: "为", L: zr.N("空"), R: zr.N("空")}}})
	return progs, ins, shapes
}

func checkC06(c *Ctx) {
	c.rule = "(1) symbol-table histories: all sequences of begin/end-scope, declare, declare-const, assign, lookup over 3 names up to length 4 (quick) / 5 (thorough) plus random histories up to length 200, against a stack-of-maps model; (2) fixed probe families: for every block kind (如果/否则/再如/每当/遍历) use after block end, use before declaration, shadowing and its end, assignment to outer, same-block redeclaration (43), constants (44); for method locals/parameters/得到 names/method and type names/输入: visibility after return (normal and through a handled exception - 12 ways of raising it x {directly, inside nested blocks, inside a loop, one call deeper}: callee names gone, caller's block still rejects redeclaration, names of blocks ending afterwards gone) and reassignment; the 7 predefined names x {assign, declare, declare const, declare in block, as parameter, as loop variable, as 得到 name}; old value intact after a rejected assignment (seen through the handler); (3) random programs with inner-block shadowing; quiescent invariant after each successful run (scope depth 0, call stack empty). the same 17 bodies (redeclaration of own methods / types by 令, 恒为 and 得到, double declaration, assignment to own definitions and constants, use before declaration, names of ended blocks and returned methods, legal shadowing) as main program, as imported module and as a module behind a relay: judged alike; hand-written programs with a constructor declared in a method body / branch / loop body for a type of an enclosing block (rejected or gone afterwards; with the type in the same block it works); distinct_nontrivial = distinct histories / (family, outcome kind)"
	c.assumptions = []string{"declaring a local with the name of a parameter / loop variable / definition of the same body is unspecified and not generated", "imports are probed by C15"}
	checkScopeAPI(c)
	progs, ins, shapes := c06Fixed()
	c.Count("fixed_family_programs", int64(len(progs)))
	rng := c.Rand("c06")
	n := c.Pick(6000, 400000)
	for i := 0; i < n; i++ {
		g := newPgen(rng, genOpts{maxDepth: 2 + rng.Intn(3), stmts: 4, funcs: 2, classes: 1, loops: true, returns: rng.Intn(3) == 0, collections: rng.Intn(2) == 0, recursion: 3, exceptions: rng.Intn(2) == 0, shadow: true})
		p := g.program()
		progs = append(progs, p)
		ins = append(ins, nil)
		shapes = append(shapes, "rand/"+featureKey(g.features))
	}
	// definitions written inside a branch / loop body / handler are declarations of that block:
	// usable in it (after hoisting, like at body level), gone when it ends
	{
		type hp struct{ name, src, want string }
		def := "如何加一？\n\t\t输入数\n\t\t输出 数 + 1\n"
		dog := "定义狗：\n\t其名 = “默认”\n"
		hps := []hp{
			{"def-in-branch/used-inside", "如果 真：\n\t" + def + "\t输出（加一：1）\n输出 0\n", "num(2)"},
			{"def-in-branch/used-before-its-line", "如果 真：\n\t令果 = （加一：1）\n\t" + def + "\t输出 果\n输出 0\n", "num(2)"},
			{"def-in-branch/gone-after", "如果 真：\n\t" + def + "\t令果 = （加一：1）\n输出（加一：5）\n", "error:42"},
			{"def-in-loop/each-pass", "令和 = 0\n以项遍历【1，2，3】：\n\t" + def + "\t和 = 和 + （加一：项）\n输出 和\n", "num(9)"},
			{"def-in-while/each-pass", "令次 = 0\n每当 次 < 3：\n\t" + def + "\t次 = （加一：次）\n输出 次\n", "num(3)"},
			{"type-in-branch/used-inside", "如果 真：\n\t定义猫：\n\t\t其名 = “咪”\n\t输出（新建猫）之名\n输出 0\n", `text("咪")`},
			{"type-in-branch/gone-after", "如果 真：\n\t定义猫：\n\t\t其名 = “咪”\n\t令物 = （新建猫）\n输出（新建猫）之名\n", "error:42"},
			{"def-in-handler/used-inside", "令甲 = 1 / 0\n\n拦截异常：\n\t" + def + "\t输出（加一：1）\n", "num(2)"},
			{"def-in-method-branch/used-inside", "如何外？\n\t如果 真：\n\t\t如何内？\n\t\t\t输出 5\n\t\t输出（内）\n\t输出 0\n输出【（外），（外）】\n", "list[num(5),num(5)]"},
			// a constructor is a declaration too: written in a method body / branch for a type of an
			// outer block it must not outlive that block (either it is rejected or it is gone)
			{"ctor-in-method/gone-after", dog + "如何新建狗？\n\t输入甲\n\t其名 = “外层”\n如何造？\n\t如何新建狗？\n\t\t输入甲\n\t\t其名 = “内层”\n\t输出 1\n令前 = （新建狗：1）\n（造）\n令后 = （新建狗：1）\n输出【前之名，后之名】\n", `list[text("外层"),text("外层")]|error:*`},
			{"ctor-in-method/type-without-ctor", dog + "如何造？\n\t如何新建狗？\n\t\t其名 = “内层”\n\t输出 1\n（造）\n输出（新建狗）之名\n", `text("默认")|error:*`},
			{"ctor-in-method/handled-exception", dog + "如何造？\n\t如何新建狗？\n\t\t其名 = “内层”\n\t令甲 = 1 / 0\n\n\t拦截异常：\n\t\t输出 2\n（造）\n输出（新建狗）之名\n", `text("默认")|error:*`},
			{"ctor-in-branch/gone-after", dog + "如果 真：\n\t如何新建狗？\n\t\t其名 = “内层”\n\t令甲 = 1\n输出（新建狗）之名\n", `text("默认")|error:*`},
			{"ctor-in-loop/gone-after", dog + "以项遍历【1，2】：\n\t如何新建狗？\n\t\t其名 = “内层”\n\t令甲 = 1\n输出（新建狗）之名\n", `text("默认")|error:*`},
			{"ctor-in-method/through-parameter-alias", dog + "如何造？\n\t输入型乙\n\t如何新建型乙？\n\t\t其名 = “内层”\n\t输出 1\n令前 = （新建狗）之名\n（造：狗）\n令后 = （新建狗）之名\n输出【前，后】\n", `list[text("默认"),text("默认")]|error:*`},
			{"ctor-in-method/through-parameter-of-the-same-name", dog + "如何造？\n\t输入狗\n\t如何新建狗？\n\t\t其名 = “内层”\n\t输出 1\n令前 = （新建狗）之名\n（造：狗）\n令后 = （新建狗）之名\n输出【前，后】\n", `list[text("默认"),text("默认")]|error:*`},
			{"ctor-in-method/through-parameter-alias-handled", dog + "如何造？\n\t输入型乙\n\t如何新建型乙？\n\t\t其名 = “内层”\n\t令甲 = 1 / 0\n\n\t拦截异常：\n\t\t输出 2\n（造：狗）\n输出（新建狗）之名\n", `text("默认")|error:*`},
			{"ctor-in-type-method/through-parameter-alias", dog + "定义匠：\n\t其数 = 1\n\t如何改？\n\t\t输入型乙\n\t\t如何新建型乙？\n\t\t\t其名 = “内层”\n\t\t输出 1\n以（新建匠）（改：狗）\n输出（新建狗）之名\n", `text("默认")|error:*`},
			{"ctor-with-type-in-branch/works", "如果 真：\n\t定义猫：\n\t\t其名 = “咪”\n\t如何新建猫？\n\t\t输入甲\n\t\t其名 = 甲\n\t输出（新建猫：“花”）之名\n输出 0\n", `text("花")`},
			{"ctor-with-type-in-method/works", "如何造？\n\t定义猫：\n\t\t其名 = “咪”\n\t如何新建猫？\n\t\t输入甲\n\t\t其名 = 甲\n\t输出（新建猫：“花”）之名\n输出【（造），（造）】\n", `list[text("花"),text("花")]`},
			{"ctor-with-type-in-body/works", dog + "如何新建狗？\n\t输入甲\n\t其名 = 甲\n输出（新建狗：“旺”）之名\n", `text("旺")`},
			{"def-in-branch/not-exported", "", ""},
		}
		hreqs := []Req{}
		idx := []int{}
		for k, h := range hps {
			if h.src == "" {
				continue
			}
			hreqs = append(hreqs, execReq(h.src))
			idx = append(idx, k)
		}
		// the module variant: a definition inside a branch of a module body is not exported
		hreqs = append(hreqs, Req{Op: "exec", Main: "main.zn", EvalBudget: 20000, ParseBudget: 20000, Files: []File{
			{Path: "main.zn", Data: widen([]byte("导入“甲”\n输出（加一：1）\n"))},
			{Path: "甲.zn", Data: widen([]byte("如果 真：\n\t" + def + "\t令果 = （加一：1）\n令旁 = 1\n"))}}})
		idx = append(idx, len(hps)-1)
		hps[len(hps)-1].want = "error:42"
		// … and neither is one written inside the module's own 拦截 block (which has run and ended
		// by the time the importer goes on)
		hps = append(hps, hp{"def-in-module-handler/not-exported", "", "error:42"})
		hreqs = append(hreqs, Req{Op: "exec", Main: "main.zn", EvalBudget: 20000, ParseBudget: 20000, Files: []File{
			{Path: "main.zn", Data: widen([]byte("导入“甲”\n输出（加一：1）\n"))},
			{Path: "甲.zn", Data: widen([]byte("令旁 = 1 / 0\n\n拦截异常：\n\t" + def + "\t（显示：（加一：1））\n"))}}})
		idx = append(idx, len(hps)-1)
		c.runBatches(hreqs, 10, func(r int, req *Req, resp *Resp) {
			c.Eval()
			h := hps[idx[r]]
			c.Nontrivial("hand|" + h.name + "|" + resp.Kind)
			got := resp.Kind
			if resp.Kind == "value" && resp.Val != nil {
				got = resp.Val.String()
			} else if resp.Kind == "error" && resp.Err != nil {
				got = fmt.Sprintf("error:%d", resp.Err.Code)
			}
			okHand := false
			for _, w := range strings.Split(h.want, "|") {
				if got == w || (w == "error:*" && resp.Kind == "error") {
					okHand = true
				}
			}
			if !okHand {
				c.Violation("hand:"+h.name, fmt.Sprintf("%s: outcome %s %v, expected %s\nprogram:\n%s", h.name, got, resp.Err, h.want, h.src), map[string]interface{}{"req": req})
			}
		})
	}
	// the body of an imported module is a body like any other: the same text is judged in the same
	// way whether it is the main program or a module that the main program imports
	{
		fn := "如何取数？\n\t输出 7\n"
		ty := "定义狗：\n\t其名 = “旺”\n"
		bodies := []struct{ name, src, want string }{
			{"redeclare-own-method-by-let", fn + "令取数 = 5\n", "error:43"},
			{"redeclare-own-method-by-yield", fn + "如何造？\n\t输出 1\n（造），得到取数\n", "error:43"},
			{"redeclare-own-type-by-let", ty + "令狗 = 5\n", "error:43"},
			{"redeclare-own-method-by-const", fn + "令取数恒为5\n", "error:43"},
			{"declare-twice", "令甲 = 1\n令乙 = 2\n令甲 = 3\n", "error:43"},
			{"declare-twice-after-a-block", "令甲 = 1\n如果 真：\n\t令甲 = 2\n令甲 = 3\n", "error:43"},
			{"assign-own-method", fn + "取数 = 5\n", "error:44"},
			{"assign-own-type", ty + "狗 = 5\n", "error:44"},
			{"assign-constant", "令甲恒为1\n甲 = 2\n", "error:44"},
			{"use-before-declaration", "令甲 = 乙\n令乙 = 1\n", "error:42"},
			{"name-of-ended-branch", "如果 真：\n\t令内 = 1\n令外 = 内\n", "error:42"},
			{"name-of-ended-loop", "以项遍历【1，2】：\n\t令内 = 项\n令外 = 项\n", "error:42"},
			{"local-of-returned-method", "如何算？\n\t令局 = 1\n\t输出 局\n令甲 = （算）\n令乙 = 局\n", "error:42"},
			{"local-of-method-left-through-handler", "如何算？\n\t令局 = 1\n\t令坏 = 1 / 0\n\n\t拦截异常：\n\t\t输出 0\n令甲 = （算）\n令乙 = 局\n", "error:42"},
			{"legal-shadowing-in-branch", fn + "如果 真：\n\t令取数 = 5\n\t令旁 = 取数 + 1\n令果 = （取数）\n", "ok"},
			{"legal-redeclaration-in-two-branches", "如果 真：\n\t令甲 = 1\n如果 真：\n\t令甲 = 2\n令甲 = 3\n", "ok"},
			{"assign-predefined", "真 = 1\n", "error:*"},
		}
		cases := []handFiles{}
		for _, b := range bodies {
			wantMain, wantMod := b.want, b.want
			if b.want == "ok" {
				wantMain, wantMod = `text("完")`, `text("完")`
			}
			tail := ""
			if b.want == "ok" {
				tail = "输出 “完”\n"
			}
			cases = append(cases, handFiles{"as-main/" + b.name, map[string]string{"main.zn": b.src + tail}, wantMain})
			cases = append(cases, handFiles{"as-module/" + b.name, map[string]string{"main.zn": "导入“模”\n输出 “完”\n", "模.zn": b.src}, wantMod})
			cases = append(cases, handFiles{"as-module-behind-relay/" + b.name, map[string]string{"main.zn": "导入“中转”\n输出 “完”\n", "中转.zn": "导入“模”\n令转 = 1\n", "模.zn": b.src}, wantMod})
		}
		// what the importer sees of a module that shadows one of its own methods in a branch
		cases = append(cases, handFiles{"as-module/shadowing-leaves-the-export-alone", map[string]string{"main.zn": "导入“模”\n输出（取数）\n", "模.zn": fn + "如果 真：\n\t令取数 = 5\n"}, "num(7)"})
		// names brought in by 导入 are declarations of the importing file's block: two of them with
		// the same name collide like any two declarations, whichever import form is used
		two := map[string]string{"甲.zn": "如何取值？\n\t输出 1\n如何甲专有？\n\t输出 10\n", "乙.zn": "如何取值？\n\t输出 2\n如何备用？\n\t输出 20\n"}
		with := func(main string) map[string]string {
			m := map[string]string{"main.zn": main}
			for k, v := range two {
				m[k] = v
			}
			return m
		}
		cases = append(cases,
			handFiles{"import-collision/whole-modules", with("导入“甲”\n导入“乙”\n输出（取值）\n"), "error:43"},
			handFiles{"import-collision/item-lists", with("导入“甲”之取值\n导入“乙”之取值、备用\n输出（取值）\n"), "error:43"},
			handFiles{"import-collision/item-lists-later-item", with("导入“甲”之取值\n导入“乙”之备用、取值\n输出（备用）\n"), "error:43"},
			handFiles{"import-collision/whole-then-item", with("导入“甲”\n导入“乙”之取值\n输出（取值）\n"), "error:43"},
			handFiles{"import-collision/item-then-whole", with("导入“甲”之取值\n导入“乙”\n输出（取值）\n"), "error:43"},
			handFiles{"import-collision/item-vs-own-method", with("导入“乙”之备用\n如何备用？\n\t输出 0\n输出（备用）\n"), "error:43|num(0)|num(20)"},
			handFiles{"import-collision/none-with-disjoint-items", with("导入“甲”之甲专有\n导入“乙”之取值、备用\n输出【（甲专有），（取值），（备用）】\n"), "list[num(10),num(2),num(20)]"},
			handFiles{"import-collision/in-a-module", map[string]string{"main.zn": "导入“中”\n输出 1\n", "中.zn": "导入“甲”之取值\n导入“乙”之取值\n令转 = 1\n", "甲.zn": two["甲.zn"], "乙.zn": two["乙.zn"]}, "error:43"},
		)
		// a call that the interpreter refuses (too deep) while blocks of the caller are open - through a
		// function, a type method and a constructor, of this module and of an imported one: once the
		// fault is handled, the caller's blocks have ended like after any other exception
		chain := "定义节点：\n\t其深 = 0\n\t如何沉？\n\t\t输入层\n\t\t输出 以此（沉：层 + 1）\n如何新建节点？\n\t输入层\n\t其深 = 层\n\t如果 层 > 0：\n\t\t令下 = （新建节点：层 + 1）\n如何落？\n\t输入层\n\t输出（落：层 + 1）\n"
		for _, via := range []struct{ name, call string }{{"constructor", "（新建节点：1）"}, {"type-method", "以（新建节点：0）（沉：1）"}, {"function", "（落：1）"}} {
			probe := "如何试？\n\t如果 真：\n\t\t令内部 = 5\n\t\t以项遍历【1】：\n\t\t\t令更内 = 6\n\t\t\t令果 = " + via.call + "\n\t输出 “got”\n\n\t拦截异常：\n\t\t输出 “handled”\n令一 = （试）\n如何查？\n\t输出 内部\n\n\t拦截异常：\n\t\t输出 “gone”\n如何再查？\n\t输出 更内\n\n\t拦截异常：\n\t\t输出 “gone”\n输出【一，（查），（再查）】\n"
			want := `list[text("handled"),text("gone"),text("gone")]`
			cases = append(cases,
				handFiles{"refused-call/" + via.name + "/same-module", map[string]string{"main.zn": chain + probe}, want},
				handFiles{"refused-call/" + via.name + "/imported-module", map[string]string{"main.zn": "导入“链”\n" + probe, "链.zn": chain}, want},
			)
		}
		c.runHandFiles("module-body", cases)
		// the implicit names of a body that runs for an object (此, the receiver) are declarations of
		// that body's block like its 输入 names: binding them again is a redeclaration
		obj := "定义器：\n\t其数 = 42\n"
		c.runHand("implicit-receiver-name", []handCase{
			{"type-method/input-named-like-the-receiver", obj + "\t如何取？\n\t\t输入此\n\t\t输出 此\n令物 = （新建器）\n输出 以物（取：5）\n", "error:*"},
			{"constructor/input-named-like-the-receiver", obj + "如何新建器？\n\t输入此\n\t其数 = 1\n输出（新建器：5）之数\n", "error:43"},
			{"type-method/second-input-named-like-the-receiver", obj + "\t如何取？\n\t\t输入甲、此\n\t\t输出 甲\n令物 = （新建器）\n输出 以物（取：5、6）\n", "error:*"},
			{"type-method/receiver-name-redeclared-in-body", obj + "\t如何取？\n\t\t令此 = 1\n\t\t输出 此\n令物 = （新建器）\n输出 以物（取）\n", "error:*"},
			{"type-method/control-receiver-readable", obj + "\t如何取？\n\t\t输入甲\n\t\t输出 此之数 + 甲\n令物 = （新建器）\n输出 以物（取：1）\n", "num(43)"},
			{"plain-method/name-is-free", "如何取？\n\t输入此\n\t输出 此\n输出（取：5）\n", "num(5)|error:*"},
		})
	}
	c.runRefCases("scope", progs, ins, shapes, nil, func(i int, src string, ref zr.Result, resp *Resp) {
		quiescent(c, "scope", shapes[i], src, resp)
	})
}
