package main

import (
	"bufio"
	"encoding/json"
	"fmt"
	"os"
	"os/exec"
	"path/filepath"
	"sync"

	. "verif/internal/proto"
)

// pyOracle talks to pyoracle/oracle.py (Python's json module and % formatting).
type pyOracle struct {
	mu  sync.Mutex
	cmd *exec.Cmd
	in  *bufio.Writer
	out *bufio.Reader
}

func startPyOracle(root string) (*pyOracle, error) {
	var lastErr error
	for _, py := range []string{"python3", "python3-vt", "/usr/bin/python3"} {
		cmd := exec.Command(py, filepath.Join(root, "pyoracle", "oracle.py"))
		cmd.Stderr = os.Stderr
		stdin, err := cmd.StdinPipe()
		if err != nil {
			lastErr = err
			continue
		}
		stdout, err := cmd.StdoutPipe()
		if err != nil {
			lastErr = err
			continue
		}
		if err := cmd.Start(); err != nil {
			lastErr = err
			continue
		}
		o := &pyOracle{cmd: cmd, in: bufio.NewWriterSize(stdin, 1<<20), out: bufio.NewReaderSize(stdout, 1<<20)}
		var rep map[string]interface{}
		if err := o.call(map[string]interface{}{"op": "ping"}, &rep); err != nil {
			lastErr = err
			cmd.Process.Kill()
			continue
		}
		return o, nil
	}
	return nil, fmt.Errorf("cannot start python oracle: %v", lastErr)
}

func (o *pyOracle) call(req interface{}, rep interface{}) error {
	o.mu.Lock()
	defer o.mu.Unlock()
	data, err := json.Marshal(req)
	if err != nil {
		return err
	}
	o.in.Write(data)
	o.in.WriteByte('\n')
	if err := o.in.Flush(); err != nil {
		return err
	}
	line, err := o.out.ReadBytes('\n')
	if err != nil {
		return err
	}
	return json.Unmarshal(line, rep)
}

func (o *pyOracle) close() {
	if o.cmd != nil && o.cmd.Process != nil {
		o.cmd.Process.Kill()
		o.cmd.Wait()
	}
}

type pyLoadRes struct {
	OK    bool     `json:"ok"`
	Skip  bool     `json:"skip"`
	Why   string   `json:"why"`
	Top   string   `json:"top"`
	Flags []string `json:"flags"`
	Value *Val     `json:"value"`
}

func (o *pyOracle) loads(docs [][]byte) ([]pyLoadRes, error) {
	ints := make([][]int, len(docs))
	for i, d := range docs {
		ints[i] = make([]int, len(d))
		for j, b := range d {
			ints[i][j] = int(b)
		}
	}
	var rep struct {
		Results []pyLoadRes `json:"results"`
		Error   string      `json:"error"`
	}
	if err := o.call(map[string]interface{}{"op": "json_loads", "docs": ints}, &rep); err != nil {
		return nil, err
	}
	if rep.Error != "" {
		return nil, fmt.Errorf("python: %s", rep.Error)
	}
	return rep.Results, nil
}

type pyDumpItem struct {
	Value Val                    `json:"value"`
	Opts  map[string]interface{} `json:"opts"`
}

func (o *pyOracle) dumps(items []pyDumpItem) ([][]byte, error) {
	var rep struct {
		Docs  [][]int `json:"docs"`
		Error string  `json:"error"`
	}
	if err := o.call(map[string]interface{}{"op": "json_dumps", "items": items}, &rep); err != nil {
		return nil, err
	}
	if rep.Error != "" {
		return nil, fmt.Errorf("python: %s", rep.Error)
	}
	out := make([][]byte, len(rep.Docs))
	for i, d := range rep.Docs {
		out[i] = make([]byte, len(d))
		for j, b := range d {
			out[i][j] = byte(b)
		}
	}
	return out, nil
}

type pyFmtItem struct {
	Bits uint64 `json:"bits"`
	Spec string `json:"spec"`
}

func (o *pyOracle) format(items []pyFmtItem) ([]*string, error) {
	var rep struct {
		Strs  []*string `json:"strs"`
		Error string    `json:"error"`
	}
	if err := o.call(map[string]interface{}{"op": "fmt", "items": items}, &rep); err != nil {
		return nil, err
	}
	if rep.Error != "" {
		return nil, fmt.Errorf("python: %s", rep.Error)
	}
	return rep.Strs, nil
}

func (o *pyOracle) widths(strs []string) ([][2]interface{}, error) {
	var rep struct {
		Widths [][2]interface{} `json:"widths"`
		Error  string           `json:"error"`
	}
	if err := o.call(map[string]interface{}{"op": "width", "strs": strs}, &rep); err != nil {
		return nil, err
	}
	return rep.Widths, nil
}
