//go:build verif

// znworker: links the real DemoHn/Zn packages (from /repo's working tree, hooks on)
// and executes commands sent by the judge over stdin/stdout (one JSON document per line).
package main

import (
	"bufio"
	"bytes"
	"encoding/json"
	"fmt"
	"net/http/httptest"
	"os"
	"path/filepath"
	"regexp"
	"runtime"
	"runtime/debug"
	"strconv"
	"strings"
	"sync/atomic"
	"syscall"
	"time"
	"unicode/utf8"

	"github.com/DemoHn/Zn/pkg/common"
	zerr "github.com/DemoHn/Zn/pkg/error"
	"github.com/DemoHn/Zn/pkg/exec"
	zio "github.com/DemoHn/Zn/pkg/io"
	r "github.com/DemoHn/Zn/pkg/runtime"
	"github.com/DemoHn/Zn/pkg/server"
	"github.com/DemoHn/Zn/pkg/syntax"
	"github.com/DemoHn/Zn/pkg/syntax/zh"
	"github.com/DemoHn/Zn/pkg/value"
	zfile "github.com/DemoHn/Zn/stdlib/file"
	zjson "github.com/DemoHn/Zn/stdlib/json"

	. "verif/internal/proto"
)

type budgetExceeded struct{ which string }

var (
	evalTicks, parseTicks   int
	evalBudget, parseBudget int
	capturedVMs             []*r.VM
	capture                 *os.File
	realStdout              *os.File
	sharedInterp            *exec.Interpreter
	tmpRoot                 string
)

func main() {
	debug.SetMaxStack(256 << 20)
	fd, err := syscall.Dup(1)
	if err != nil {
		panic(err)
	}
	realStdout = os.NewFile(uintptr(fd), "proto-out")
	tmpRoot, err = os.MkdirTemp("", "znworker-")
	if err != nil {
		panic(err)
	}
	defer os.RemoveAll(tmpRoot)
	capture, err = os.Create(filepath.Join(tmpRoot, "stdout.cap"))
	if err != nil {
		panic(err)
	}
	os.Stdout = capture

	exec.VerifOnVM = func(vm *r.VM) { capturedVMs = append(capturedVMs, vm) }
	exec.VerifTick = func() {
		evalTicks++
		if evalBudget > 0 && evalTicks > evalBudget {
			panic(budgetExceeded{"eval"})
		}
	}
	zh.VerifTick = func() {
		parseTicks++
		if parseBudget > 0 && parseTicks > parseBudget {
			panic(budgetExceeded{"parse"})
		}
	}

	go memoryMonitor()

	in := bufio.NewReaderSize(os.Stdin, 1<<20)
	out := bufio.NewWriterSize(realStdout, 1<<20)
	dec := json.NewDecoder(in)
	enc := json.NewEncoder(out)
	for {
		var req Req
		if err := dec.Decode(&req); err != nil {
			break
		}
		resp := handle(&req)
		resp.ID = req.ID
		resp.PeakRSSMB = int(atomic.LoadInt64(&peakRSSMB))
		if err := enc.Encode(resp); err != nil {
			fmt.Fprintln(os.Stderr, "encode error:", err)
			os.Exit(3)
		}
		out.Flush()
	}
	os.RemoveAll(tmpRoot)
}

// memoryMonitor: a memory budget for the worker process, the counterpart of the tick budgets.
// The programs of every check need a few dozen MiB (the deepest inputs a few GiB); a worker whose
// resident set passes the limit is running away (e.g. a collection that came to contain itself is
// being displayed or copied) and ends with a message the judge attributes to the journalled case,
// instead of taking the machine down.
var peakRSSMB int64

func memoryMonitor() {
	limit := int64(3072)
	if v, err := strconv.Atoi(os.Getenv("ZNWORKER_RSS_LIMIT_MB")); err == nil && v > 0 {
		limit = int64(v)
	}
	page := int64(os.Getpagesize())
	buf := make([]byte, 256)
	for {
		time.Sleep(25 * time.Millisecond)
		f, err := os.Open("/proc/self/statm")
		if err != nil {
			return
		}
		n, _ := f.Read(buf)
		f.Close()
		fields := strings.Fields(string(buf[:n]))
		if len(fields) < 2 {
			continue
		}
		pages, _ := strconv.ParseInt(fields[1], 10, 64)
		mb := pages * page >> 20
		if mb > atomic.LoadInt64(&peakRSSMB) {
			atomic.StoreInt64(&peakRSSMB, mb)
		}
		if mb > limit {
			fmt.Fprintf(os.Stderr, "MEMORY BUDGET EXCEEDED: the worker's resident set reached %d MiB (limit %d MiB)\n", mb, limit)
			os.Exit(98)
		}
	}
}

func handle(req *Req) (resp Resp) {
	switch req.Op {
	case "ping":
		return Resp{Kind: "ok"}
	case "batch":
		resp.Kind = "ok"
		for i := range req.Batch {
			sub := handle(&req.Batch[i])
			sub.ID = req.Batch[i].ID
			resp.Batch = append(resp.Batch, sub)
		}
		return
	case "exec":
		return doExec(req)
	case "parse":
		return doParse(req)
	case "tokens":
		return doTokens(req)
	case "idmatch":
		return doIDMatch(req)
	case "idrange":
		return doIDRange(req)
	case "api":
		return doAPI(req)
	case "scope":
		return doScope(req)
	case "readall":
		return doReadAll(req)
	case "varinput":
		return doVarInput(req)
	case "exprinput":
		return doExprInput(req)
	case "members":
		return doMembers(req)
	case "pg":
		return doPlayground(req)
	}
	return Resp{Kind: "panic", Panic: "unknown op " + req.Op}
}

// ------------------------------------------------------------------ conversion

func toVal(e r.Element, depth int) Val {
	if e == nil {
		return Val{T: "nil"}
	}
	if depth > 200 {
		return Val{T: "other", Name: "too-deep"}
	}
	switch v := e.(type) {
	case *value.Number:
		if v == nil {
			return Val{T: "nil"}
		}
		return Num(v.GetValue())
	case *value.String:
		if v == nil {
			return Val{T: "nil"}
		}
		return Text(v.GetValue())
	case *value.Bool:
		if v == nil {
			return Val{T: "nil"}
		}
		return Bool(v.GetValue())
	case *value.Null:
		return Null()
	case *value.Array:
		if v == nil {
			return Val{T: "nil"}
		}
		items := []Val{}
		for _, it := range v.GetValue() {
			items = append(items, toVal(it, depth+1))
		}
		return Val{T: "list", Items: items}
	case *value.HashMap:
		if v == nil {
			return Val{T: "nil"}
		}
		keys := [][]int32{}
		items := []Val{}
		m := v.GetValue()
		for _, k := range v.GetKeyOrder() {
			keys = append(keys, BytesOf(k))
			items = append(items, toVal(m[k], depth+1))
		}
		return Val{T: "dict", KeysR: keys, Items: items}
	case *value.Object:
		if v == nil {
			return Val{T: "nil"}
		}
		return Val{T: "object", Name: v.GetObjectName()}
	case *value.ClassModel:
		if v == nil {
			return Val{T: "nil"}
		}
		return Val{T: "type", Name: v.GetName()}
	case *value.Function:
		if v == nil {
			return Val{T: "nil"}
		}
		return Val{T: "method"}
	case *value.Exception:
		if v == nil {
			return Val{T: "nil"}
		}
		return Val{T: "exception", Str: v.Message}
	case *value.GoValue:
		return Val{T: "govalue"}
	}
	return Val{T: "other", Name: fmt.Sprintf("%T", e)}
}

// synthetic library exercised by C16: a type with collection defaults and a method
var synthLib *r.Library
var synthClass *value.ClassModel

func init() {
	synthClass = value.NewClassModel("样品").
		DefineProperty("清单", value.NewArray([]r.Element{value.NewNumber(1), value.NewNumber(2)})).
		DefineProperty("表", value.NewHashMap([]value.KVPair{{Key: "甲", Value: value.NewNumber(1)}})).
		DefineProperty("计数", value.NewNumber(0))
	synthClass.DefineMethod("累加", value.NewFunction(func(recv r.Element, params []r.Element) (r.Element, error) {
		cur, err := recv.GetProperty("计数")
		if err != nil {
			return nil, err
		}
		n, _ := cur.(*value.Number)
		if n == nil {
			return value.NewNull(), nil
		}
		nv := value.NewNumber(n.GetValue() + 1)
		recv.SetProperty("计数", nv)
		return nv, nil
	}))
	synthLib = r.NewLibrary("@样品库")
	synthLib.RegisterClass("样品", synthClass)
	// the repository's own library types (stdlib/http, which exports them, does not build here)
	synthLib.RegisterClass("HTTP响应", common.CLASS_HttpResponse)
	synthLib.RegisterClass("HTTP请求", common.CLASS_HttpRequest)
	synthLib.RegisterFunction("取常数", value.NewFunction(func(recv r.Element, params []r.Element) (r.Element, error) {
		return value.NewNumber(42), nil
	}))
}

func fromVal(v Val) r.Element {
	switch v.T {
	case "num":
		return value.NewNumber(v.F())
	case "text":
		return value.NewString(v.S())
	case "bool":
		return value.NewBool(v.B)
	case "null":
		return value.NewNull()
	case "list":
		items := []r.Element{}
		for _, it := range v.Items {
			items = append(items, fromVal(it))
		}
		return value.NewArray(items)
	case "dict":
		pairs := []value.KVPair{}
		for i, it := range v.Items {
			pairs = append(pairs, value.KVPair{Key: v.Key(i), Value: fromVal(it)})
		}
		return value.NewHashMap(pairs)
	case "object":
		switch v.Name {
		case "HTTP请求":
			return value.NewObject(common.CLASS_HttpRequest, r.ElementMap{})
		case "HTTP响应":
			return value.NewObject(common.CLASS_HttpResponse, r.ElementMap{})
		case "样品":
			return value.NewObject(synthClass, r.ElementMap{})
		}
		cm := value.NewClassModel(v.Name).DefineProperty("甲", value.NewNumber(1)).DefineProperty("乙", value.NewArray([]r.Element{}))
		cm.DefineMethod("取甲", value.NewFunction(func(recv r.Element, params []r.Element) (r.Element, error) {
			return recv.GetProperty("甲")
		}))
		return value.NewObject(cm, r.ElementMap{})
	case "type":
		switch v.Name {
		case "异常":
			return exec.GlobalValues["异常"]
		case "数值":
			return exec.GlobalValues["数值"]
		case "HTTP请求":
			return common.CLASS_HttpRequest
		case "HTTP响应":
			return common.CLASS_HttpResponse
		case "样品":
			return synthClass
		}
		return value.NewClassModel(v.Name)
	case "method":
		switch v.Name {
		case "显示", "取随机数":
			return exec.GlobalValues[v.Name]
		case "解析JSON", "生成JSON":
			return zjson.Export().GetAllExportValues()[v.Name]
		case "读取文件", "写入文件", "读取目录":
			return zfile.Export().GetAllExportValues()[v.Name]
		}
		return value.NewFunction(func(recv r.Element, params []r.Element) (r.Element, error) {
			return value.NewNumber(float64(len(params))), nil
		})
	case "exception":
		return value.NewException(v.Str)
	case "govalue":
		return value.NewGoValue("tag", 1)
	case "global":
		return exec.GlobalValues[v.Name]
	}
	return value.NewNull()
}

var reMsgLine = regexp.MustCompile(`(?m)^(语法错误|运行异常|IO错误)(?:\[(-?\d+)\])?：(.*)$`)

func errInfo(err error) *ErrInfo {
	info := &ErrInfo{GoType: fmt.Sprintf("%T", err)}
	switch err.(type) {
	case *exec.SyntaxErrorWrapper:
		info.Class = "syntax"
	case *exec.RuntimeErrorWrapper:
		info.Class = "runtime"
	case *zerr.IOError:
		info.Class = "io"
	case *zerr.SyntaxError:
		info.Class = "syntax"
	default:
		info.Class = "other"
	}
	func() {
		defer func() {
			if p := recover(); p != nil {
				info.DisplayPanic = fmt.Sprintf("%v", p)
			}
		}()
		info.Text = exec.DisplayError(err)
	}()
	if m := reMsgLine.FindAllStringSubmatch(info.Text, -1); len(m) > 0 {
		last := m[len(m)-1]
		if last[2] != "" {
			info.Code, _ = strconv.Atoi(last[2])
		}
		info.Msg = last[3]
	} else {
		func() {
			defer func() { recover() }()
			info.Msg = err.Error()
		}()
	}
	return info
}

// ------------------------------------------------------------------ exec

func resetCapture() {
	capture.Truncate(0)
	capture.Seek(0, 0)
}

func readCapture() string {
	st, err := capture.Stat()
	if err != nil || st.Size() == 0 {
		return ""
	}
	buf := make([]byte, st.Size())
	n, _ := capture.ReadAt(buf, 0)
	return string(buf[:n])
}

func srcRunes(src []int32) []rune {
	out := make([]rune, len(src))
	for i, x := range src {
		out[i] = rune(x)
	}
	return out
}

func libs() []*r.Library {
	return []*r.Library{zjson.Export(), zfile.Export(), synthLib}
}

func runOnce(req *Req, dir string) (resp Resp) {
	resetCapture()
	evalTicks, parseTicks = 0, 0
	evalBudget, parseBudget = req.EvalBudget, req.ParseBudget
	capturedVMs = capturedVMs[:0]
	defer func() {
		evalBudget, parseBudget = 0, 0
		resp.EvalTicks, resp.ParseTicks = evalTicks, parseTicks
		resp.Display = readCapture()
		resp.VMs = len(capturedVMs)
		if len(capturedVMs) > 0 {
			vm := capturedVMs[len(capturedVMs)-1]
			func() {
				defer func() { recover() }()
				resp.CallStack = vm.VerifCallStackLen()
				resp.EvalDepth = vm.VerifEvalDepth()
				resp.Scopes = map[string][2]int{}
				for id, st := range vm.VerifScopeStats() {
					resp.Scopes[strconv.Itoa(id)] = st
				}
			}()
		}
	}()
	defer func() {
		if p := recover(); p != nil {
			if b, ok := p.(budgetExceeded); ok {
				resp = Resp{Kind: "budget", Panic: b.which}
				return
			}
			resp = Resp{Kind: "panic", Panic: fmt.Sprintf("%v\n%s", p, trimStack(debug.Stack()))}
		}
	}()

	var ip *exec.Interpreter
	if req.Shared {
		if sharedInterp == nil {
			sharedInterp = exec.NewInterpreter("verif")
		}
		ip = sharedInterp
	} else {
		ip = exec.NewInterpreter("verif")
	}
	if req.Libs {
		ip.SetExternalLibs(libs())
	} else {
		ip.SetExternalLibs(nil)
	}
	if req.Main != "" {
		ip.LoadFile(filepath.Join(dir, req.Main))
	} else {
		ip.LoadScript(srcRunes(req.Src))
	}
	inputs := r.ElementMap{}
	for k, v := range req.Inputs {
		inputs[k] = fromVal(v)
	}
	elem, err := ip.Execute(inputs)
	if err != nil {
		resp.Kind = "error"
		resp.Err = errInfo(err)
		if elem != nil {
			v := toVal(elem, 0)
			resp.Val = &v
		}
		return
	}
	if elem == nil {
		resp.Kind = "nilnil"
		return
	}
	v := toVal(elem, 0)
	if v.T == "nil" {
		resp.Kind = "nilnil"
		return
	}
	func() {
		defer func() {
			if p := recover(); p != nil {
				v.Str = "PANIC:" + fmt.Sprint(p)
			}
		}()
		v.Str = elem.String()
	}()
	resp.Kind = "value"
	resp.Val = &v
	return
}

func trimStack(b []byte) string {
	lines := strings.Split(string(b), "\n")
	keep := []string{}
	for _, l := range lines {
		if strings.Contains(l, "github.com/DemoHn/Zn") && !strings.HasPrefix(l, "\t") {
			keep = append(keep, strings.TrimSpace(l))
			if len(keep) >= 6 {
				break
			}
		}
	}
	return strings.Join(keep, " <- ")
}

func doExec(req *Req) Resp {
	dir := ""
	if req.Main != "" {
		var err error
		if req.Dir != "" {
			// a directory that stays: a later request of this process finds it again and replaces
			// the files in it (a site whose sources are redeployed between two executions)
			dir = filepath.Join(tmpRoot, "site-"+req.Dir)
			err = os.MkdirAll(dir, 0o755)
		} else {
			dir, err = os.MkdirTemp(tmpRoot, "mod-")
			defer os.RemoveAll(dir)
		}
		if err != nil {
			return Resp{Kind: "panic", Panic: "mkdir: " + err.Error()}
		}
		for _, f := range req.Files {
			p := filepath.Join(dir, f.Path)
			os.MkdirAll(filepath.Dir(p), 0o755)
			if req.Dir != "" {
				// replaced like a deployment does it: a new file takes the old one's place
				tmp := p + ".new"
				if err := os.WriteFile(tmp, []byte(StringOf(f.Data)), 0o644); err != nil {
					return Resp{Kind: "panic", Panic: "write: " + err.Error()}
				}
				if req.Mtime != 0 {
					mt := time.Unix(req.Mtime, 0)
					os.Chtimes(tmp, mt, mt)
				}
				if err := os.Rename(tmp, p); err != nil {
					return Resp{Kind: "panic", Panic: "rename: " + err.Error()}
				}
				continue
			}
			if err := os.WriteFile(p, []byte(StringOf(f.Data)), 0o644); err != nil {
				return Resp{Kind: "panic", Panic: "write: " + err.Error()}
			}
		}
	}
	if req.Reps <= 1 {
		resp := runOnce(req, dir)
		resp = scrubDir(resp, dir)
		return resp
	}
	// repetition mode (C11): run N times, compare outcomes
	first := Resp{}
	seen := map[string]int{}
	order := []string{}
	for i := 0; i < req.Reps; i++ {
		rr := scrubDir(runOnce(req, dir), dir)
		if i == 0 {
			first = rr
		}
		o := rr.Outcome()
		if _, ok := seen[o]; !ok {
			order = append(order, o)
		}
		seen[o]++
	}
	first.RepDistinct = len(seen)
	if len(order) > 1 {
		for _, o := range order {
			first.RepOutcomes = append(first.RepOutcomes, fmt.Sprintf("%dx %s", seen[o], o))
		}
	}
	// canary: how many distinct iteration orders does a 6-key Go map show in Reps ranges
	cm := map[string]int{"a": 1, "b": 2, "c": 3, "d": 4, "e": 5, "f": 6}
	orders := map[string]bool{}
	for i := 0; i < req.Reps; i++ {
		s := ""
		for k := range cm {
			s += k
		}
		orders[s] = true
	}
	first.CanaryOrders = len(orders)
	return first
}

func scrubDir(resp Resp, dir string) Resp {
	if dir == "" {
		return resp
	}
	resp.Display = strings.ReplaceAll(resp.Display, dir, "<DIR>")
	if resp.Err != nil {
		resp.Err.Text = strings.ReplaceAll(resp.Err.Text, dir, "<DIR>")
		resp.Err.Msg = strings.ReplaceAll(resp.Err.Msg, dir, "<DIR>")
	}
	return resp
}

// ------------------------------------------------------------------ parse / tokens

func doParse(req *Req) (resp Resp) {
	parseTicks = 0
	parseBudget = req.ParseBudget
	defer func() {
		parseBudget = 0
		resp.ParseTicks = parseTicks
	}()
	defer func() {
		if p := recover(); p != nil {
			if b, ok := p.(budgetExceeded); ok {
				resp = Resp{Kind: "budget", Panic: b.which}
				return
			}
			resp = Resp{Kind: "panic", Panic: fmt.Sprintf("%v\n%s", p, trimStack(debug.Stack()))}
		}
	}()
	src := srcRunes(req.Src)
	parser := syntax.NewParser(src, zh.NewParserZH())
	// mode "alloc": how many bytes the compilation allocates (a logical measure of its work that
	// does not depend on the machine's load) is reported in KiB
	var m0, m1 runtime.MemStats
	if req.Mode == "alloc" {
		runtime.GC()
		runtime.ReadMemStats(&m0)
	}
	prog, err := parser.Parse()
	if req.Mode == "alloc" {
		runtime.ReadMemStats(&m1)
		resp.Ints = []int{int((m1.TotalAlloc - m0.TotalAlloc) >> 10)}
	}
	resp.NLines = len(parser.Lines)
	if err != nil {
		resp.Kind = "error"
		info := &ErrInfo{GoType: fmt.Sprintf("%T", err), Class: "other"}
		if se, ok := err.(*zerr.SyntaxError); ok {
			info.Class = "syntax"
			info.Code = se.Code
			info.Cursor = se.Cursor
			info.HasCursor = true
			info.Msg = se.Message
		} else {
			func() {
				defer func() { recover() }()
				info.Msg = err.Error()
			}()
		}
		func() {
			defer func() {
				if p := recover(); p != nil {
					info.DisplayPanic = fmt.Sprintf("%v", p)
				}
			}()
			info.Text = exec.DisplayError(exec.WrapSyntaxError(parser, exec.MODULE_NAME_MAIN, err))
		}()
		resp.Err = info
		if prog != nil {
			resp.Dump = "PARTIAL"
		}
		return
	}
	resp.Kind = "ok"
	// cross-check (C05): a text the parser accepts must at least tokenise to its very end
	if tr := doTokens(req); tr.Kind == "error" && tr.Err != nil {
		resp.LexFailed = true
		resp.LexMsg = fmt.Sprintf("code %d at position %d: %s", tr.Err.Code, tr.Err.Cursor, tr.Err.Msg)
	}
	resp.Dump = dumpProgram(prog)
	return
}

func doTokens(req *Req) (resp Resp) {
	defer func() {
		if p := recover(); p != nil {
			resp = Resp{Kind: "panic", Panic: fmt.Sprintf("%v\n%s", p, trimStack(debug.Stack()))}
		}
	}()
	src := srcRunes(req.Src)
	l := syntax.NewLexer(src)
	limit := len(src) + 8
	for i := 0; ; i++ {
		if i > limit {
			return Resp{Kind: "budget", Panic: "tokens"}
		}
		tk, err := zh.NextToken(l)
		if err != nil {
			resp.Kind = "error"
			info := &ErrInfo{GoType: fmt.Sprintf("%T", err), Class: "other"}
			if se, ok := err.(*zerr.SyntaxError); ok {
				info.Class = "syntax"
				info.Code = se.Code
				info.Cursor = se.Cursor
				info.HasCursor = true
				info.Msg = se.Message
			}
			resp.Err = info
			return
		}
		lit := make([]int32, len(tk.Literal))
		for j, c := range tk.Literal {
			lit[j] = int32(c)
		}
		resp.Toks = append(resp.Toks, Tok{Type: int(tk.Type), Lit: lit, Start: tk.StartIdx, End: tk.EndIdx})
		if tk.Type == zh.TypeEOF {
			break
		}
	}
	resp.Kind = "ok"
	resp.NLines = len(l.Lines)
	return
}

func doIDMatch(req *Req) (resp Resp) {
	resp.Kind = "ok"
	resp.IDs = make([]IDRes, len(req.Strs))
	for i, s := range req.Strs {
		func() {
			defer func() {
				if p := recover(); p != nil {
					resp.IDs[i] = IDRes{Kind: "panic", Panic: fmt.Sprint(p)}
				}
			}()
			id := new(syntax.ID)
			id.SetLiteral([]rune(s))
			t, err := exec.MatchIDType(id)
			if err != nil {
				resp.IDs[i] = IDRes{Kind: "err"}
				return
			}
			switch v := t.(type) {
			case *r.IDNumber:
				resp.IDs[i] = IDRes{Kind: "num", Bits: Num(v.GetValue()).Bits}
			case *r.IDName:
				resp.IDs[i] = IDRes{Kind: "name"}
			default:
				resp.IDs[i] = IDRes{Kind: "err"}
			}
		}()
	}
	return
}

func doIDRange(req *Req) (resp Resp) {
	resp.Kind = "ok"
	for _, p := range syntax.VerifIDRangeTable() {
		resp.Table = append(resp.Table, [2]int32{int32(p[0]), int32(p[1])})
	}
	// runs of code points for which IdInRange is true, over [-70000, 0x110400)
	start := int32(-1 << 30)
	in := false
	lo, hi := int32(-70000), int32(0x110400)
	for c := lo; c < hi; c++ {
		ok := syntax.IdInRange(rune(c))
		if ok && !in {
			start = c
			in = true
		} else if !ok && in {
			resp.Ranges = append(resp.Ranges, [2]int32{start, c - 1})
			in = false
		}
	}
	if in {
		resp.Ranges = append(resp.Ranges, [2]int32{start, hi - 1})
	}
	// extreme values
	for _, c := range []rune{-1 << 31, -1 << 30, -1, 1<<31 - 1, 0x7fffffff, 0x110000, 0x1fffff} {
		if syntax.IdInRange(c) {
			resp.Ints = append(resp.Ints, int(c))
		}
	}
	return
}

// ------------------------------------------------------------------ API histories

func snapshot(e r.Element) (v Val, orderOK bool) {
	v = toVal(e, 0)
	orderOK = true
	var walk func(e r.Element, d int)
	walk = func(e r.Element, d int) {
		if d > 50 {
			return
		}
		switch x := e.(type) {
		case *value.HashMap:
			m := x.GetValue()
			ko := x.GetKeyOrder()
			if len(ko) != len(m) {
				orderOK = false
			}
			seen := map[string]bool{}
			for _, k := range ko {
				if seen[k] {
					orderOK = false
				}
				seen[k] = true
				if _, ok := m[k]; !ok {
					orderOK = false
				}
			}
			for _, it := range m {
				walk(it, d+1)
			}
		case *value.Array:
			for _, it := range x.GetValue() {
				walk(it, d+1)
			}
		}
	}
	walk(e, 0)
	return
}

func doAPI(req *Req) (resp Resp) {
	resp.Kind = "ok"
	resetCapture()
	var recv r.Element
	func() {
		defer func() {
			if p := recover(); p != nil {
				resp = Resp{Kind: "panic", Panic: "build receiver: " + fmt.Sprint(p)}
			}
		}()
		if req.Recv != nil {
			recv = fromVal(*req.Recv)
		}
	}()
	if resp.Kind != "ok" {
		return
	}
	var twin r.Element // the copy made by the last "dup" step; "twin" steps swap it with the receiver
	for _, st := range req.Steps {
		sr := StepRes{}
		func() {
			defer func() {
				if p := recover(); p != nil {
					if _, ok := p.(budgetExceeded); ok {
						sr = StepRes{Kind: "budget"}
						return
					}
					sr = StepRes{Kind: "panic", Panic: fmt.Sprintf("%v\n%s", p, trimStack(debug.Stack()))}
				}
			}()
			args := []r.Element{}
			for _, a := range st.Args {
				if a.T == "self" {
					args = append(args, recv)
					continue
				}
				args = append(args, fromVal(a))
			}
			var out r.Element
			var err error
			noValue := false
			switch st.Kind {
			case "get":
				out, err = recv.GetProperty(st.Name)
			case "set":
				var a r.Element = value.NewNull()
				if len(args) > 0 {
					// a program can only write a property through an assignment, and assignment
					// stores a copy: mirror that (a receiver stored into itself by reference is
					// not something the language can express)
					a = value.DuplicateValue(args[0])
				}
				err = recv.SetProperty(st.Name, a)
				noValue = true
			case "call":
				out, err = recv.ExecMethod(st.Name, args)
			case "new":
				if c, ok := recv.(r.ConstructableElement); ok {
					out, err = c.Construct(args)
				} else {
					noValue = true
				}
			case "fn":
				if f, ok := recv.(*value.Function); ok {
					out, err = f.Exec(nil, args)
				} else {
					noValue = true
				}
			case "str":
				out = value.NewString(recv.String())
			case "dup":
				out = value.DuplicateValue(recv)
				twin = out
			case "twin":
				// go on with the copy; the former receiver becomes the copy (so that histories
				// alternate between a value and its copy, as two variables of a program would)
				if twin != nil {
					recv, twin = twin, recv
				}
				out = recv
			case "cmp":
				var b bool
				var a r.Element = value.NewNull()
				if len(args) > 0 {
					a = args[0]
				}
				b, err = value.CompareValues(recv, a, value.CmpEq)
				out = value.NewBool(b)
			case "json":
				var s *value.String
				s, err = common.ElementToJSONString(recv)
				if err == nil {
					out = s
				}
			}
			if err != nil {
				sr.Kind = "err"
				sr.Err = errInfoLight(err)
				return
			}
			if noValue {
				sr.Kind = "ok"
				return
			}
			if out == nil {
				sr.Kind = "nil"
				return
			}
			v := toVal(out, 0)
			if v.T == "nil" {
				sr.Kind = "nil"
				return
			}
			// the display form must be computable too
			v.Str = out.String()
			sr.Kind = "ok"
			sr.Val = &v
		}()
		if req.Mode != "nostate" {
			func() {
				defer func() {
					if p := recover(); p != nil {
						sr = StepRes{Kind: "panic", Panic: "snapshot: " + fmt.Sprint(p)}
					}
				}()
				s, ok := snapshot(recv)
				sr.State = &s
				sr.OrderOK = ok
			}()
		}
		resp.Steps = append(resp.Steps, sr)
	}
	return
}

func errInfoLight(err error) *ErrInfo {
	info := &ErrInfo{GoType: fmt.Sprintf("%T", err), Class: "other"}
	switch e := err.(type) {
	case *zerr.RuntimeError:
		info.Class = "runtime"
		info.Code = e.Code
	case *zerr.Signal:
		info.Class = "signal"
		info.Code = int(e.SigType)
	case *value.Exception:
		info.Class = "exception"
	case *zerr.SyntaxError:
		info.Class = "syntax"
		info.Code = e.Code
	case *zerr.IOError:
		info.Class = "io"
		info.Code = e.Code
	}
	func() {
		defer func() { recover() }()
		info.Msg = err.Error()
	}()
	return info
}

// ------------------------------------------------------------------ scope histories (C06)

func doScope(req *Req) (resp Resp) {
	defer func() {
		if p := recover(); p != nil {
			resp = Resp{Kind: "panic", Panic: fmt.Sprintf("%v\n%s", p, trimStack(debug.Stack()))}
		}
	}()
	resp.Kind = "ok"
	sp := r.NewScope()
	for _, op := range req.ScopeOps {
		res := 0 // 0 ok, otherwise error code; for get: value or -1 when undefined
		switch op.Op {
		case "begin":
			sp.BeginScope()
		case "end":
			sp.EndScope()
		case "decl":
			res = codeOf(sp.DeclareValue(op.Name, value.NewNumber(float64(op.V))))
		case "const":
			res = codeOf(sp.DeclareConstValue(op.Name, value.NewNumber(float64(op.V))))
		case "set":
			res = codeOf(sp.SetValue(op.Name, value.NewNumber(float64(op.V))))
		case "get":
			e := sp.GetValue(op.Name)
			if e == nil {
				res = -1
			} else if n, ok := e.(*value.Number); ok {
				res = int(n.GetValue())
			} else {
				res = -2
			}
		}
		resp.Ints = append(resp.Ints, res)
	}
	return
}

func codeOf(err error) int {
	if err == nil {
		return 0
	}
	if re, ok := err.(*zerr.RuntimeError); ok {
		return re.Code
	}
	return -3
}

// ------------------------------------------------------------------ readall (C17)

func doReadAll(req *Req) (resp Resp) {
	defer func() {
		if p := recover(); p != nil {
			resp = Resp{Kind: "panic", Panic: fmt.Sprintf("%v\n%s", p, trimStack(debug.Stack()))}
		}
	}()
	data := []byte(StringOf(req.Data))
	conv := func(rs []rune) []int32 {
		out := make([]int32, len(rs))
		for i, c := range rs {
			out[i] = int32(c)
		}
		return out
	}
	var stream zio.InputStream
	switch req.Mode {
	case "file", "fileN":
		p := filepath.Join(tmpRoot, "readall.zn")
		if err := os.WriteFile(p, data, 0o644); err != nil {
			return Resp{Kind: "panic", Panic: err.Error()}
		}
		fs, err := zio.NewFileStream(p)
		if err != nil {
			return Resp{Kind: "error", Err: errInfoLight(err)}
		}
		stream = fs
	case "path":
		// a file that exists on this machine already (its size as the file system reports it may
		// have nothing to do with what reading it delivers: /proc, /sys): FileStream against a
		// plain read of the same path
		raw, rerr := os.ReadFile(req.Text)
		if rerr != nil {
			return Resp{Kind: "died", Stderr: "cannot read " + req.Text + ": " + rerr.Error()}
		}
		fs, err := zio.NewFileStream(req.Text)
		if err != nil {
			return Resp{Kind: "error", Err: errInfoLight(err)}
		}
		rs, err := fs.ReadAll()
		out := Resp{Kind: "ok", Runes: conv(rs), Chunks: [][]int32{conv([]rune(string(raw)))}, Ints: []int{len(raw)}}
		if err != nil {
			out.Kind = "error"
			out.Err = errInfoLight(err)
		}
		if !utf8.Valid(raw) {
			out.Ints = append(out.Ints, -1)
		}
		return out
	case "fifo", "fifo-exec":
		// the file is a named pipe whose writer delivers the bytes in parts, pausing in between,
		// so that FileStream sees short reads exactly at the given offsets
		p := filepath.Join(tmpRoot, fmt.Sprintf("readall-%d.fifo.zn", os.Getpid()))
		os.Remove(p)
		if err := syscall.Mkfifo(p, 0o600); err != nil {
			return Resp{Kind: "panic", Panic: "mkfifo: " + err.Error()}
		}
		defer os.Remove(p)
		go func() {
			f, err := os.OpenFile(p, os.O_WRONLY, 0)
			if err != nil {
				return
			}
			defer f.Close()
			prev := 0
			for _, cut := range req.Cuts {
				if cut > prev && cut <= len(data) {
					f.Write(data[prev:cut])
					prev = cut
					pause := 12 * time.Millisecond
					if req.N > 0 {
						pause = time.Duration(req.N) * time.Millisecond // many small parts: shorter pauses
					}
					time.Sleep(pause)
				}
			}
			f.Write(data[prev:])
		}()
		if req.Mode == "fifo-exec" {
			resetCapture()
			v, err := exec.NewInterpreter("verif").SetExternalLibs(libs()).LoadFile(p).Execute(r.ElementMap{})
			if err != nil {
				return Resp{Kind: "error", Err: errInfo(err), Display: readCapture()}
			}
			val := toVal(v, 0)
			return Resp{Kind: "value", Val: &val, Display: readCapture()}
		}
		fs, err := zio.NewFileStream(p)
		if err != nil {
			return Resp{Kind: "error", Err: errInfoLight(err)}
		}
		stream = fs
	default:
		stream = zio.NewByteStream(data)
	}
	if req.Mode == "file" || req.Mode == "byte" || req.Mode == "fifo" {
		rs, err := stream.ReadAll()
		if err != nil {
			return Resp{Kind: "error", Err: errInfoLight(err)}
		}
		return Resp{Kind: "ok", Runes: conv(rs)}
	}
	// chunked reads of n bytes until drained (bounded)
	resp.Kind = "ok"
	empties := 0
	for i := 0; i < len(data)+16; i++ {
		rs, err := stream.Read(req.N)
		if err != nil {
			return Resp{Kind: "error", Err: errInfoLight(err), Runes: resp.Runes}
		}
		if len(rs) == 0 {
			empties++
			if empties > 8 {
				break
			}
			continue
		}
		empties = 0
		resp.Runes = append(resp.Runes, conv(rs)...)
	}
	return
}

// ------------------------------------------------------------------ var input (C05 / C10)

func doVarInput(req *Req) (resp Resp) {
	defer func() {
		if p := recover(); p != nil {
			if b, ok := p.(budgetExceeded); ok {
				resp = Resp{Kind: "budget", Panic: b.which}
				return
			}
			resp = Resp{Kind: "panic", Panic: fmt.Sprintf("%v\n%s", p, trimStack(debug.Stack()))}
		}
	}()
	parseTicks, evalTicks = 0, 0
	parseBudget, evalBudget = req.ParseBudget, req.EvalBudget
	defer func() { parseBudget, evalBudget = 0, 0 }()
	m, err := exec.ExecVarInputText(req.Text)
	if err != nil {
		resp = Resp{Kind: "error", Err: errInfoLight(err)}
		func() {
			defer func() {
				if p := recover(); p != nil {
					resp.Err.DisplayPanic = fmt.Sprintf("%v", p)
				}
			}()
			resp.Err.Text = exec.DisplayError(err)
		}()
		// what the compiler alone says about the same text (C05: the syntax error of an
		// input-variable text carries a code and a position like that of a program)
		if runes, rerr := zio.NewByteStream([]byte(req.Text)).ReadAll(); rerr == nil {
			parser := syntax.NewParser(runes, zh.NewParserZH())
			if _, perr := parser.Parse(); perr != nil {
				if se, ok := perr.(*zerr.SyntaxError); ok {
					resp.Batch = []Resp{{Kind: "error", NLines: len(parser.Lines), Ints: []int{parser.FindLineIdx(se.Cursor, 0)}, Err: &ErrInfo{Class: "syntax", Code: se.Code, Cursor: se.Cursor, HasCursor: true, Msg: se.Message}}}
				}
			}
		}
		return resp
	}
	if m == nil {
		return Resp{Kind: "nilnil"}
	}
	resp.Kind = "ok"
	resp.Map = map[string]Val{}
	for k, v := range m {
		resp.Map[k] = toVal(v, 0)
	}
	return
}

func doExprInput(req *Req) (resp Resp) {
	if req.Reps > 1 {
		seen := map[string]int{}
		order := []string{}
		var first Resp
		for i := 0; i < req.Reps; i++ {
			r := exprInputOnce(req)
			o := r.Kind
			if r.Err != nil {
				o += "|" + r.Err.Msg
			}
			for _, k := range SortedKeys(r.Map) {
				o += "|" + k + "=" + r.Map[k].String()
			}
			if _, ok := seen[o]; !ok {
				order = append(order, o)
			}
			seen[o]++
			if i == 0 {
				first = r
			}
		}
		first.RepDistinct = len(seen)
		if len(order) > 1 {
			for _, o := range order {
				first.RepOutcomes = append(first.RepOutcomes, fmt.Sprintf("%dx %s", seen[o], o))
			}
		}
		cm := map[string]int{"a": 1, "b": 2, "c": 3, "d": 4, "e": 5, "f": 6}
		orders := map[string]bool{}
		for i := 0; i < req.Reps; i++ {
			s := ""
			for k := range cm {
				s += k
			}
			orders[s] = true
		}
		first.CanaryOrders = len(orders)
		return first
	}
	return exprInputOnce(req)
}

func exprInputOnce(req *Req) (resp Resp) {
	defer func() {
		if p := recover(); p != nil {
			resp = Resp{Kind: "panic", Panic: fmt.Sprintf("%v\n%s", p, trimStack(debug.Stack()))}
		}
	}()
	in := map[string]string{}
	for i := 0; i+1 < len(req.Strs); i += 2 {
		in[req.Strs[i]] = req.Strs[i+1]
	}
	m, err := exec.ExecExpressionInputText(in)
	if err != nil {
		return Resp{Kind: "error", Err: errInfoLight(err)}
	}
	resp.Kind = "ok"
	resp.Map = map[string]Val{}
	for k, v := range m {
		resp.Map[k] = toVal(v, 0)
	}
	return
}

// doPlayground sends one request through the real playground HTTP handler (pkg/server):
// Text = VarInput, Src = SourceCode. Shared: reuse one handler (and interpreter) for all calls.
var sharedPG *server.ZnPlaygroundHandler

func doPlayground(req *Req) (resp Resp) {
	defer func() {
		if p := recover(); p != nil {
			resp = Resp{Kind: "panic", Panic: fmt.Sprintf("%v\n%s", p, trimStack(debug.Stack()))}
		}
	}()
	resetCapture()
	var h *server.ZnPlaygroundHandler
	if req.Shared {
		if sharedPG == nil {
			sharedPG = server.NewZnPlaygroundHandler(exec.NewInterpreter("verif").SetExternalLibs(libs()))
		}
		h = sharedPG
	} else {
		h = server.NewZnPlaygroundHandler(exec.NewInterpreter("verif").SetExternalLibs(libs()))
	}
	body, _ := json.Marshal(map[string]string{"VarInput": req.Text, "SourceCode": string(srcRunes(req.Src))})
	if len(req.Data) > 0 {
		// the request body as raw bytes (C17: a body that is not valid UTF-8)
		body = []byte(StringOf(req.Data))
	}
	hr := httptest.NewRequest("POST", "/", bytes.NewReader(body))
	w := httptest.NewRecorder()
	h.ServeHTTP(w, hr)
	v := Text(w.Body.String())
	return Resp{Kind: "value", Val: &v, Ints: []int{w.Code}, Display: readCapture()}
}

// doMembers reports the names exported by registered libraries and predefined globals.
func doMembers(req *Req) (resp Resp) {
	resp.Kind = "ok"
	for k := range exec.GlobalValues {
		resp.Strs = append(resp.Strs, "global:"+k)
	}
	for _, lib := range libs() {
		for k := range lib.GetAllExportValues() {
			resp.Strs = append(resp.Strs, "lib:"+lib.GetName()+":"+k)
		}
	}
	return
}
