//go:build verif

package main

import (
	"fmt"
	"strconv"
	"strings"

	"github.com/DemoHn/Zn/pkg/syntax"
)

// dumpProgram renders a *syntax.Program as a canonical S-expression (line numbers
// excluded). Every nil pointer / nil interface is rendered as the atom `nil`, so the
// judge can decide completeness of the tree from the text alone.

type dumper struct{ sb strings.Builder }

func dumpProgram(p *syntax.Program) string {
	d := &dumper{}
	if p == nil {
		return "nil"
	}
	d.sb.WriteString("(prog (imports")
	for _, im := range p.ImportBlock {
		d.sb.WriteString(" ")
		d.importStmt(im)
	}
	d.sb.WriteString(") ")
	d.execBlock(p.ExecBlock)
	d.sb.WriteString(")")
	return d.sb.String()
}

func q(s string) string { return strconv.Quote(s) }

func (d *dumper) id(id *syntax.ID) {
	if id == nil {
		d.sb.WriteString("nil")
		return
	}
	d.sb.WriteString("(id " + q(id.GetLiteral()) + ")")
}

func (d *dumper) importStmt(im *syntax.ImportStmt) {
	if im == nil {
		d.sb.WriteString("nil")
		return
	}
	kind := "custom"
	if im.ImportLibType == syntax.LibTypeStd {
		kind = "std"
	}
	d.sb.WriteString("(import " + kind + " ")
	if im.ImportName == nil {
		d.sb.WriteString("nil")
	} else {
		d.sb.WriteString(q(im.ImportName.GetLiteral()))
	}
	d.sb.WriteString(" (items")
	for _, it := range im.ImportItems {
		d.sb.WriteString(" ")
		d.id(it)
	}
	d.sb.WriteString("))")
}

func (d *dumper) execBlock(b *syntax.ExecBlock) {
	if b == nil {
		d.sb.WriteString("nil")
		return
	}
	d.sb.WriteString("(exec (inputs")
	for _, in := range b.InputBlock {
		d.sb.WriteString(" ")
		d.id(in)
	}
	d.sb.WriteString(") ")
	d.block(b.StmtBlock)
	d.sb.WriteString(" (catches")
	for _, c := range b.CatchBlock {
		d.sb.WriteString(" ")
		if c == nil {
			d.sb.WriteString("nil")
			continue
		}
		d.sb.WriteString("(catch ")
		d.id(c.ExceptionClass)
		d.sb.WriteString(" ")
		d.block(c.StmtBlock)
		d.sb.WriteString(")")
	}
	d.sb.WriteString("))")
}

func (d *dumper) block(b *syntax.StmtBlock) {
	if b == nil {
		d.sb.WriteString("nil")
		return
	}
	d.sb.WriteString("(block")
	for _, s := range b.Children {
		d.sb.WriteString(" ")
		d.stmt(s)
	}
	d.sb.WriteString(")")
}

func (d *dumper) fn(kind string, f *syntax.FunctionDeclareStmt) {
	if f == nil {
		d.sb.WriteString("nil")
		return
	}
	switch f.DeclareType {
	case syntax.DeclareTypeFunc:
		kind = "func"
	case syntax.DeclareTypeGetter:
		kind = "getter"
	case syntax.DeclareTypeConstructor:
		kind = "ctor"
	default:
		kind = fmt.Sprintf("func?%d", f.DeclareType)
	}
	d.sb.WriteString("(" + kind + " ")
	d.id(f.Name)
	d.sb.WriteString(" ")
	d.execBlock(f.ExecBlock)
	d.sb.WriteString(")")
}

func (d *dumper) stmt(s syntax.Statement) {
	if s == nil {
		d.sb.WriteString("nil")
		return
	}
	switch v := s.(type) {
	case *syntax.VarDeclareStmt:
		if v == nil {
			d.sb.WriteString("nil")
			return
		}
		d.sb.WriteString("(let")
		for _, p := range v.AssignPair {
			kind := "var"
			switch p.Type {
			case syntax.VDTypeAssign:
			case syntax.VDTypeAssignConst:
				kind = "const"
			default:
				kind = fmt.Sprintf("kind?%d", p.Type)
			}
			d.sb.WriteString(" (pair " + kind + " (ids")
			for _, id := range p.Variables {
				d.sb.WriteString(" ")
				d.id(id)
			}
			d.sb.WriteString(") ")
			d.expr(p.AssignExpr)
			d.sb.WriteString(")")
		}
		d.sb.WriteString(")")
	case *syntax.EmptyStmt:
		d.sb.WriteString("(empty)")
	case *syntax.BranchStmt:
		if v == nil {
			d.sb.WriteString("nil")
			return
		}
		d.sb.WriteString("(if ")
		d.expr(v.IfTrueExpr)
		d.sb.WriteString(" ")
		d.block(v.IfTrueBlock)
		n := len(v.OtherExprs)
		if len(v.OtherBlocks) > n {
			n = len(v.OtherBlocks)
		}
		for i := 0; i < n; i++ {
			d.sb.WriteString(" (elif ")
			if i < len(v.OtherExprs) {
				d.expr(v.OtherExprs[i])
			} else {
				d.sb.WriteString("nil")
			}
			d.sb.WriteString(" ")
			if i < len(v.OtherBlocks) {
				d.block(v.OtherBlocks[i])
			} else {
				d.sb.WriteString("nil")
			}
			d.sb.WriteString(")")
		}
		if v.HasElse {
			d.sb.WriteString(" (else ")
			d.block(v.IfFalseBlock)
			d.sb.WriteString(")")
		} else if v.IfFalseBlock != nil {
			d.sb.WriteString(" (else-without-flag)")
		}
		d.sb.WriteString(")")
	case *syntax.WhileLoopStmt:
		if v == nil {
			d.sb.WriteString("nil")
			return
		}
		d.sb.WriteString("(while ")
		d.expr(v.TrueExpr)
		d.sb.WriteString(" ")
		d.block(v.LoopBlock)
		d.sb.WriteString(")")
	case *syntax.IterateStmt:
		if v == nil {
			d.sb.WriteString("nil")
			return
		}
		d.sb.WriteString("(iter (ids")
		for _, id := range v.IndexNames {
			d.sb.WriteString(" ")
			d.id(id)
		}
		d.sb.WriteString(") ")
		d.expr(v.IterateExpr)
		d.sb.WriteString(" ")
		d.block(v.IterateBlock)
		d.sb.WriteString(")")
	case *syntax.FunctionDeclareStmt:
		d.fn("func", v)
	case *syntax.FunctionReturnStmt:
		if v == nil {
			d.sb.WriteString("nil")
			return
		}
		d.sb.WriteString("(return ")
		d.expr(v.ReturnExpr)
		d.sb.WriteString(")")
	case *syntax.ClassDeclareStmt:
		if v == nil {
			d.sb.WriteString("nil")
			return
		}
		d.sb.WriteString("(class ")
		d.id(v.ClassName)
		d.sb.WriteString(" (props")
		for _, p := range v.PropertyList {
			if p == nil {
				d.sb.WriteString(" nil")
				continue
			}
			d.sb.WriteString(" (prop ")
			d.id(p.PropertyID)
			d.sb.WriteString(" ")
			d.expr(p.InitValue)
			d.sb.WriteString(")")
		}
		d.sb.WriteString(") (methods")
		for _, m := range v.MethodList {
			d.sb.WriteString(" ")
			d.fn("func", m)
		}
		d.sb.WriteString(") (getters")
		for _, m := range v.GetterList {
			d.sb.WriteString(" ")
			d.fn("getter", m)
		}
		d.sb.WriteString("))")
	case *syntax.ThrowExceptionStmt:
		if v == nil {
			d.sb.WriteString("nil")
			return
		}
		d.sb.WriteString("(throw ")
		d.id(v.ExceptionClass)
		for _, e := range v.Params {
			d.sb.WriteString(" ")
			d.expr(e)
		}
		d.sb.WriteString(")")
	case *syntax.BreakStmt:
		d.sb.WriteString("(break)")
	case *syntax.ContinueStmt:
		d.sb.WriteString("(continue)")
	case *syntax.ImportStmt:
		d.importStmt(v)
	case syntax.Expression:
		d.expr(v)
	default:
		d.sb.WriteString(fmt.Sprintf("(unknown-stmt %T)", s))
	}
}

var logicNames = map[uint8]string{
	syntax.LogicOR: "or", syntax.LogicAND: "and", syntax.LogicEQ: "eq", syntax.LogicNEQ: "neq",
	syntax.LogicGT: "gt", syntax.LogicGTE: "gte", syntax.LogicLT: "lt", syntax.LogicLTE: "lte",
	syntax.LogicXEQ: "xeq", syntax.LogicXNEQ: "xneq",
}
var arithNames = map[uint8]string{
	syntax.ArithAdd: "add", syntax.ArithSub: "sub", syntax.ArithMul: "mul", syntax.ArithDiv: "div",
	syntax.ArithIntDiv: "intdiv", syntax.ArithModulo: "mod",
}

func (d *dumper) call(c *syntax.FuncCallExpr) {
	if c == nil {
		d.sb.WriteString("nil")
		return
	}
	d.sb.WriteString("(call ")
	d.id(c.FuncName)
	d.sb.WriteString(" (args")
	for _, a := range c.Params {
		d.sb.WriteString(" ")
		d.expr(a)
	}
	d.sb.WriteString(")")
	if c.YieldResult != nil {
		d.sb.WriteString(" (yield ")
		d.id(c.YieldResult)
		d.sb.WriteString(")")
	}
	d.sb.WriteString(")")
}

func (d *dumper) expr(e syntax.Expression) {
	if e == nil {
		d.sb.WriteString("nil")
		return
	}
	switch v := e.(type) {
	case *syntax.ID:
		d.id(v)
	case *syntax.String:
		if v == nil {
			d.sb.WriteString("nil")
			return
		}
		d.sb.WriteString("(str " + q(v.GetLiteral()) + ")")
	case *syntax.ArrayExpr:
		if v == nil {
			d.sb.WriteString("nil")
			return
		}
		d.sb.WriteString("(list")
		for _, it := range v.Items {
			d.sb.WriteString(" ")
			d.expr(it)
		}
		d.sb.WriteString(")")
	case *syntax.HashMapExpr:
		if v == nil {
			d.sb.WriteString("nil")
			return
		}
		d.sb.WriteString("(dict")
		for _, kv := range v.KVPair {
			d.sb.WriteString(" (kv ")
			d.expr(kv.Key)
			d.sb.WriteString(" ")
			d.expr(kv.Value)
			d.sb.WriteString(")")
		}
		d.sb.WriteString(")")
	case *syntax.VarAssignExpr:
		if v == nil {
			d.sb.WriteString("nil")
			return
		}
		d.sb.WriteString("(assign ")
		if v.TargetVar == nil {
			d.sb.WriteString("nil")
		} else {
			d.expr(v.TargetVar)
		}
		d.sb.WriteString(" ")
		d.expr(v.AssignExpr)
		d.sb.WriteString(")")
	case *syntax.ObjNewExpr:
		if v == nil {
			d.sb.WriteString("nil")
			return
		}
		d.sb.WriteString("(new ")
		d.id(v.ClassName)
		for _, a := range v.Params {
			d.sb.WriteString(" ")
			d.expr(a)
		}
		d.sb.WriteString(")")
	case *syntax.FuncCallExpr:
		d.call(v)
	case *syntax.MemberExpr:
		if v == nil {
			d.sb.WriteString("nil")
			return
		}
		switch {
		case v.RootType == syntax.RootTypeProp:
			d.sb.WriteString("(thisprop ")
			d.id(v.MemberID)
			d.sb.WriteString(")")
		case v.RootType == syntax.RootTypeExpr && v.MemberType == syntax.MemberID:
			d.sb.WriteString("(member ")
			d.expr(v.Root)
			d.sb.WriteString(" ")
			d.id(v.MemberID)
			d.sb.WriteString(")")
		case v.RootType == syntax.RootTypeExpr && v.MemberType == syntax.MemberIndex:
			d.sb.WriteString("(index ")
			d.expr(v.Root)
			d.sb.WriteString(" ")
			d.expr(v.MemberIndex)
			d.sb.WriteString(")")
		default:
			d.sb.WriteString(fmt.Sprintf("(member?%d/%d nil)", v.RootType, v.MemberType))
		}
	case *syntax.MemberMethodExpr:
		if v == nil {
			d.sb.WriteString("nil")
			return
		}
		d.sb.WriteString("(mcall ")
		d.expr(v.Root)
		d.sb.WriteString(" (chain")
		for _, c := range v.MethodChain {
			d.sb.WriteString(" ")
			d.call(c)
		}
		d.sb.WriteString(")")
		if v.YieldResult != nil {
			d.sb.WriteString(" (yield ")
			d.id(v.YieldResult)
			d.sb.WriteString(")")
		}
		d.sb.WriteString(")")
	case *syntax.LogicExpr:
		if v == nil {
			d.sb.WriteString("nil")
			return
		}
		name, ok := logicNames[v.Type]
		if !ok {
			name = fmt.Sprintf("logic?%d", v.Type)
		}
		d.sb.WriteString("(" + name + " ")
		d.expr(v.LeftExpr)
		d.sb.WriteString(" ")
		d.expr(v.RightExpr)
		d.sb.WriteString(")")
	case *syntax.ArithExpr:
		if v == nil {
			d.sb.WriteString("nil")
			return
		}
		name, ok := arithNames[v.Type]
		if !ok {
			name = fmt.Sprintf("arith?%d", v.Type)
		}
		d.sb.WriteString("(" + name + " ")
		d.expr(v.LeftExpr)
		d.sb.WriteString(" ")
		d.expr(v.RightExpr)
		d.sb.WriteString(")")
	default:
		d.sb.WriteString(fmt.Sprintf("(unknown-expr %T)", e))
	}
}
