#!/bin/bash
# re-runs the quick check of every stored seeded change (seeded/C??[-rN]) with a frozen judge
# usage: seed_recheck_all.sh [tier] > scratch/seed_all.txt
cd "$(dirname "$0")"
export GOFLAGS=-mod=mod GOPROXY=off GOSUMDB=off GOTOOLCHAIN=local
tier=${1:-quick}
mkdir -p scratch
go build -o scratch/zncheck-frozen ./cmd/zncheck || exit 2
for d in $(ls seeded | grep '^C'); do
  JUDGE=$PWD/scratch/zncheck-frozen ./seed_recheck.sh $d $tier
done
