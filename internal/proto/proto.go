// Package proto defines the wire format between the judge (zncheck) and the
// worker (znworker, linked against /repo). It imports nothing from /repo.
package proto

import (
	"fmt"
	"math"
	"sort"
	"strings"
)

// Val is a tagged, lossless representation of a Zn value.
type Val struct {
	T     string    `json:"t"` // num text bool null list dict object type method exception govalue nil other
	Bits  uint64    `json:"bits,omitempty"`
	R     []int32   `json:"r,omitempty"` // text as runes of bytes? no: text as raw bytes widened (lossless for invalid UTF-8)
	B     bool      `json:"b,omitempty"`
	Items []Val     `json:"items,omitempty"`
	KeysR [][]int32 `json:"keysr,omitempty"`
	Name  string    `json:"name,omitempty"` // class name of object / type
	Str   string    `json:"str,omitempty"`  // String() of the element (display form)
}

func Num(f float64) Val { return Val{T: "num", Bits: math.Float64bits(f)} }
func Bool(b bool) Val   { return Val{T: "bool", B: b} }
func Null() Val         { return Val{T: "null"} }
func Text(s string) Val { return Val{T: "text", R: BytesOf(s)} }
func List(items ...Val) Val {
	if items == nil {
		items = []Val{}
	}
	return Val{T: "list", Items: items}
}
func Dict(keys []string, vals []Val) Val {
	kr := make([][]int32, len(keys))
	for i, k := range keys {
		kr[i] = BytesOf(k)
	}
	if vals == nil {
		vals = []Val{}
	}
	return Val{T: "dict", KeysR: kr, Items: vals}
}

// BytesOf widens the bytes of s (lossless whatever the encoding).
func BytesOf(s string) []int32 {
	out := make([]int32, len(s))
	for i := 0; i < len(s); i++ {
		out[i] = int32(s[i])
	}
	return out
}

func StringOf(b []int32) string {
	out := make([]byte, len(b))
	for i, x := range b {
		out[i] = byte(x)
	}
	return string(out)
}

func (v Val) F() float64       { return math.Float64frombits(v.Bits) }
func (v Val) S() string        { return StringOf(v.R) }
func (v Val) Key(i int) string { return StringOf(v.KeysR[i]) }

// Equal is structural equality; NaNs are all equal, +0 and -0 differ.
func Equal(a, b Val) bool {
	if a.T != b.T {
		return false
	}
	switch a.T {
	case "num":
		fa, fb := a.F(), b.F()
		if math.IsNaN(fa) || math.IsNaN(fb) {
			return math.IsNaN(fa) && math.IsNaN(fb)
		}
		return a.Bits == b.Bits
	case "text":
		return a.S() == b.S()
	case "bool":
		return a.B == b.B
	case "list":
		if len(a.Items) != len(b.Items) {
			return false
		}
		for i := range a.Items {
			if !Equal(a.Items[i], b.Items[i]) {
				return false
			}
		}
		return true
	case "dict":
		if len(a.Items) != len(b.Items) || len(a.KeysR) != len(b.KeysR) {
			return false
		}
		for i := range a.Items {
			if a.Key(i) != b.Key(i) || !Equal(a.Items[i], b.Items[i]) {
				return false
			}
		}
		return true
	case "object", "type":
		return a.Name == b.Name
	}
	return true
}

// EqualUnordered is like Equal but dictionaries are compared as key->value maps.
func EqualUnordered(a, b Val) bool {
	if a.T != b.T {
		return false
	}
	switch a.T {
	case "list":
		if len(a.Items) != len(b.Items) {
			return false
		}
		for i := range a.Items {
			if !EqualUnordered(a.Items[i], b.Items[i]) {
				return false
			}
		}
		return true
	case "dict":
		if len(a.Items) != len(b.Items) {
			return false
		}
		m := map[string]Val{}
		for i := range a.Items {
			m[a.Key(i)] = a.Items[i]
		}
		for i := range b.Items {
			x, ok := m[b.Key(i)]
			if !ok || !EqualUnordered(x, b.Items[i]) {
				return false
			}
		}
		return true
	}
	return Equal(a, b)
}

func (v Val) String() string {
	switch v.T {
	case "num":
		return fmt.Sprintf("num(%v)", v.F())
	case "text":
		return fmt.Sprintf("text(%q)", v.S())
	case "bool":
		return fmt.Sprintf("bool(%v)", v.B)
	case "null":
		return "null"
	case "list":
		parts := []string{}
		for _, it := range v.Items {
			parts = append(parts, it.String())
		}
		return "list[" + strings.Join(parts, ",") + "]"
	case "dict":
		parts := []string{}
		for i, it := range v.Items {
			parts = append(parts, fmt.Sprintf("%q=%s", v.Key(i), it.String()))
		}
		return "dict[" + strings.Join(parts, ",") + "]"
	}
	return v.T + "(" + v.Name + ")"
}

// ---------------------------------------------------------------- requests

type File struct {
	Path string  `json:"path"`
	Data []int32 `json:"data"` // bytes widened
}

// Req is one command for the worker.
type Req struct {
	ID int    `json:"id"`
	Op string `json:"op"`

	// exec / parse / tokens / varinput
	Src         []int32        `json:"src,omitempty"`    // source as runes
	Inputs      map[string]Val `json:"inputs,omitempty"` // input variables
	Files       []File         `json:"files,omitempty"`  // module files (exec with Main)
	Main        string         `json:"main,omitempty"`   // relative path of the main file inside Files
	Libs        bool           `json:"libs,omitempty"`   // register @JSON, @文件 and the synthetic library
	Reps        int            `json:"reps,omitempty"`   // repeat execution N times (C11)
	EvalBudget  int            `json:"evalBudget,omitempty"`
	ParseBudget int            `json:"parseBudget,omitempty"`
	Shared      bool           `json:"shared,omitempty"` // seq: share one Interpreter
	Dir         string         `json:"dir,omitempty"`    // exec with Main: a named directory that later requests of the same process reuse (files are replaced)
	Mtime       int64          `json:"mtime,omitempty"`  // with Dir: modification time (unix seconds) given to every file written

	// batch forms
	Batch []Req    `json:"batch,omitempty"` // op=batch or seq
	Strs  []string `json:"strs,omitempty"`  // idmatch
	Text  string   `json:"text,omitempty"`

	// api histories (C10 / C12)
	Recv  *Val   `json:"recv,omitempty"`
	Steps []Step `json:"steps,omitempty"`

	// scope histories (C06)
	ScopeOps []ScopeOp `json:"scopeOps,omitempty"`

	// readall (C17)
	Data []int32 `json:"data,omitempty"`
	Mode string  `json:"mode,omitempty"`
	N    int     `json:"n,omitempty"`
	Cuts []int   `json:"cuts,omitempty"` // readall mode "fifo": byte offsets at which the writer pauses (each part arrives as its own read)
}

type Step struct {
	Kind   string `json:"k"` // get set call new index indexset
	Name   string `json:"n,omitempty"`
	Args   []Val  `json:"a,omitempty"`
	Target int    `json:"tg,omitempty"` // receiver selector: 0 = Recv
}

type ScopeOp struct {
	Op   string `json:"op"` // begin end decl const set get
	Name string `json:"n,omitempty"`
	V    int    `json:"v,omitempty"`
}

// ---------------------------------------------------------------- responses

type ErrInfo struct {
	Class        string `json:"class"` // syntax runtime io other
	Code         int    `json:"code"`
	Msg          string `json:"msg"`
	Text         string `json:"text"`   // exec.DisplayError(err)
	GoType       string `json:"gotype"` // dynamic Go type of the (inner) error
	Cursor       int    `json:"cursor"`
	HasCursor    bool   `json:"hasCursor,omitempty"`
	DisplayPanic string `json:"displayPanic,omitempty"`
}

type Tok struct {
	Type  int     `json:"ty"`
	Lit   []int32 `json:"lit,omitempty"`
	Start int     `json:"s"`
	End   int     `json:"e"`
}

type StepRes struct {
	Kind    string   `json:"k"` // ok err panic nil
	Val     *Val     `json:"v,omitempty"`
	Err     *ErrInfo `json:"err,omitempty"`
	Panic   string   `json:"panic,omitempty"`
	State   *Val     `json:"st,omitempty"` // receiver after the step
	OrderOK bool     `json:"orderOK,omitempty"`
}

type IDRes struct {
	Kind  string `json:"k"` // num name err panic
	Bits  uint64 `json:"bits,omitempty"`
	Panic string `json:"panic,omitempty"`
}

type Resp struct {
	ID         int               `json:"id"`
	Kind       string            `json:"kind"` // value error panic budget nilnil ok died timeout
	Val        *Val              `json:"val,omitempty"`
	Display    string            `json:"display,omitempty"`
	Err        *ErrInfo          `json:"err,omitempty"`
	Panic      string            `json:"panic,omitempty"`
	EvalTicks  int               `json:"evalTicks,omitempty"`
	ParseTicks int               `json:"parseTicks,omitempty"`
	CallStack  int               `json:"callStack,omitempty"`
	EvalDepth  int               `json:"evalDepth,omitempty"` // evaluation nesting depth still counted after the run (hook H3b)
	Scopes     map[string][2]int `json:"scopes,omitempty"`
	VMs        int               `json:"vms,omitempty"`

	Dump         string         `json:"dump,omitempty"` // parse: canonical s-expression
	NLines       int            `json:"nlines,omitempty"`
	LexFailed   bool           `json:"lex_failed,omitempty"` // parse succeeded although the lexer alone fails on the same text (C05)
	LexMsg      string         `json:"lex_msg,omitempty"`
	Toks         []Tok          `json:"toks,omitempty"`
	IDs          []IDRes        `json:"ids,omitempty"`
	Steps        []StepRes      `json:"steps,omitempty"`
	Batch        []Resp         `json:"batch,omitempty"`
	Runes        []int32        `json:"runes,omitempty"`
	Chunks       [][]int32      `json:"chunks,omitempty"`
	Table        [][2]int32     `json:"table,omitempty"`
	Ranges       [][2]int32     `json:"ranges,omitempty"`
	Ints         []int          `json:"ints,omitempty"`
	Map          map[string]Val `json:"map,omitempty"`
	Strs         []string       `json:"strs,omitempty"`
	RepDistinct  int            `json:"repDistinct,omitempty"`
	RepOutcomes  []string       `json:"repOutcomes,omitempty"`
	CanaryOrders int            `json:"canaryOrders,omitempty"`
	Stderr       string         `json:"stderr,omitempty"`
	PeakRSSMB    int            `json:"peakRssMb,omitempty"` // largest resident set of the worker process so far (memory monitor)
}

// Outcome is a compact comparable summary of an exec response (used for repetition
// and isolation comparisons).
func (r Resp) Outcome() string {
	var sb strings.Builder
	sb.WriteString(r.Kind)
	sb.WriteString("|")
	if r.Val != nil {
		sb.WriteString(r.Val.String())
	}
	sb.WriteString("|")
	sb.WriteString(r.Display)
	sb.WriteString("|")
	if r.Err != nil {
		sb.WriteString(fmt.Sprintf("%s/%d/%s/%s", r.Err.Class, r.Err.Code, r.Err.Msg, r.Err.Text))
	}
	if r.Panic != "" {
		sb.WriteString("|panic:" + r.Panic)
	}
	for _, k := range SortedKeys(r.Map) {
		sb.WriteString("|" + k + "=" + r.Map[k].String())
	}
	if len(r.Ints) > 0 {
		sb.WriteString(fmt.Sprint("|", r.Ints))
	}
	return sb.String()
}

func Runes(s string) []int32 {
	rs := []rune(s)
	out := make([]int32, len(rs))
	for i, r := range rs {
		out[i] = int32(r)
	}
	return out
}

func RunesToString(r []int32) string {
	out := make([]rune, len(r))
	for i, x := range r {
		out[i] = rune(x)
	}
	return string(out)
}

func SortedKeys[V any](m map[string]V) []string {
	ks := make([]string, 0, len(m))
	for k := range m {
		ks = append(ks, k)
	}
	sort.Strings(ks)
	return ks
}
