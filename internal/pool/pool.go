// Package pool runs znworker child processes and feeds them requests. Every request is
// journalled to disk before it is sent so that a crash can be attributed.
package pool

import (
	"bufio"
	"bytes"
	"encoding/json"
	"fmt"
	"os"
	"os/exec"
	"path/filepath"
	"sync"
	"sync/atomic"
	"time"

	. "verif/internal/proto"
)

type worker struct {
	idx    int
	cmd    *exec.Cmd
	in     *bufio.Writer
	out    *json.Decoder
	stderr *bytes.Buffer
	closer func()
}

type Pool struct {
	Bin     string
	Dir     string // scratch dir for journals
	N       int
	Timeout time.Duration
	Env     []string

	mu          sync.Mutex
	idle        chan *worker
	all         []*worker
	nextID      int64
	Deaths      int64
	SlowRetries int64 // cases that hit the watchdog in a batch and completed when re-run alone
	Timeouts    int64
	Requests    int64
	PeakRSSMB   int64 // largest resident set any worker reported
	LongRetry   bool  // checks with genuinely heavy inputs: a case that hits the 20 s watchdog alone is run once more with 5 minutes
}

func New(bin, dir string, n int) *Pool {
	p := &Pool{Bin: bin, Dir: dir, N: n, Timeout: 60 * time.Second}
	p.idle = make(chan *worker, n)
	for i := 0; i < n; i++ {
		p.idle <- &worker{idx: i}
	}
	return p
}

func (p *Pool) start(w *worker) error {
	cmd := exec.Command(p.Bin)
	cmd.Dir = p.Dir // sandbox: relative paths used by library functions land in the scratch dir
	cmd.Env = append(os.Environ(), p.Env...)
	cmd.Env = append(cmd.Env, "TMPDIR="+p.Dir)
	stdin, err := cmd.StdinPipe()
	if err != nil {
		return err
	}
	stdout, err := cmd.StdoutPipe()
	if err != nil {
		return err
	}
	w.stderr = &bytes.Buffer{}
	cmd.Stderr = w.stderr
	if err := cmd.Start(); err != nil {
		return err
	}
	w.cmd = cmd
	w.in = bufio.NewWriterSize(stdin, 1<<20)
	w.out = json.NewDecoder(bufio.NewReaderSize(stdout, 1<<20))
	w.closer = func() { stdin.Close() }
	return nil
}

func (p *Pool) kill(w *worker) {
	if w.cmd != nil {
		if w.cmd.Process != nil {
			w.cmd.Process.Kill()
		}
		w.cmd.Wait()
		w.cmd = nil
	}
}

func tail(b *bytes.Buffer, n int) string {
	if b == nil {
		return ""
	}
	s := b.String()
	if len(s) > n {
		// keep head (the fatal error message) and tail
		return s[:n/2] + "\n...\n" + s[len(s)-n/2:]
	}
	return s
}

// Do sends one request and waits for the response. A worker that dies or times out is
// replaced; the response then has Kind "died" or "timeout".
func (p *Pool) Do(req Req) Resp {
	return p.DoT(req, p.Timeout)
}

func (p *Pool) DoT(req Req, timeout time.Duration) Resp {
	w := <-p.idle
	defer func() { p.idle <- w }()
	atomic.AddInt64(&p.Requests, 1)
	req.ID = int(atomic.AddInt64(&p.nextID, 1))
	if w.cmd == nil {
		if err := p.start(w); err != nil {
			return Resp{ID: req.ID, Kind: "died", Stderr: "cannot start worker: " + err.Error()}
		}
	}
	data, err := json.Marshal(req)
	if err != nil {
		return Resp{ID: req.ID, Kind: "died", Stderr: "marshal: " + err.Error()}
	}
	// journal before sending
	os.WriteFile(filepath.Join(p.Dir, fmt.Sprintf("journal-%d.json", w.idx)), data, 0o644)

	type result struct {
		resp Resp
		err  error
	}
	ch := make(chan result, 1)
	go func() {
		w.in.Write(data)
		w.in.WriteByte('\n')
		if err := w.in.Flush(); err != nil {
			ch <- result{err: err}
			return
		}
		var resp Resp
		err := w.out.Decode(&resp)
		ch <- result{resp: resp, err: err}
	}()
	select {
	case r := <-ch:
		if r.err != nil {
			atomic.AddInt64(&p.Deaths, 1)
			// collect exit state
			if w.cmd != nil {
				done := make(chan struct{})
				go func() { w.cmd.Wait(); close(done) }()
				select {
				case <-done:
				case <-time.After(5 * time.Second):
					w.cmd.Process.Kill()
					<-done
				}
			}
			st := ""
			if w.cmd != nil && w.cmd.ProcessState != nil {
				st = w.cmd.ProcessState.String()
			}
			se := tail(w.stderr, 3000)
			w.cmd = nil
			return Resp{ID: req.ID, Kind: "died", Stderr: st + "\n" + se}
		}
		for {
			cur := atomic.LoadInt64(&p.PeakRSSMB)
			if int64(r.resp.PeakRSSMB) <= cur || atomic.CompareAndSwapInt64(&p.PeakRSSMB, cur, int64(r.resp.PeakRSSMB)) {
				break
			}
		}
		return r.resp
	case <-time.After(timeout):
		atomic.AddInt64(&p.Timeouts, 1)
		p.kill(w)
		return Resp{ID: req.ID, Kind: "timeout"}
	}
}

// DoFresh runs one request in a brand-new worker process that is discarded afterwards.
func (p *Pool) DoFresh(req Req) Resp {
	w := &worker{idx: 1000 + int(atomic.AddInt64(&p.nextID, 1))}
	if err := p.start(w); err != nil {
		return Resp{Kind: "died", Stderr: err.Error()}
	}
	defer p.kill(w)
	data, err := json.Marshal(req)
	if err != nil {
		return Resp{Kind: "died", Stderr: err.Error()}
	}
	ch := make(chan Resp, 1)
	go func() {
		w.in.Write(data)
		w.in.WriteByte('\n')
		w.in.Flush()
		var resp Resp
		if err := w.out.Decode(&resp); err != nil {
			ch <- Resp{Kind: "died", Stderr: err.Error() + "\n" + tail(w.stderr, 2000)}
			return
		}
		ch <- resp
	}()
	select {
	case r := <-ch:
		return r
	case <-time.After(p.Timeout):
		return Resp{Kind: "timeout"}
	}
}

// Batch sends the sub-requests as one "batch" command. If the worker dies or times out,
// every sub-request is re-run alone so that the culprit is identified; innocent cases get
// their real responses.
func (p *Pool) Batch(reqs []Req) []Resp {
	if len(reqs) == 0 {
		return nil
	}
	for i := range reqs {
		reqs[i].ID = i
	}
	resp := p.Do(Req{Op: "batch", Batch: reqs})
	if resp.Kind == "ok" && len(resp.Batch) == len(reqs) {
		return resp.Batch
	}
	out := make([]Resp, len(reqs))
	for i := range reqs {
		out[i] = p.DoT(reqs[i], 20*time.Second)
		if out[i].Kind == "timeout" && p.LongRetry {
			// the watchdog is wall clock: on a loaded machine a heavy case can simply be slow.
			// Run it alone once more with a generous budget; only a case that does not come
			// back within that either is reported as a timeout (logical hangs are caught by
			// the tick budgets long before)
			again := p.DoT(reqs[i], 5*time.Minute)
			if again.Kind != "timeout" {
				atomic.AddInt64(&p.SlowRetries, 1)
				out[i] = again
			}
		} else if out[i].Kind == "died" {
			// confirm alone once more
			again := p.DoT(reqs[i], 30*time.Second)
			if again.Kind != out[i].Kind {
				out[i] = Resp{Kind: "flaky", Stderr: "first: " + out[i].Kind + " " + out[i].Stderr + " / second: " + again.Kind}
			}
		}
	}
	return out
}

// Map runs f over n items with the pool's parallelism (f typically builds a batch and calls Batch).
func (p *Pool) Map(n int, f func(i int)) {
	var wg sync.WaitGroup
	sem := make(chan struct{}, p.N)
	for i := 0; i < n; i++ {
		wg.Add(1)
		sem <- struct{}{}
		go func(i int) {
			defer wg.Done()
			defer func() { <-sem }()
			f(i)
		}(i)
	}
	wg.Wait()
}

func (p *Pool) Close() {
	for i := 0; i < p.N; i++ {
		w := <-p.idle
		if w.cmd != nil {
			w.closer()
			done := make(chan struct{})
			go func() { w.cmd.Wait(); close(done) }()
			select {
			case <-done:
			case <-time.After(3 * time.Second):
				w.cmd.Process.Kill()
				<-done
			}
		}
	}
}
