package znref

import (
	"fmt"
	"math"
	"strconv"
	"strings"
)

// ---------------------------------------------------------------- values

type Value interface{}

type VNum float64
type VStr string
type VBool bool
type VNull struct{}
type VList struct{ Items []Value }
type VDict struct {
	Keys []string
	M    map[string]Value
}
type VObj struct {
	Class *VClass
	Props map[string]Value
	ID    int
}
type VClass struct {
	Name      string
	Def       *ClassDef
	Ctor      *FuncDef
	CtorScope *scope
	Scope     *scope
	Module    *Module
	Builtin   string // "异常" for the predefined exception type
	Defaults  map[string]Value
	PropOrder []string
}
type VFunc struct {
	Def     *FuncDef
	Module  *Module
	Scope   *scope
	Builtin string // 显示 取随机数 …
}
type VExc struct {
	Msg    string
	Opaque bool // raised by a runtime fault: the message text is not specified
} // instance of the predefined 异常

// ---------------------------------------------------------------- outcomes

// ZErr is a Zn error (not catchable syntax/semantic ones are marked Fatal).
type ZErr struct {
	Code int    // 0 when the property does not fix a code
	Kind string // name-undefined, redeclared, const-assign, div-zero, type, index, key, arity, member, method, module-missing, lib-missing, cycle, input-missing, format, …
	Msg  string
	Line int
}

func (e *ZErr) Error() string { return fmt.Sprintf("zerr[%d/%s] %s", e.Code, e.Kind, e.Msg) }

// Thrown is a raised exception travelling up the stack.
type Thrown struct {
	Val   Value // *VExc or *VObj
	Frames []Frame
	FromErr *ZErr // set when the exception stems from a runtime fault
}

func (t *Thrown) Error() string { return "thrown" }

// Unspec marks behaviour that the manual / property statements leave open.
type Unspec struct{ Why string }

func (u *Unspec) Error() string { return "unspecified: " + u.Why }

type ctl struct{ kind string } // break / continue

func (c *ctl) Error() string { return c.kind }

// ---------------------------------------------------------------- environment

type binding struct {
	v     Value
	konst bool
	kind  string // var const input yield func class import loop param
	owner int    // frame id that declared it
}

type scope struct {
	vars   map[string]*binding
	parent *scope
	frame  int
	kind   string // block, body, module
}

type Frame struct {
	Module string
	Line   int
	Kind   string // script, call, handler
}

type Module struct {
	Name    string
	Prog    *Program
	Exports map[string]Value
	Root    *scope
	Done    bool
	Running bool
	ExportOrder []string
}

type Interp struct {
	Display []string
	Steps   int
	MaxSteps int
	Inputs  map[string]Value
	Files   map[string]*Program // module name -> program (C15)
	Libs    map[string]map[string]Value
	modules map[string]*Module
	frames  []frameState
	nextFrame int
	nextObj int
	MaxDepth int
	depth    int
	// options
	Strict bool
	LoadOrder []string
	live      []*scope
	iterating []Value
	faultFrames []Frame
}

type frameState struct {
	id     int
	this   Value
	module *Module
	ret    Value
	hasRet bool
	kind   string
	line   int
}

func NewInterp() *Interp {
	return &Interp{MaxSteps: 200000, modules: map[string]*Module{}, MaxDepth: 3000}
}

var Predefined = []string{"真", "假", "空", "异常", "显示", "取随机数", "数值"}

func isPredefined(n string) bool {
	for _, p := range Predefined {
		if p == n {
			return true
		}
	}
	return false
}

// ---------------------------------------------------------------- display

func FormatNum(f float64) string {
	if math.IsInf(f, 1) {
		return "+Inf"
	}
	if math.IsInf(f, -1) {
		return "-Inf"
	}
	if math.IsNaN(f) {
		return "NaN"
	}
	return strconv.FormatFloat(f, 'g', -1, 64)
}

func DisplayStr(v Value) string {
	switch x := v.(type) {
	case VNum:
		return FormatNum(float64(x))
	case VStr:
		return string(x)
	case VBool:
		if x {
			return "真"
		}
		return "假"
	case VNull:
		return "空"
	case *VList:
		parts := []string{}
		for _, it := range x.Items {
			parts = append(parts, DisplayStr(it))
		}
		return "[" + strings.Join(parts, "，") + "]"
	case *VDict:
		parts := []string{}
		for _, k := range x.Keys {
			parts = append(parts, k+"="+DisplayStr(x.M[k]))
		}
		return "[" + strings.Join(parts, "，") + "]"
	case *VObj:
		return "‹对象·" + x.Class.Name + "›"
	case *VClass:
		return "‹类型·" + x.Name + "›"
	case *VFunc:
		return "‹某方法›"
	case *VExc:
		return "‹异常·" + x.Msg + "›"
	}
	return "?"
}

func DeepCopy(v Value) Value {
	switch x := v.(type) {
	case *VList:
		n := &VList{Items: make([]Value, len(x.Items))}
		for i, it := range x.Items {
			n.Items[i] = DeepCopy(it)
		}
		return n
	case *VDict:
		n := &VDict{Keys: append([]string{}, x.Keys...), M: map[string]Value{}}
		for k, it := range x.M {
			n.M[k] = DeepCopy(it)
		}
		return n
	}
	return v
}

func NewDict() *VDict { return &VDict{M: map[string]Value{}} }

func (d *VDict) Set(k string, v Value) {
	if _, ok := d.M[k]; !ok {
		d.Keys = append(d.Keys, k)
	}
	d.M[k] = v
}

func (d *VDict) Del(k string) {
	if _, ok := d.M[k]; !ok {
		return
	}
	delete(d.M, k)
	for i, kk := range d.Keys {
		if kk == k {
			d.Keys = append(d.Keys[:i:i], d.Keys[i+1:]...)
			break
		}
	}
}

// StructEq: structural equality on plain values (A2). ok=false when a non-plain value is involved.
func StructEq(a, b Value) (eq bool, plain bool) {
	switch x := a.(type) {
	case VNum:
		y, ok := b.(VNum)
		if !ok {
			return false, isPlain(b)
		}
		return float64(x) == float64(y), true
	case VStr:
		y, ok := b.(VStr)
		if !ok {
			return false, isPlain(b)
		}
		return x == y, true
	case VBool:
		y, ok := b.(VBool)
		if !ok {
			return false, isPlain(b)
		}
		return x == y, true
	case VNull:
		_, ok := b.(VNull)
		if !ok {
			return false, isPlain(b)
		}
		return true, true
	case *VList:
		y, ok := b.(*VList)
		if !ok {
			return false, isPlain(b) && isPlain(a)
		}
		if !isPlain(a) || !isPlain(b) {
			return false, false
		}
		if len(x.Items) != len(y.Items) {
			return false, true
		}
		for i := range x.Items {
			e, _ := StructEq(x.Items[i], y.Items[i])
			if !e {
				return false, true
			}
		}
		return true, true
	case *VDict:
		y, ok := b.(*VDict)
		if !ok {
			return false, isPlain(b) && isPlain(a)
		}
		if !isPlain(a) || !isPlain(b) {
			return false, false
		}
		if len(x.M) != len(y.M) {
			return false, true
		}
		for k, xv := range x.M {
			yv, ok := y.M[k]
			if !ok {
				return false, true
			}
			e, _ := StructEq(xv, yv)
			if !e {
				return false, true
			}
		}
		return true, true
	}
	return false, false
}

func isPlain(v Value) bool {
	switch x := v.(type) {
	case VNum, VStr, VBool, VNull:
		return true
	case *VList:
		for _, it := range x.Items {
			if !isPlain(it) {
				return false
			}
		}
		return true
	case *VDict:
		for _, it := range x.M {
			if !isPlain(it) {
				return false
			}
		}
		return true
	}
	return false
}

// ---------------------------------------------------------------- running a program

type Result struct {
	Val     Value
	Err     error // *ZErr, *Thrown (uncaught), *Unspec
	Display []string
	Steps   int
	Frames  []Frame // call chain at the fault (outermost first), for C18
	ValueUnspec bool // the result value itself is not specified (e.g. last statement is not an expression)
}

func (ip *Interp) Run(p *Program) (res Result) {
	defer func() {
		if r := recover(); r != nil {
			if u, ok := r.(*Unspec); ok {
				res = Result{Err: u, Display: ip.Display, Steps: ip.Steps}
				return
			}
			panic(r)
		}
	}()
	m := &Module{Name: "主模块", Prog: p, Exports: map[string]Value{}}
	ip.modules[""] = m
	v, unspecVal, err := ip.runModule(m, true)
	res = Result{Val: v, Err: err, Display: ip.Display, Steps: ip.Steps, ValueUnspec: unspecVal}
	if t, ok := err.(*Thrown); ok {
		res.Frames = t.Frames
	}
	if z, ok := err.(*ZErr); ok && z != nil {
		res.Frames = ip.faultFrames
	}
	return
}

func (ip *Interp) tick() {
	ip.Steps++
	if ip.Steps > ip.MaxSteps {
		panic(&Unspec{"reference step budget exceeded"})
	}
}

func (ip *Interp) cur() *frameState { return &ip.frames[len(ip.frames)-1] }

func (ip *Interp) push(kind string, m *Module, this Value) *frameState {
	ip.nextFrame++
	ip.frames = append(ip.frames, frameState{id: ip.nextFrame, module: m, this: this, kind: kind})
	if len(ip.frames) > ip.MaxDepth {
		panic(&Unspec{"reference recursion depth exceeded"})
	}
	return ip.cur()
}

func (ip *Interp) pop() { ip.frames = ip.frames[:len(ip.frames)-1] }

func (ip *Interp) snapshotFrames() []Frame {
	out := []Frame{}
	for _, f := range ip.frames {
		out = append(out, Frame{Module: f.module.Name, Line: f.line, Kind: f.kind})
	}
	return out
}

// runModule executes a module body: imports, inputs, definitions, statements, handlers.
func (ip *Interp) runModule(m *Module, isMain bool) (Value, bool, error) {
	m.Running = true
	fr := ip.push("script", m, nil)
	_ = fr
	defer ip.pop()
	root := &scope{vars: map[string]*binding{}, frame: ip.cur().id, kind: "module"}
	m.Root = root
	for _, im := range m.Prog.Imports {
		if err := ip.doImport(m, root, im); err != nil {
			m.Running = false
			return nil, false, err
		}
	}
	var params []Value
	if isMain {
		for _, in := range m.Prog.Inputs {
			v, ok := ip.Inputs[in]
			if !ok {
				return nil, false, ip.fault(&ZErr{Kind: "input-missing", Msg: in})
			}
			params = append(params, v)
		}
	} else if len(m.Prog.Inputs) > 0 {
		panic(&Unspec{"imported module with inputs"})
	}
	fd := &FuncDef{Params: m.Prog.Inputs, Body: m.Prog.Body, Catches: m.Prog.Catches}
	v, unspecVal, err := ip.execBody(fd, root, params, m, true)
	m.Running = false
	m.Done = true
	return v, unspecVal, err
}

func (ip *Interp) fault(e *ZErr) *ZErr {
	ip.faultFrames = ip.snapshotFrames()
	return e
}
