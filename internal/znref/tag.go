package znref

// TagProgram returns a copy of p in which every statement (at every nesting level, also in
// method bodies, type methods and handlers) is wrapped in Tagged with a unique ID.
func TagProgram(p *Program, next *int) *Program {
	q := *p
	q.Body = tagBlock(p.Body, next)
	q.Catches = tagCatches(p.Catches, next)
	return &q
}

func tagCatches(cs []Catch, next *int) []Catch {
	out := []Catch{}
	for _, c := range cs {
		out = append(out, Catch{Class: c.Class, Body: tagBlock(c.Body, next)})
	}
	return out
}

func tagFunc(f *FuncDef, next *int) *FuncDef {
	g := *f
	g.Body = tagBlock(f.Body, next)
	g.Catches = tagCatches(f.Catches, next)
	return &g
}

func tagBlock(stmts []Stmt, next *int) []Stmt {
	out := []Stmt{}
	for _, s := range stmts {
		*next++
		id := *next
		var inner Stmt
		switch v := s.(type) {
		case If:
			w := v
			w.Then = tagBlock(v.Then, next)
			w.Elifs = nil
			for _, e := range v.Elifs {
				w.Elifs = append(w.Elifs, Elif{Cond: e.Cond, Body: tagBlock(e.Body, next)})
			}
			w.Else = tagBlock(v.Else, next)
			inner = w
		case While:
			w := v
			w.Body = tagBlock(v.Body, next)
			inner = w
		case Iter:
			w := v
			w.Body = tagBlock(v.Body, next)
			inner = w
		case *FuncDef:
			inner = tagFunc(v, next)
		case FuncDef:
			inner = tagFunc(&v, next)
		case ClassDef:
			w := v
			w.Methods = nil
			for _, m := range v.Methods {
				w.Methods = append(w.Methods, tagFunc(m, next))
			}
			inner = w
		case *ClassDef:
			w := *v
			w.Methods = nil
			for _, m := range v.Methods {
				w.Methods = append(w.Methods, tagFunc(m, next))
			}
			inner = w
		case Tagged:
			out = append(out, v)
			continue
		default:
			inner = s
		}
		out = append(out, Tagged{ID: id, S: inner})
	}
	return out
}
