package znref

import (
	"math/rand"
	"strings"
)

// Layout selects among the synonymous spellings and layout freedoms the manual licenses.
// The zero value is the canonical layout (TAB indent, LF, Chinese punctuation, symbols).
type Layout struct {
	Rng        *rand.Rand // nil: canonical, deterministic
	Indent     string     // "\t" (default) or "    "
	EOL        string     // "\n" (default), "\r", "\r\n", "\n\r"
	AssignWord int        // 0 '=', 1 '设为', 2 random per occurrence
	Dot        int        // 0 之, 1 的, 2 random
	CmpWords   int        // 0 symbols, 1 keywords, 2 random
	ASCII      int        // 0 Chinese punctuation, 1 ASCII, 2 random per occurrence
	Comments   bool       // sprinkle comments
	OptComma   bool       // optional commas (before 且/或/得到)
	TightKW    bool       // no blanks around keyword operators where tokens cannot fuse
	Breaks     bool       // line breaks after ， 、 【 ： inside brackets
	Semis      bool       // ；between simple statements of one block
	ExtraSpace bool
	BlankLines bool
	Quotes     bool // text literals in expressions are written with any of the three documented quote pairs (“ ” / 「 」 / 《 》)
	RawBreaks  bool // a line break inside a text value is written as a real line break of the file (multi-line literal) when it equals the file's EOL
}

func RandomLayout(r *rand.Rand) Layout {
	l := Layout{Rng: r}
	if r.Intn(2) == 0 {
		l.Indent = "    "
	}
	l.EOL = []string{"\n", "\n", "\r", "\r\n", "\n\r"}[r.Intn(5)]
	l.AssignWord = r.Intn(3)
	l.Dot = r.Intn(3)
	l.CmpWords = r.Intn(3)
	l.ASCII = r.Intn(3)
	l.Comments = r.Intn(2) == 0
	l.OptComma = r.Intn(2) == 0
	l.TightKW = r.Intn(2) == 0
	l.Breaks = r.Intn(2) == 0
	l.Semis = r.Intn(3) == 0
	l.ExtraSpace = r.Intn(3) == 0
	l.BlankLines = r.Intn(2) == 0
	l.RawBreaks = r.Intn(2) == 0
	l.Quotes = r.Intn(2) == 0
	return l
}

type renderer struct {
	l       Layout
	lines   []string // each already indented (may contain embedded line breaks)
	phys    int      // physical lines emitted so far
	pending []int    // tags waiting for the next emitted statement line
	LineOf  map[int]int
	depth   int  // indentation depth of the statement being rendered
	noBreak bool // inside a block header: no line breaks (the block indent is measured from the header's last line)
}

func (l Layout) coin() bool { return l.Rng != nil && l.Rng.Intn(2) == 0 }
func (l Layout) pick(mode int) bool {
	switch mode {
	case 0:
		return false
	case 1:
		return true
	}
	return l.coin()
}

func (l Layout) indent() string {
	if l.Indent == "" {
		return "\t"
	}
	return l.Indent
}
func (l Layout) eol() string {
	if l.EOL == "" {
		return "\n"
	}
	return l.EOL
}

// punctuation
func (l Layout) p(zh, en string) string {
	if l.pick(l.ASCII) {
		return en
	}
	return zh
}
func (l Layout) sp() string {
	if l.ExtraSpace && l.coin() {
		return "  "
	}
	return " "
}

// optional blank: "" when tight keyword layout, else " "
func (l Layout) osp() string {
	if l.TightKW {
		if l.coin() {
			return ""
		}
		return ""
	}
	return " "
}

var cmpWords = map[string]string{"==": "等于", "/=": "不等于", ">": "大于", "<": "小于", ">=": "不小于", "<=": "不大于"}

func prec(op string) int {
	switch op {
	case "或":
		return 1
	case "且":
		return 2
	case "==", "/=", ">", "<", ">=", "<=", "为", "不为":
		return 3
	case "+", "-":
		return 5
	case "*", "/", "|", "%":
		return 6
	}
	return 9
}

func exprPrec(e Expr) int {
	switch v := e.(type) {
	case Bin:
		return prec(v.Op)
	case Assign:
		return 4
	}
	return 9
}

// Render renders the program.
func Render(p *Program, l Layout) string {
	s, _ := RenderWithLines(p, l)
	return s
}

// RenderWithLines also returns the physical line (1-based) of every Tagged statement.
func RenderWithLines(p *Program, l Layout) (string, map[int]int) {
	r := &renderer{l: l, LineOf: map[int]int{}}
	for _, im := range p.Imports {
		s := "导入"
		if im.Std {
			s += "《" + im.Name + "》"
		} else {
			s += "“" + im.Name + "”"
		}
		if len(im.Items) > 0 {
			sep := "、"
			if r.l.Breaks && len(im.Items) > 1 && r.l.coin() {
				// the item list continues on the next line(s), after the separator
				sep = "、" + r.l.eol() + strings.Repeat(r.l.indent(), 1+r.l.Rng.Intn(2))
			}
			s += r.dot() + strings.Join(im.Items, sep)
		}
		// 导入 statements are separated like other statements: by a line break or by ；
		if r.l.Semis && len(r.lines) > 0 && strings.HasPrefix(r.lines[len(r.lines)-1], "导入") && r.l.coin() {
			r.lines[len(r.lines)-1] += r.l.p("；", ";") + s
			continue
		}
		r.push(s)
	}
	body := p.Body
	if len(p.Inputs) > 0 {
		in := "输入" + strings.Join(p.Inputs, "、")
		// the sections of a program are separated like statements: the 输入 line may stand after a
		// ； on the (last) line of the imports
		if r.l.Semis && len(p.Imports) > 0 && len(r.lines) > 0 && r.l.Rng != nil && r.l.Rng.Intn(3) == 0 {
			r.lines[len(r.lines)-1] += r.l.p("；", ";") + in
		} else {
			r.push(in)
		}
	} else if r.l.Semis && len(p.Imports) > 0 && len(r.lines) > 0 && len(body) > 0 && simple(body[0]) && r.l.Rng != nil && r.l.Rng.Intn(3) == 0 {
		// … and so may the first statement
		if _, tagged := body[0].(Tagged); !tagged {
			if a := r.simpleStmt(body[0]); a != "" && !strings.ContainsAny(a, "\r\n") {
				r.lines[len(r.lines)-1] += r.l.p("；", ";") + a
				body = body[1:]
			}
		}
	}
	r.block(body, 0)
	r.catches(p.Catches, 0)
	return strings.Join(r.lines, l.eol()) + l.eol(), r.LineOf
}

func (r *renderer) push(s string) {
	r.lines = append(r.lines, s)
	r.phys += 1 + strings.Count(s, r.l.eol())
}

func (r *renderer) dot() string {
	if r.l.pick(r.l.Dot) {
		return "的"
	}
	return "之"
}

func (r *renderer) emit(depth int, s string) {
	if r.l.Comments && r.l.coin() && r.l.Rng.Intn(4) == 0 {
		switch r.l.Rng.Intn(7) {
		case 4, 5, 6:
			// a comment spanning several physical lines, with 0..3 empty lines inside
			k := r.l.Rng.Intn(7)
			open, close := "/* ", " */"
			switch k % 3 {
			case 1:
				open, close = "注：“", "”"
			case 2:
				open, close = "注：「", "」"
			}
			inner := "多行" + r.l.eol()
			// the text of a comment is free: quotes of the *other* kinds (balanced or not), the
			// openers of the other comment forms - only the comment's own delimiter counts
			switch r.l.Rng.Intn(6) {
			case 0:
				switch k % 3 {
				case 1:
					inner = "用法见「说明」一节，『又』及《书》" + r.l.eol()
				case 2:
					inner = "调用“显示”方法，‘又’及《书》" + r.l.eol()
				default:
					inner = "“引”「号」《都》可以 // 注：也可以" + r.l.eol()
				}
			case 1:
				switch k % 3 {
				case 1:
					inner = "只有开头的「 和 『 和 《" + r.l.eol()
				case 2:
					inner = "只有开头的“ 和 ‘ 和 《" + r.l.eol()
				default:
					inner = "只有开头的“ 和 「 和 /* 再一次" + r.l.eol()
				}
			}
			for e := r.l.Rng.Intn(4); e > 0; e-- {
				inner += r.l.eol()
			}
			inner += "注释"
			if k >= 3 {
				inner += r.l.eol() + r.l.eol() + "末"
			}
			r.push(strings.Repeat(r.l.indent(), depth) + open + inner + close)
		case 0:
			s += " // 行尾注释"
		case 1:
			s += " 注：行尾"
			if r.l.Rng.Intn(3) == 0 {
				s = strings.TrimSuffix(s, "行尾") // an annotation with nothing after the colon
			}
		case 2:
			s += " /* 块 */"
		case 3:
			if r.l.Rng.Intn(3) == 0 {
				r.push(strings.Repeat(r.l.indent(), depth) + []string{"注：", "注7：", "//", "/**/"}[r.l.Rng.Intn(4)])
			} else {
				r.push(strings.Repeat(r.l.indent(), depth) + "注12：整行注释")
			}
		}
	}
	if r.l.BlankLines && r.l.coin() && r.l.Rng.Intn(5) == 0 {
		r.push("")
	}
	if r.l.Comments && r.l.Rng.Intn(6) == 0 {
		// a comment that begins on a line of its own and ends on the statement's line: the
		// statement still belongs to the block its (physical) line is indented into
		open, close := "/* 多行", "注释 */ "
		if r.l.Rng.Intn(3) == 0 {
			open, close = "注：“多行", "注释” "
		}
		r.push(strings.Repeat(r.l.indent(), depth) + open)
		if r.l.Rng.Intn(2) == 0 {
			r.push(strings.Repeat(r.l.indent(), depth) + "中间")
		}
		s = close + s
	}
	for _, t := range r.pending {
		r.LineOf[t] = r.phys + 1
	}
	r.pending = r.pending[:0]
	r.push(strings.Repeat(r.l.indent(), depth) + s)
}

func (r *renderer) catches(cs []Catch, depth int) {
	for i, c := range cs {
		// 拦截 statements are separated like other statements: a ； may stand between two of them
		if i > 0 && r.l.Semis && r.l.coin() {
			r.emit(depth, r.l.p("；", ";"))
		}
		r.emit(depth, "拦截"+c.Class+r.l.p("：", ":"))
		r.block(c.Body, depth+1)
	}
}

func simple(s Stmt) bool {
	switch s.(type) {
	case Let:
		return !s.(Let).Block
	case ExprStmt, Return, Break, Continue:
		return true
	}
	return false
}

func (r *renderer) block(body []Stmt, depth int) {
	for i := 0; i < len(body); i++ {
		st := body[i]
		r.depth = depth
		// optionally join simple statements with ；
		if r.l.Semis && simple(st) && i+1 < len(body) && simple(body[i+1]) && r.l.coin() {
			a := r.simpleStmt(st)
			b := r.simpleStmt(body[i+1])
			// (also when the first one spans several lines - a bracket or a text continued on
			// the next line: the second one stands after the ； on its last line and still
			// belongs to this block)
			if a != "" && b != "" {
				r.emit(depth, a+r.l.p("；", ";")+b)
				i++
				continue
			}
		}
		// a separator may also follow a statement (it separates it from nothing)
		if r.l.Semis && simple(st) && r.l.Rng != nil && r.l.Rng.Intn(6) == 0 {
			if a := r.simpleStmt(st); a != "" && !strings.ContainsAny(a, "\r\n") {
				if _, tagged := st.(Tagged); !tagged {
					r.emit(depth, a+r.l.p("；", ";"))
					continue
				}
			}
		}
		r.stmt(st, depth)
	}
}

func (r *renderer) simpleStmt(s Stmt) string {
	switch v := s.(type) {
	case Let:
		return "令" + r.letPair(v.Pairs[0])
	case ExprStmt:
		return r.topExpr(v.E)
	case Return:
		return "输出" + r.osp1() + r.topExpr(v.E)
	case Break:
		return "结束循环"
	case Continue:
		return "继续循环"
	}
	return ""
}

// osp1: blank after a keyword before an expression; needed only when the expression
// starts with + or - sign glued to a number? keywords never fuse, so optional.
func (r *renderer) osp1() string {
	if r.l.TightKW {
		return ""
	}
	return " "
}

func (r *renderer) assignTok() string {
	if r.l.pick(r.l.AssignWord) {
		return r.l.osp() + "设为" + r.l.osp()
	}
	return " = "
}

func (r *renderer) letPair(p LetPair) string {
	s := strings.Join(p.Names, "、")
	if p.Const {
		s += r.l.osp() + "恒为" + r.l.osp()
	} else {
		s += r.assignTok()
	}
	return s + r.topExpr(p.Val)
}

func (r *renderer) funcDef(f *FuncDef, depth int) {
	head := "如何"
	if f.Ctor {
		head = "如何新建"
	}
	if f.Getter {
		head = "何为"
	}
	r.emit(depth, head+f.Name+r.l.p("？", "?"))
	if len(f.Params) > 0 {
		r.emit(depth+1, "输入"+strings.Join(f.Params, "、"))
	}
	r.block(f.Body, depth+1)
	r.catches(f.Catches, depth+1)
}

func (r *renderer) stmt(s Stmt, depth int) {
	r.depth = depth
	switch v := s.(type) {
	case Tagged:
		r.pending = append(r.pending, v.ID)
		r.stmt(v.S, depth)
	case Verbatim:
		for i, l := range v.Lines {
			if i == 0 {
				for _, t := range r.pending {
					r.LineOf[t] = r.phys + 1
				}
				r.pending = r.pending[:0]
				r.push(strings.Repeat(r.l.indent(), depth) + l)
			} else {
				r.push(strings.ReplaceAll(l, "\x01", r.l.indent()))
			}
		}
	case Let:
		if v.Block {
			r.emit(depth, "令"+r.l.p("：", ":"))
			for _, p := range v.Pairs {
				r.emit(depth+1, r.letPair(p))
			}
			return
		}
		r.emit(depth, r.simpleStmt(v))
	case ExprStmt, Return, Break, Continue:
		r.emit(depth, r.simpleStmt(v))
	case Empty:
		r.emit(depth, r.l.p("；", ";"))
	case If:
		r.emit(depth, "如果"+r.osp1()+r.header(v.Cond)+r.l.p("：", ":"))
		r.block(v.Then, depth+1)
		for _, e := range v.Elifs {
			r.depth = depth
			r.emit(depth, "再如"+r.osp1()+r.header(e.Cond)+r.l.p("：", ":"))
			r.block(e.Body, depth+1)
		}
		if v.HasElse {
			r.emit(depth, "否则"+r.l.p("：", ":"))
			r.block(v.Else, depth+1)
		}
	case While:
		r.emit(depth, "每当"+r.osp1()+r.header(v.Cond)+r.l.p("：", ":"))
		r.block(v.Body, depth+1)
	case Iter:
		head := ""
		if len(v.Names) > 0 {
			head = "以" + strings.Join(v.Names, "、")
		}
		r.emit(depth, head+"遍历"+r.osp1()+r.header(v.Over)+r.l.p("：", ":"))
		r.block(v.Body, depth+1)
	case *FuncDef:
		r.funcDef(v, depth)
	case FuncDef:
		r.funcDef(&v, depth)
	case ClassDef:
		r.classDef(&v, depth)
	case *ClassDef:
		r.classDef(v, depth)
	case Throw:
		parts := []string{}
		for _, a := range v.Args {
			parts = append(parts, r.expr(a, 0))
		}
		r.emit(depth, "抛出"+v.Class+r.l.p("：", ":")+strings.Join(parts, "、")+r.l.p("！", "!"))
	}
}

func (r *renderer) classDef(c *ClassDef, depth int) {
	r.emit(depth, "定义"+c.Name+r.l.p("：", ":"))
	for _, p := range c.Props {
		r.emit(depth+1, "其"+p.Name+r.assignTok()+r.topExpr(p.Val))
	}
	for _, g := range c.Getters {
		gg := *g
		gg.Getter = true
		r.funcDef(&gg, depth+1)
	}
	for _, m := range c.Methods {
		r.funcDef(m, depth+1)
	}
}

// header renders the expression of a block header on one physical line
func (r *renderer) header(e Expr) string {
	r.noBreak = true
	defer func() { r.noBreak = false }()
	return r.topExpr(e)
}

func (r *renderer) contIndent(extra int) string {
	return strings.Repeat(r.l.indent(), r.depth+extra)
}

// topExpr renders an expression in statement position (no enclosing brackets needed)
func (r *renderer) topExpr(e Expr) string {
	switch v := e.(type) {
	case Assign:
		return r.expr(v.Target, 7) + r.assignTok() + r.expr(v.Val, 5)
	case MCall:
		return r.mcall(v)
	}
	return r.expr(e, 0)
}

func (r *renderer) mcall(v MCall) string {
	s := "以" + r.osp1() + r.expr(v.Recv, 7)
	for i, c := range v.Chain {
		if i > 0 {
			s += "、"
		}
		s += r.callPart(c)
	}
	if v.Yield != "" {
		if r.l.OptComma && r.l.coin() {
			s += r.l.p("，", ",")
		}
		s += "得到" + v.Yield
	}
	return s
}

func (r *renderer) callPart(c CallPart) string {
	s := r.l.p("（", "(") + c.Fn
	if len(c.Args) > 0 {
		s += r.l.p("：", ":")
		for i, a := range c.Args {
			if i > 0 {
				s += "、"
				if r.l.Breaks && !r.noBreak && r.l.coin() && r.l.Rng.Intn(3) == 0 {
					s += r.l.eol() + r.contIndent(2)
				}
			}
			s += r.argExpr(a)
		}
	}
	return s + r.l.p("）", ")")
}

// argExpr: an argument; a method-call chain must be wrapped (its 、 would be ambiguous)
func (r *renderer) argExpr(a Expr) string {
	if _, ok := a.(MCall); ok {
		return "{" + r.mcall(a.(MCall)) + "}"
	}
	if as, ok := a.(Assign); ok {
		return "{" + r.topExpr(as) + "}"
	}
	return r.expr(a, 0)
}

func (r *renderer) opTok(op string) string {
	switch op {
	case "且", "或", "为", "不为":
		lead := r.l.osp()
		if r.l.OptComma && (op == "且" || op == "或") && r.l.coin() {
			lead = r.l.p("，", ",")
		}
		return lead + op + r.l.osp()
	case "==", "/=", ">", "<", ">=", "<=":
		if r.l.pick(r.l.CmpWords) {
			return r.l.osp() + cmpWords[op] + r.l.osp()
		}
		// the comparison marks need no blanks: none of their characters can be part of a name
		// (a / directly followed by = ends the name before it)
		return r.l.osp() + op + r.l.osp()
	}
	// arithmetic operators always need blanks on both sides
	return r.l.sp() + op + r.l.sp()
}

// expr renders e; minPrec is the lowest precedence that may appear unbraced here.
func (r *renderer) expr(e Expr, minPrec int) string {
	switch v := e.(type) {
	case Num:
		return v.Lit
	case Str:
		if r.l.RawBreaks && !r.noBreak && strings.Contains(v.S, r.l.eol()) {
			// multi-line literal: the parts between line breaks are quoted as usual, the breaks
			// themselves are the file's own line ends
			parts := strings.Split(v.S, r.l.eol())
			out := ""
			for i, p := range parts {
				q := QuoteText(p)
				q = strings.TrimSuffix(strings.TrimPrefix(q, "“"), "”")
				if i > 0 {
					out += r.l.eol()
				}
				out += q
			}
			return r.requote("“" + out + "”")
		}
		return r.requote(QuoteText(v.S))
	case Name:
		return v.N
	case Group:
		return "{" + r.topExprInBraces(v.E) + "}"
	case Bin:
		p := prec(v.Op)
		// left operand: same precedence may stay unbraced (equal-precedence operators group
		// left to right - comparisons included: a < b == c is {a < b} == c)
		lp, rp := p, p+1
		if p == 3 {
			rp = 5 // the right operand of a comparison is an arithmetic-level expression
		}
		s := r.expr(v.L, lp) + r.opTok(v.Op) + r.expr(v.R, rp)
		if p < minPrec {
			return "{" + s + "}"
		}
		if r.l.Rng != nil && r.l.Rng.Intn(12) == 0 {
			return "{" + s + "}"
		}
		return s
	case Assign:
		return "{" + r.topExpr(v) + "}"
	case ListLit:
		if len(v.Items) == 0 {
			return r.l.p("【", "[") + r.l.p("】", "]")
		}
		parts := []string{}
		for _, it := range v.Items {
			parts = append(parts, r.argExpr(it))
		}
		return r.bracketList(parts, true)
	case DictLit:
		if len(v.Keys) == 0 {
			return r.l.p("【", "[") + "=" + r.l.p("】", "]")
		}
		parts := []string{}
		for i, k := range v.Keys {
			ks := k
			if v.KeyForm == nil || v.KeyForm[i] == 0 {
				ks = QuoteText(k)
			}
			parts = append(parts, ks+" = "+r.argExpr(v.Vals[i]))
		}
		return r.bracketList(parts, false)
	case Call:
		s := r.callPart(v.CallPart)
		if v.Yield != "" {
			if r.l.OptComma && r.l.coin() {
				s += r.l.p("，", ",")
			}
			s += "得到" + v.Yield
		}
		return s
	case MCall:
		return "{" + r.mcall(v) + "}"
	case Member:
		return r.expr(v.Recv, 7) + r.dot() + v.Prop
	case ThisProp:
		return "其" + v.Prop
	case Index:
		s := r.expr(v.Recv, 7) + "#"
		switch iv := v.Idx.(type) {
		case Num:
			if r.l.coin() {
				return s + "{" + iv.Lit + "}"
			}
			return s + iv.Lit
		case Str:
			if r.l.coin() {
				return s + "{" + QuoteText(iv.S) + "}"
			}
			return s + QuoteText(iv.S)
		}
		return s + "{" + r.topExprInBraces(v.Idx) + "}"
	case New:
		s := r.l.p("（", "(") + "新建" + v.Class
		if len(v.Args) > 0 {
			s += r.l.p("：", ":")
			for i, a := range v.Args {
				if i > 0 {
					s += "、"
				}
				s += r.argExpr(a)
			}
		}
		return s + r.l.p("）", ")")
	}
	return "?"
}

func (r *renderer) topExprInBraces(e Expr) string {
	if m, ok := e.(MCall); ok {
		return r.mcall(m)
	}
	if a, ok := e.(Assign); ok {
		return r.topExpr(a)
	}
	return r.expr(e, 0)
}

func (r *renderer) bracketList(parts []string, list bool) string {
	open, close := r.l.p("【", "["), r.l.p("】", "]")
	sep := r.l.p("，", ",")
	// the items of a list may also be separated by 、 (the BNF and the library chapter write it so)
	if list && r.l.OptComma && r.l.Rng != nil && r.l.Rng.Intn(3) == 0 {
		sep = "、"
	}
	if r.l.Breaks && !r.noBreak && r.l.coin() {
		ind := r.contIndent(2)
		s := open + r.l.eol()
		// items on lines of their own need no comma (items are separated by blanks or commas)
		if r.l.OptComma && r.l.coin() {
			sep = ""
		}
		for i, p := range parts {
			s += ind + p
			if i+1 < len(parts) {
				s += sep
			}
			s += r.l.eol()
		}
		return s + r.contIndent(0) + close
	}
	if r.l.ExtraSpace && r.l.coin() {
		sep += " "
	}
	return open + strings.Join(parts, sep) + close
}

// requote swaps the outer “ ” of a rendered literal for another documented pair (the content
// has every quote character escaped, so any pair encloses it)
func (r *renderer) requote(q string) string {
	if !r.l.Quotes || r.l.Rng == nil {
		return q
	}
	inner := strings.TrimSuffix(strings.TrimPrefix(q, "“"), "”")
	switch r.l.Rng.Intn(3) {
	case 0:
		return "「" + inner + "」"
	case 1:
		return "《" + inner + "》"
	}
	return q
}

var quoteChars = "“”「」‘’『』《》"

// QuoteText renders a text value as a “ ” literal, escaping what the rules require.
func QuoteText(s string) string {
	safe := true
	for _, ch := range s {
		if ch == '`' || ch == '\r' || ch == '\n' || ch == '\t' || strings.ContainsRune(quoteChars, ch) {
			safe = false
			break
		}
	}
	if safe {
		return "“" + s + "”"
	}
	var sb strings.Builder
	sb.WriteString("“")
	for _, ch := range s {
		switch {
		case ch == '`':
			sb.WriteString("`BK`")
		case ch == '\r':
			sb.WriteString("`CR`")
		case ch == '\n':
			sb.WriteString("`LF`")
		case ch == '\t':
			sb.WriteString("`TAB`")
		case strings.ContainsRune(quoteChars, ch):
			sb.WriteString("`" + string(ch) + "`")
		default:
			sb.WriteRune(ch)
		}
	}
	sb.WriteString("”")
	return sb.String()
}
