package znref

import (
	"fmt"
	"math"
)

// Tagged wraps a statement with an identity so that renderer and evaluator can agree on
// "which statement" (the renderer records the physical line, the evaluator the active tag).
type Tagged struct {
	ID int
	S  Stmt
}

func (ip *Interp) lookupLexical(sc *scope, name string) (*binding, *scope) {
	for s := sc; s != nil; s = s.parent {
		if b, ok := s.vars[name]; ok {
			return b, s
		}
	}
	return nil, nil
}

func (ip *Interp) predefined(name string) (Value, bool) {
	switch name {
	case "真":
		return VBool(true), true
	case "假":
		return VBool(false), true
	case "空":
		return VNull{}, true
	case "异常":
		return &VClass{Name: "异常", Builtin: "异常"}, true
	case "显示", "取随机数":
		return &VFunc{Builtin: name}, true
	case "数值":
		return &VClass{Name: "数值", Builtin: "数值"}, true
	}
	return nil, false
}

// lookup resolves a name for reading.
func (ip *Interp) lookup(sc *scope, name string) (Value, error) {
	if rs := []rune(name); len(rs) > 0 && rs[0] >= '0' && rs[0] <= '9' {
		// C04: an identifier that starts like a number but is not one is rejected, never a name
		// (numeric spellings are Num nodes, never Name nodes)
		return nil, ip.fault(&ZErr{Kind: "bad-id", Msg: name})
	}
	if v, ok := ip.predefined(name); ok {
		return v, nil
	}
	b, _ := ip.lookupLexical(sc, name)
	if b == nil {
		// dynamic visibility of a caller's names is unspecified (U1)
		for _, ls := range ip.live {
			if _, ok := ls.vars[name]; ok {
				panic(&Unspec{"name " + name + " only visible dynamically"})
			}
		}
		return nil, ip.fault(&ZErr{Code: 42, Kind: "name-undefined", Msg: name})
	}
	ip.checkOwner(b, sc, name)
	return b.v, nil
}

func (ip *Interp) checkOwner(b *binding, sc *scope, name string) {
	if b.owner != sc.frame {
		switch b.kind {
		case "func", "class", "import":
		default:
			panic(&Unspec{"name " + name + " belongs to another body (U1)"})
		}
	}
}

func (ip *Interp) declare(sc *scope, name string, v Value, konst bool, kind string) error {
	if isPredefined(name) {
		return ip.fault(&ZErr{Kind: "predefined", Msg: name})
	}
	if b, ok := sc.vars[name]; ok {
		if b.kind == "import" {
			// is the program body "the same block" as its import section? not specified
			panic(&Unspec{"declaring " + name + " over an imported name"})
		}
		return ip.fault(&ZErr{Code: 43, Kind: "redeclared", Msg: name})
	}
	// same body, enclosing non-block scope (params / loop variables / definitions): is that
	// "the same block"? the manual does not say.
	if sc.parent != nil && sc.parent.frame == sc.frame && (sc.parent.kind == "body" || sc.parent.kind == "loopvars") {
		if _, ok := sc.parent.vars[name]; ok {
			panic(&Unspec{"declaring " + name + " over a parameter / loop variable / definition of the same body"})
		}
	}
	sc.vars[name] = &binding{v: v, konst: konst, kind: kind, owner: sc.frame}
	return nil
}

func (ip *Interp) newScope(parent *scope, kind string, frame int) *scope {
	s := &scope{vars: map[string]*binding{}, parent: parent, frame: frame, kind: kind}
	ip.live = append(ip.live, s)
	return s
}

func (ip *Interp) endScope() { ip.live = ip.live[:len(ip.live)-1] }

// execBody runs a function / module body with its handlers.
func (ip *Interp) execBody(fd *FuncDef, parent *scope, params []Value, m *Module, isModule bool) (Value, bool, error) {
	ip.nextFrame++
	bodyID := ip.nextFrame
	var body *scope
	if isModule {
		body = parent // the module root doubles as body scope (imports live there)
		body.frame = bodyID
		body.kind = "body"
		for _, b := range body.vars {
			b.owner = bodyID
		}
		ip.live = append(ip.live, body)
	} else {
		body = ip.newScope(parent, "body", bodyID)
	}
	defer ip.endScope()
	if len(params) != len(fd.Params) {
		return nil, false, ip.fault(&ZErr{Kind: "arity", Msg: fmt.Sprintf("expect %d got %d", len(fd.Params), len(params))})
	}
	for i, pn := range fd.Params {
		if err := ip.declare(body, pn, params[i], true, "param"); err != nil {
			return nil, false, err
		}
	}
	depthAtEntry := len(ip.frames)
	v, unspecVal, err := ip.execBodyStmts(fd, body, m, isModule)
	if err == nil {
		return v, unspecVal, nil
	}
	// exception handling
	var exc Value
	switch e := err.(type) {
	case *Thrown:
		exc = e.Val
	case *ZErr:
		if e.Kind == "format" || e.Kind == "bad-id" {
			// whether a malformed template / identifier is an exception that 拦截异常 may take is
			// not fixed by the statements; without a handler of that class it must propagate
			for _, c := range fd.Catches {
				if c.Class == "异常" {
					panic(&Unspec{"semantic error meeting a handler of 异常"})
				}
			}
			return nil, false, err
		}
		if e.Kind == "syntax" || e.Kind == "module-missing" || e.Kind == "lib-missing" || e.Kind == "cycle" || e.Kind == "input-missing" {
			return nil, false, err
		}
		exc = &VExc{Opaque: true}
	default:
		return nil, false, err
	}
	cls := ""
	switch x := exc.(type) {
	case *VExc:
		cls = "异常"
	case *VObj:
		cls = x.Class.Name
	}
	for _, c := range fd.Catches {
		if c.Class == cls {
			// unwind to the frame of this body, run the handler with 其 = exception
			ip.frames = ip.frames[:depthAtEntry]
			fr := ip.push("handler", m, exc)
			fr.line = 0
			hs := ip.newScope(body, "block", bodyID)
			_, _, herr := ip.execBlock(c.Body, hs)
			ip.endScope()
			hret, hasRet := ip.cur().ret, ip.cur().hasRet
			ip.pop()
			if herr != nil {
				if _, ok := herr.(*ctl); ok {
					panic(&Unspec{"break/continue escaping a handler"})
				}
				return nil, false, herr
			}
			if hasRet {
				return hret, false, nil
			}
			return VNull{}, false, nil
		}
	}
	return nil, false, err
}

func (ip *Interp) execBodyStmts(fd *FuncDef, body *scope, m *Module, isModule bool) (Value, bool, error) {
	// hoist definitions
	for _, st := range fd.Body {
		if tg, ok := st.(Tagged); ok {
			st = tg.S
		}
		switch d := st.(type) {
		case ClassDef:
			dd := d
			if err := ip.defClass(&dd, body, m, isModule); err != nil {
				return nil, false, err
			}
		case *ClassDef:
			if err := ip.defClass(d, body, m, isModule); err != nil {
				return nil, false, err
			}
		case FuncDef:
			dd := d
			if err := ip.defFunc(&dd, body, m, isModule); err != nil {
				return nil, false, err
			}
		case *FuncDef:
			if err := ip.defFunc(d, body, m, isModule); err != nil {
				return nil, false, err
			}
		}
	}
	// the statements of a body are in the same block as its 输入 names and its definitions
	// ("declaring a name twice in the same block is an error"): no scope of their own
	last, isExpr, err := ip.execBlock(fd.Body, body)
	if err != nil {
		if c, ok := err.(*ctl); ok {
			panic(&Unspec{c.kind + " outside a loop of the same body (U3)"})
		}
		return nil, false, err
	}
	fr := ip.cur()
	if fr.hasRet {
		return fr.ret, false, nil
	}
	if isExpr {
		return last, false, nil
	}
	return VNull{}, true, nil
}

func (ip *Interp) defFunc(d *FuncDef, body *scope, m *Module, isModule bool) error {
	if d.Ctor {
		v, err := ip.lookup(body, d.Name)
		if err != nil {
			return err
		}
		cls, ok := v.(*VClass)
		if !ok || cls.Builtin != "" {
			if ok && cls.Builtin != "" {
				panic(&Unspec{"redefining the constructor of a predefined type"})
			}
			return ip.fault(&ZErr{Kind: "type", Msg: "constructor of non-class"})
		}
		cls.Ctor = d
		cls.CtorScope = body
		return nil
	}
	f := &VFunc{Def: d, Module: m, Scope: body}
	if err := ip.declare(body, d.Name, f, true, "func"); err != nil {
		return err
	}
	if isModule {
		m.Exports[d.Name] = f
		m.ExportOrder = append(m.ExportOrder, d.Name)
	}
	return nil
}

func (ip *Interp) defClass(d *ClassDef, body *scope, m *Module, isModule bool) error {
	if !isModule {
		panic(&Unspec{"type defined inside a method body"})
	}
	cls := &VClass{Name: d.Name, Def: d, Module: m, Scope: body, Defaults: map[string]Value{}}
	for _, p := range d.Props {
		v, err := ip.eval(p.Val, body)
		if err != nil {
			return err
		}
		cls.Defaults[p.Name] = v
		cls.PropOrder = append(cls.PropOrder, p.Name)
	}
	if err := ip.declare(body, d.Name, cls, true, "class"); err != nil {
		return err
	}
	m.Exports[d.Name] = cls
	m.ExportOrder = append(m.ExportOrder, d.Name)
	return nil
}

// execBlock runs statements in sc. Returns the value of the last statement and whether it
// was an expression statement.
func (ip *Interp) execBlock(stmts []Stmt, sc *scope) (Value, bool, error) {
	var last Value = VNull{}
	isExpr := false
	for _, st := range stmts {
		v, ie, err := ip.execStmt(st, sc)
		if err != nil {
			return nil, false, err
		}
		last, isExpr = v, ie
		if ip.cur().hasRet {
			return ip.cur().ret, false, nil
		}
	}
	return last, isExpr, nil
}

func (ip *Interp) setLine(tag int) {
	ip.cur().line = tag
}

func (ip *Interp) execStmt(st Stmt, sc *scope) (Value, bool, error) {
	ip.tick()
	switch s := st.(type) {
	case Tagged:
		ip.setLine(s.ID)
		ip.Steps-- // the wrapper itself is not a statement
		return ip.execStmt(s.S, sc)
	case Verbatim:
		ip.Steps--
		return ip.execStmt(s.S, sc)
	case Let:
		for _, p := range s.Pairs {
			v, err := ip.eval(p.Val, sc)
			if err != nil {
				return nil, false, err
			}
			for _, n := range p.Names {
				kind := "var"
				if p.Const {
					kind = "const"
				}
				if err := ip.declare(sc, n, DeepCopy(v), p.Const, kind); err != nil {
					return nil, false, err
				}
			}
		}
		return VNull{}, false, nil
	case ExprStmt:
		v, err := ip.eval(s.E, sc)
		if err != nil {
			return nil, false, err
		}
		return v, true, nil
	case Empty:
		return VNull{}, false, nil
	case If:
		cv, err := ip.evalBool(s.Cond, sc)
		if err != nil {
			return nil, false, err
		}
		if cv {
			return ip.runInner(s.Then, sc)
		}
		for _, e := range s.Elifs {
			cv, err := ip.evalBool(e.Cond, sc)
			if err != nil {
				return nil, false, err
			}
			if cv {
				return ip.runInner(e.Body, sc)
			}
		}
		if s.HasElse {
			return ip.runInner(s.Else, sc)
		}
		return VNull{}, false, nil
	case While:
		for {
			ip.tick()
			cv, err := ip.evalBool(s.Cond, sc)
			if err != nil {
				return nil, false, err
			}
			if !cv {
				return VNull{}, false, nil
			}
			_, _, err = ip.runInner(s.Body, sc)
			if err != nil {
				if c, ok := err.(*ctl); ok {
					if c.kind == "break" {
						return VNull{}, false, nil
					}
					continue
				}
				return nil, false, err
			}
			if ip.cur().hasRet {
				return VNull{}, false, nil
			}
		}
	case Iter:
		over, err := ip.eval(s.Over, sc)
		if err != nil {
			return nil, false, err
		}
		if len(s.Names) > 2 {
			return nil, false, ip.fault(&ZErr{Kind: "arity", Msg: "too many loop names"})
		}
		ls := ip.newScope(sc, "loopvars", sc.frame)
		defer ip.endScope()
		for _, n := range s.Names {
			if err := ip.declare(ls, n, VNull{}, false, "loop"); err != nil {
				return nil, false, err
			}
		}
		type kv struct{ k, v Value }
		var seq []kv
		switch o := over.(type) {
		case *VList:
			for i, it := range o.Items {
				seq = append(seq, kv{VNum(float64(i + 1)), it})
			}
		case *VDict:
			for _, k := range o.Keys {
				seq = append(seq, kv{VStr(k), o.M[k]})
			}
		default:
			return nil, false, ip.fault(&ZErr{Kind: "type", Msg: "iterate over non-collection"})
		}
		ip.iterating = append(ip.iterating, over)
		defer func() { ip.iterating = ip.iterating[:len(ip.iterating)-1] }()
		for _, e := range seq {
			ip.tick()
			switch len(s.Names) {
			case 1:
				ls.vars[s.Names[0]].v = e.v
			case 2:
				ls.vars[s.Names[0]].v = e.k
				ls.vars[s.Names[1]].v = e.v
			}
			_, _, err := ip.runInner(s.Body, ls)
			if err != nil {
				if c, ok := err.(*ctl); ok {
					if c.kind == "break" {
						return VNull{}, false, nil
					}
					continue
				}
				return nil, false, err
			}
			if ip.cur().hasRet {
				return VNull{}, false, nil
			}
		}
		return VNull{}, false, nil
	case FuncDef, *FuncDef, ClassDef, *ClassDef:
		ip.Steps--
		return VNull{}, false, nil // hoisted
	case Return:
		v, err := ip.eval(s.E, sc)
		if err != nil {
			return nil, false, err
		}
		fr := ip.cur()
		fr.ret, fr.hasRet = v, true
		return v, false, nil
	case Throw:
		cv, err := ip.lookup(sc, s.Class)
		if err != nil {
			return nil, false, err
		}
		cls, ok := cv.(*VClass)
		if !ok {
			return nil, false, ip.fault(&ZErr{Kind: "type", Msg: "throw non-class"})
		}
		args, err := ip.evalArgs(s.Args, sc)
		if err != nil {
			return nil, false, err
		}
		ev, err := ip.construct(cls, args)
		if err != nil {
			return nil, false, err
		}
		return nil, false, &Thrown{Val: ev, Frames: ip.snapshotFrames()}
	case Break:
		return nil, false, &ctl{"break"}
	case Continue:
		return nil, false, &ctl{"continue"}
	}
	panic(fmt.Sprintf("znref: unknown statement %T", st))
}

func (ip *Interp) runInner(stmts []Stmt, sc *scope) (Value, bool, error) {
	inner := ip.newScope(sc, "block", sc.frame)
	defer ip.endScope()
	_, _, err := ip.execBlock(stmts, inner)
	return VNull{}, false, err
}

func (ip *Interp) evalBool(e Expr, sc *scope) (bool, error) {
	v, err := ip.eval(e, sc)
	if err != nil {
		return false, err
	}
	b, ok := v.(VBool)
	if !ok {
		return false, ip.fault(&ZErr{Kind: "type", Msg: "condition is not boolean"})
	}
	return bool(b), nil
}

func (ip *Interp) evalArgs(args []Expr, sc *scope) ([]Value, error) {
	out := []Value{}
	for _, a := range args {
		v, err := ip.eval(a, sc)
		if err != nil {
			return nil, err
		}
		out = append(out, v)
	}
	return out, nil
}

func (ip *Interp) construct(cls *VClass, args []Value) (Value, error) {
	switch cls.Builtin {
	case "异常":
		if len(args) != 1 {
			return nil, ip.fault(&ZErr{Kind: "arity", Msg: "异常 takes one text"})
		}
		s, ok := args[0].(VStr)
		if !ok {
			return nil, ip.fault(&ZErr{Kind: "type", Msg: "异常 takes one text"})
		}
		return &VExc{Msg: string(s)}, nil
	case "数值":
		panic(&Unspec{"新建数值"})
	}
	ip.nextObj++
	obj := &VObj{Class: cls, Props: map[string]Value{}, ID: ip.nextObj}
	for k, v := range cls.Defaults {
		obj.Props[k] = DeepCopy(v)
	}
	if cls.Ctor == nil {
		if len(args) > 0 {
			panic(&Unspec{"arguments to a type without constructor"})
		}
		return obj, nil
	}
	depth := len(ip.frames)
	ip.push("call", cls.Module, obj)
	_, _, err := ip.execBody(cls.Ctor, cls.CtorScope, args, cls.Module, false)
	ip.frames = ip.frames[:depth]
	if err != nil {
		return nil, err
	}
	return obj, nil
}

func (ip *Interp) callFunc(f *VFunc, this Value, args []Value) (Value, error) {
	if f.Builtin != "" {
		switch f.Builtin {
		case "显示":
			parts := ""
			for i, a := range args {
				if i > 0 {
					parts += " "
				}
				parts += ip.display(a)
			}
			ip.Display = append(ip.Display, parts)
			return VNull{}, nil
		}
		panic(&Unspec{"builtin " + f.Builtin})
	}
	depth := len(ip.frames)
	ip.push("call", f.Module, this)
	v, unspecVal, err := ip.execBody(f.Def, f.Scope, args, f.Module, false)
	ip.frames = ip.frames[:depth]
	if err != nil {
		return nil, err
	}
	if unspecVal {
		return &unspecValue{}, nil
	}
	return v, nil
}

// unspecValue: the value of a method that ended without 输出 (U3). Using it is unspecified.
type unspecValue struct{}

func (ip *Interp) display(v Value) string {
	if _, ok := v.(*unspecValue); ok {
		panic(&Unspec{"value of a method without 输出"})
	}
	if e, ok := v.(*VExc); ok && e.Opaque {
		panic(&Unspec{"message text of a runtime fault"})
	}
	return DisplayStr(v)
}

func num(v Value) (float64, bool) {
	n, ok := v.(VNum)
	return float64(n), ok
}

func (ip *Interp) eval(e Expr, sc *scope) (Value, error) {
	switch x := e.(type) {
	case Num:
		return VNum(x.V), nil
	case Str:
		return VStr(x.S), nil
	case Name:
		return ip.lookup(sc, x.N)
	case Group:
		return ip.eval(x.E, sc)
	case ListLit:
		l := &VList{}
		for _, it := range x.Items {
			v, err := ip.eval(it, sc)
			if err != nil {
				return nil, err
			}
			l.Items = append(l.Items, v)
		}
		return l, nil
	case DictLit:
		d := NewDict()
		for i, k := range x.Keys {
			v, err := ip.eval(x.Vals[i], sc)
			if err != nil {
				return nil, err
			}
			d.Set(k, v)
		}
		return d, nil
	case Bin:
		return ip.evalBin(x, sc)
	case Assign:
		return ip.evalAssign(x, sc)
	case Call:
		args, err := ip.evalArgs(x.Args, sc)
		if err != nil {
			return nil, err
		}
		fv, err := ip.lookup(sc, x.Fn)
		if err != nil {
			return nil, err
		}
		f, ok := fv.(*VFunc)
		if !ok {
			return nil, ip.fault(&ZErr{Kind: "type", Msg: x.Fn + " is not a method"})
		}
		v, err := ip.callFunc(f, nil, args)
		if err != nil {
			return nil, err
		}
		if x.Yield != "" {
			if err := ip.declare(sc, x.Yield, DeepCopy(v), true, "yield"); err != nil {
				return nil, err
			}
		}
		return v, nil
	case MCall:
		chain := x.Chain
		var cur Value
		var err error
		if len(chain) > 0 && (chain[0].Fn == "自增" || chain[0].Fn == "自减") && isLvalue(x.Recv) {
			// in-place numeric update: the stored number itself changes (and is the result)
			cur, err = ip.selfAdd(x.Recv, chain[0], sc)
			if err != nil {
				return nil, err
			}
			chain = chain[1:]
		} else {
			cur, err = ip.eval(x.Recv, sc)
			if err != nil {
				return nil, err
			}
		}
		for _, c := range chain {
			args, err := ip.evalArgs(c.Args, sc)
			if err != nil {
				return nil, err
			}
			cur, err = ip.invoke(cur, c.Fn, args)
			if err != nil {
				return nil, err
			}
		}
		if x.Yield != "" {
			if err := ip.declare(sc, x.Yield, DeepCopy(cur), true, "yield"); err != nil {
				return nil, err
			}
		}
		return cur, nil
	case Member:
		rv, err := ip.eval(x.Recv, sc)
		if err != nil {
			return nil, err
		}
		return ip.getProp(rv, x.Prop)
	case ThisProp:
		this := ip.cur().this
		if this == nil {
			return nil, ip.fault(&ZErr{Kind: "no-this", Msg: "其 outside a method"})
		}
		return ip.getProp(this, x.Prop)
	case Index:
		rv, err := ip.eval(x.Recv, sc)
		if err != nil {
			return nil, err
		}
		if n, ok := x.Idx.(Name); ok {
			_ = n
			panic(&Unspec{"# with a bare identifier (U4)"})
		}
		iv, err := ip.eval(x.Idx, sc)
		if err != nil {
			return nil, err
		}
		return ip.indexGet(rv, iv)
	case New:
		cv, err := ip.lookup(sc, x.Class)
		if err != nil {
			return nil, err
		}
		cls, ok := cv.(*VClass)
		if !ok {
			return nil, ip.fault(&ZErr{Kind: "type", Msg: "新建 of a non-type"})
		}
		args, err := ip.evalArgs(x.Args, sc)
		if err != nil {
			return nil, err
		}
		return ip.construct(cls, args)
	}
	panic(fmt.Sprintf("znref: unknown expression %T", e))
}

func (ip *Interp) indexGet(rv, iv Value) (Value, error) {
	switch r := rv.(type) {
	case *VList:
		f, ok := num(iv)
		if !ok {
			return nil, ip.fault(&ZErr{Kind: "type", Msg: "list index not a number"})
		}
		if f != math.Trunc(f) || math.IsInf(f, 0) || math.IsNaN(f) {
			panic(&Unspec{"non-integer list index (U4)"})
		}
		i := int(f)
		if i < 1 || i > len(r.Items) {
			return nil, ip.fault(&ZErr{Kind: "index", Msg: "out of range"})
		}
		return r.Items[i-1], nil
	case *VDict:
		k, ok := dictKey(iv)
		if !ok {
			return nil, ip.fault(&ZErr{Kind: "type", Msg: "dict key type"})
		}
		v, ok := r.M[k]
		if !ok {
			return nil, ip.fault(&ZErr{Kind: "key", Msg: k})
		}
		return v, nil
	}
	return nil, ip.fault(&ZErr{Kind: "type", Msg: "index of non-collection"})
}

func dictKey(iv Value) (string, bool) {
	switch k := iv.(type) {
	case VStr:
		return string(k), true
	case VNum:
		f := float64(k)
		if f != math.Trunc(f) || math.Abs(f) >= 1e15 {
			panic(&Unspec{"non-integer number used as dictionary key"})
		}
		return FormatNum(f), true
	}
	return "", false
}

func (ip *Interp) evalAssign(x Assign, sc *scope) (Value, error) {
	v, err := ip.eval(x.Val, sc)
	if err != nil {
		return nil, err
	}
	if _, ok := v.(*unspecValue); ok {
		panic(&Unspec{"value of a method without 输出"})
	}
	v = DeepCopy(v)
	switch t := x.Target.(type) {
	case Name:
		if isPredefined(t.N) {
			return nil, ip.fault(&ZErr{Kind: "predefined", Msg: t.N})
		}
		b, _ := ip.lookupLexical(sc, t.N)
		if b == nil {
			for _, ls := range ip.live {
				if _, ok := ls.vars[t.N]; ok {
					panic(&Unspec{"assignment to a dynamically visible name"})
				}
			}
			return nil, ip.fault(&ZErr{Code: 42, Kind: "name-undefined", Msg: t.N})
		}
		ip.checkOwner(b, sc, t.N)
		if b.konst {
			return nil, ip.fault(&ZErr{Code: 44, Kind: "const-assign", Msg: t.N})
		}
		b.v = v
		return v, nil
	case Index:
		rv, err := ip.eval(t.Recv, sc)
		if err != nil {
			return nil, err
		}
		if _, ok := t.Idx.(Name); ok {
			panic(&Unspec{"# with a bare identifier (U4)"})
		}
		iv, err := ip.eval(t.Idx, sc)
		if err != nil {
			return nil, err
		}
		for _, it := range ip.iterating {
			if it == rv {
				panic(&Unspec{"mutation of a collection being iterated (U2)"})
			}
		}
		switch r := rv.(type) {
		case *VList:
			f, ok := num(iv)
			if !ok {
				return nil, ip.fault(&ZErr{Kind: "type", Msg: "list index not a number"})
			}
			if f != math.Trunc(f) || math.IsInf(f, 0) || math.IsNaN(f) {
				panic(&Unspec{"non-integer list index (U4)"})
			}
			i := int(f)
			if i < 1 || i > len(r.Items) {
				return nil, ip.fault(&ZErr{Kind: "index", Msg: "out of range"})
			}
			r.Items[i-1] = v
			return v, nil
		case *VDict:
			k, ok := dictKey(iv)
			if !ok {
				return nil, ip.fault(&ZErr{Kind: "type", Msg: "dict key type"})
			}
			r.Set(k, v)
			return v, nil
		}
		return nil, ip.fault(&ZErr{Kind: "type", Msg: "index of non-collection"})
	case Member:
		rv, err := ip.eval(t.Recv, sc)
		if err != nil {
			return nil, err
		}
		return v, ip.setProp(rv, t.Prop, v)
	case ThisProp:
		this := ip.cur().this
		if this == nil {
			return nil, ip.fault(&ZErr{Kind: "no-this", Msg: "其 outside a method"})
		}
		return v, ip.setProp(this, t.Prop, v)
	}
	panic("znref: bad assignment target")
}

func (ip *Interp) evalBin(x Bin, sc *scope) (Value, error) {
	switch x.Op {
	case "且", "或":
		lv, err := ip.eval(x.L, sc)
		if err != nil {
			return nil, err
		}
		lb, ok := lv.(VBool)
		if !ok {
			return nil, ip.fault(&ZErr{Kind: "type", Msg: "logic on non-boolean"})
		}
		if x.Op == "且" && !bool(lb) {
			return VBool(false), nil
		}
		if x.Op == "或" && bool(lb) {
			return VBool(true), nil
		}
		rv, err := ip.eval(x.R, sc)
		if err != nil {
			return nil, err
		}
		rb, ok := rv.(VBool)
		if !ok {
			return nil, ip.fault(&ZErr{Kind: "type", Msg: "logic on non-boolean"})
		}
		return rb, nil
	}
	lv, err := ip.eval(x.L, sc)
	if err != nil {
		return nil, err
	}
	// The statement fixes left-to-right evaluation of operands but not whether the right
	// operand is still evaluated once the left one is already known to be ill-typed: such
	// cases are only specified when the right operand has no observable effect.
	switch x.Op {
	case "+", "-", "*", "/", "|", "%", ">", "<", ">=", "<=":
		if _, isNum := lv.(VNum); !isNum && HasEffect(x.R) {
			if _, isS := lv.(VStr); !(isS && x.Op == "%") {
				panic(&Unspec{"left operand ill-typed and right operand has effects"})
			}
		}
	}
	rv, err := ip.eval(x.R, sc)
	if err != nil {
		return nil, err
	}
	if _, ok := lv.(*unspecValue); ok {
		panic(&Unspec{"value of a method without 输出"})
	}
	if _, ok := rv.(*unspecValue); ok {
		panic(&Unspec{"value of a method without 输出"})
	}
	switch x.Op {
	case "+", "-", "*", "/", "|", "%":
		a, okA := num(lv)
		b, okB := num(rv)
		if x.Op == "%" {
			if _, isS := lv.(VStr); isS {
				if l, isL := rv.(*VList); isL {
					// formatting is C14's subject; only two certain errors are modelled here:
					// a '{' that is never closed, and a template made of plain text and {}
					// placeholders whose number differs from the number of arguments
					if bad, certain := formatCertainError(string(lv.(VStr)), len(l.Items)); certain && bad {
						return nil, ip.fault(&ZErr{Kind: "format", Msg: "malformed template or argument count"})
					}
					panic(&Unspec{"text % list is formatting (C14)"})
				}
			}
		}
		if !okA || !okB {
			return nil, ip.fault(&ZErr{Kind: "type", Msg: "arithmetic on non-number"})
		}
		switch x.Op {
		case "+":
			return VNum(a + b), nil
		case "-":
			return VNum(a - b), nil
		case "*":
			return VNum(a * b), nil
		case "/":
			if b == 0 {
				return nil, ip.fault(&ZErr{Kind: "div-zero"})
			}
			return VNum(a / b), nil
		case "|":
			if b == 0 {
				return nil, ip.fault(&ZErr{Kind: "div-zero"})
			}
			return VNum(math.Floor(a / b)), nil
		case "%":
			if b == 0 {
				return nil, ip.fault(&ZErr{Kind: "div-zero"})
			}
			return VNum(a - math.Floor(a/b)*b), nil
		}
	case "==", "/=", "为", "不为":
		eq, plain := StructEq(lv, rv)
		if !plain {
			panic(&Unspec{"equality on non-plain values"})
		}
		if x.Op == "/=" || x.Op == "不为" {
			return VBool(!eq), nil
		}
		return VBool(eq), nil
	case ">", "<", ">=", "<=":
		a, okA := num(lv)
		b, okB := num(rv)
		if !okA || !okB {
			return nil, ip.fault(&ZErr{Kind: "type", Msg: "ordering on non-number"})
		}
		switch x.Op {
		case ">":
			return VBool(a > b), nil
		case "<":
			return VBool(a < b), nil
		case ">=":
			return VBool(a >= b), nil
		case "<=":
			return VBool(a <= b), nil
		}
	}
	panic("znref: unknown operator " + x.Op)
}

// HasEffect reports whether evaluating e can have an observable effect (a call).
func HasEffect(e Expr) bool {
	switch v := e.(type) {
	case Call, MCall, New, Assign:
		return true
	case Bin:
		return HasEffect(v.L) || HasEffect(v.R)
	case Group:
		return HasEffect(v.E)
	case ListLit:
		for _, it := range v.Items {
			if HasEffect(it) {
				return true
			}
		}
	case DictLit:
		for _, it := range v.Vals {
			if HasEffect(it) {
				return true
			}
		}
	case Member:
		return HasEffect(v.Recv)
	case Index:
		return HasEffect(v.Recv) || HasEffect(v.Idx)
	}
	return false
}

func isLvalue(e Expr) bool {
	switch e.(type) {
	case Name, Index, Member, ThisProp:
		return true
	}
	return false
}

// selfAdd models 以‹place›（自增：n） / （自减：n）: the number stored at ‹place› is changed in
// place. Places whose storage may be shared with another name in ways the statements leave
// open (parameters, loop variables, 得到 names, predefined values) are unspecified.
func (ip *Interp) selfAdd(place Expr, c CallPart, sc *scope) (Value, error) {
	if n, ok := place.(Name); ok {
		if isPredefined(n.N) {
			panic(&Unspec{"自增 on a predefined value"})
		}
		if b, _ := ip.lookupLexical(sc, n.N); b != nil {
			switch b.kind {
			case "param", "loop", "yield", "import":
				panic(&Unspec{"in-place update through a " + b.kind + " name (U2)"})
			}
		}
	}
	cur, err := ip.eval(place, sc)
	if err != nil {
		return nil, err
	}
	old, ok := cur.(VNum)
	if !ok {
		// not a number: fall back to the ordinary method dispatch (unknown method etc.)
		args, err := ip.evalArgs(c.Args, sc)
		if err != nil {
			return nil, err
		}
		return ip.invoke(cur, c.Fn, args)
	}
	args, err := ip.evalArgs(c.Args, sc)
	if err != nil {
		return nil, err
	}
	if len(args) != 1 {
		return nil, ip.memberErr("arity", c.Fn)
	}
	d, ok := args[0].(VNum)
	if !ok {
		return nil, ip.memberErr("type", c.Fn)
	}
	nv := old + d
	if c.Fn == "自减" {
		nv = old - d
	}
	// store back without the copy / constness rules of assignment: it is the same number
	switch t := place.(type) {
	case Name:
		b, _ := ip.lookupLexical(sc, t.N)
		if b == nil {
			return nil, ip.fault(&ZErr{Code: 42, Kind: "name-undefined", Msg: t.N})
		}
		ip.checkOwner(b, sc, t.N)
		b.v = nv
	default:
		_, err := ip.evalAssign(Assign{Target: place, Val: Num{V: float64(nv)}}, sc)
		if err != nil {
			return nil, err
		}
	}
	return nv, nil
}

// formatCertainError: (isError, certain). Certain only for templates without '}' outside the exact
// placeholder "{}": an unclosed '{' is malformed; otherwise the placeholder count must match.
func formatCertainError(t string, nargs int) (bool, bool) {
	rs := []rune(t)
	n := 0
	for i := 0; i < len(rs); i++ {
		switch rs[i] {
		case '{':
			if i+1 < len(rs) && rs[i+1] == '}' {
				n++
				i++
				continue
			}
			// anything else after '{': only certain when no '}' follows at all
			for j := i + 1; j < len(rs); j++ {
				if rs[j] == '}' {
					return false, false
				}
			}
			return true, true
		case '}':
			return false, false
		}
	}
	return n != nargs, true
}
