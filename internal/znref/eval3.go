package znref

import (
	"math"
	"regexp"
	"strconv"
	"strings"
	"unicode/utf8"
)

func (ip *Interp) memberErr(kind, name string) error {
	return ip.fault(&ZErr{Kind: kind, Msg: name})
}

func (ip *Interp) getProp(rv Value, prop string) (Value, error) {
	switch r := rv.(type) {
	case *VObj:
		if prop == "自身" {
			panic(&Unspec{"自身"})
		}
		if v, ok := r.Props[prop]; ok {
			return v, nil
		}
		if r.Class.Def != nil {
			for _, g := range r.Class.Def.Getters {
				if g.Name == prop {
					panic(&Unspec{"何为 getter (U5)"})
				}
			}
		}
		return nil, ip.memberErr("member", prop)
	case *VExc:
		if prop == "内容" {
			if r.Opaque {
				return &unspecValue{}, nil
			}
			return VStr(r.Msg), nil
		}
		return nil, ip.memberErr("member", prop)
	case *VList:
		switch prop {
		case "长度", "数目":
			return VNum(float64(len(r.Items))), nil
		case "首项":
			if len(r.Items) == 0 {
				panic(&Unspec{"首项 of an empty list (U4)"})
			}
			return r.Items[0], nil
		case "末项":
			if len(r.Items) == 0 {
				panic(&Unspec{"末项 of an empty list (U4)"})
			}
			return r.Items[len(r.Items)-1], nil
		case "逆序":
			n := &VList{}
			for i := len(r.Items) - 1; i >= 0; i-- {
				n.Items = append(n.Items, r.Items[i])
			}
			return n, nil
		case "文本":
			panic(&Unspec{"display text of a list"})
		}
		return nil, ip.memberErr("member", prop)
	case *VDict:
		switch prop {
		case "长度", "数目":
			return VNum(float64(len(r.Keys))), nil
		case "所有索引":
			n := &VList{}
			for _, k := range r.Keys {
				n.Items = append(n.Items, VStr(k))
			}
			return n, nil
		case "所有值":
			n := &VList{}
			for _, k := range r.Keys {
				n.Items = append(n.Items, r.M[k])
			}
			return n, nil
		}
		return nil, ip.memberErr("member", prop)
	case VStr:
		switch prop {
		case "长度", "字数":
			return VNum(float64(utf8.RuneCountInString(string(r)))), nil
		case "文本":
			return r, nil
		case "字符组":
			n := &VList{}
			for _, ch := range string(r) {
				n.Items = append(n.Items, VStr(string(ch)))
			}
			return n, nil
		}
		return nil, ip.memberErr("member", prop)
	case VNum:
		switch prop {
		case "文本", "平方", "立方", "平方根":
			panic(&Unspec{"number property " + prop})
		}
		return nil, ip.memberErr("member", prop)
	case VBool:
		if prop == "文本" {
			return VStr(DisplayStr(r)), nil
		}
		return nil, ip.memberErr("member", prop)
	case *unspecValue:
		panic(&Unspec{"value of a method without 输出"})
	}
	return nil, ip.memberErr("member", prop)
}

func (ip *Interp) setProp(rv Value, prop string, v Value) error {
	switch r := rv.(type) {
	case *VObj:
		if _, ok := r.Props[prop]; ok {
			r.Props[prop] = v
			return nil
		}
		return ip.memberErr("member", prop)
	case *VList:
		for _, it := range ip.iterating {
			if it == rv {
				panic(&Unspec{"mutation of a collection being iterated (U2)"})
			}
		}
		switch prop {
		case "首项":
			if len(r.Items) == 0 {
				panic(&Unspec{"首项 of an empty list (U4)"})
			}
			r.Items[0] = v
			return nil
		case "末项":
			if len(r.Items) == 0 {
				panic(&Unspec{"末项 of an empty list (U4)"})
			}
			r.Items[len(r.Items)-1] = v
			return nil
		}
		return ip.memberErr("member", prop)
	case *unspecValue:
		panic(&Unspec{"value of a method without 输出"})
	}
	return ip.memberErr("member", prop)
}

func intArg(v Value) (int, bool, bool) { // value, isNumber, isInteger
	f, ok := num(v)
	if !ok {
		return 0, false, false
	}
	if f != math.Trunc(f) || math.IsInf(f, 0) || math.IsNaN(f) || math.Abs(f) > 1e9 {
		return 0, true, false
	}
	return int(f), true, true
}

var reNumeric = regexp.MustCompile(`^[+-]?\d+(\.\d+)?([eE][+-]\d+|\*(10)?\^[+-]?\d+)?$`)

// invoke calls a member method.
func (ip *Interp) invoke(rv Value, name string, args []Value) (Value, error) {
	for _, a := range args {
		if _, ok := a.(*unspecValue); ok {
			panic(&Unspec{"value of a method without 输出"})
		}
	}
	switch r := rv.(type) {
	case *VObj:
		if r.Class.Def != nil {
			for _, m := range r.Class.Def.Methods {
				if m.Name == name {
					return ip.callFunc(&VFunc{Def: m, Module: r.Class.Module, Scope: r.Class.Scope}, r, args)
				}
			}
		}
		return nil, ip.memberErr("method", name)
	case *VList:
		mutating := map[string]bool{"后增": true, "前增": true, "左移": true, "右移": true, "交换": true, "合并": true, "新增": true, "添加": true}
		if mutating[name] {
			for _, it := range ip.iterating {
				if it == rv {
					panic(&Unspec{"mutation of a collection being iterated (U2)"})
				}
			}
		}
		switch name {
		case "后增":
			if len(args) != 1 {
				return nil, ip.memberErr("arity", name)
			}
			r.Items = append(r.Items, DeepCopy(args[0]))
			return &unspecValue{}, nil
		case "前增":
			if len(args) != 1 {
				return nil, ip.memberErr("arity", name)
			}
			r.Items = append([]Value{DeepCopy(args[0])}, r.Items...)
			return &unspecValue{}, nil
		case "左移":
			if len(r.Items) == 0 {
				panic(&Unspec{"左移 on an empty list"})
			}
			v := r.Items[0]
			r.Items = append([]Value{}, r.Items[1:]...)
			return v, nil
		case "右移":
			if len(r.Items) == 0 {
				panic(&Unspec{"右移 on an empty list"})
			}
			v := r.Items[len(r.Items)-1]
			r.Items = append([]Value{}, r.Items[:len(r.Items)-1]...)
			return v, nil
		case "交换":
			if len(args) != 2 {
				return nil, ip.memberErr("arity", name)
			}
			i, n1, i1 := intArg(args[0])
			j, n2, i2 := intArg(args[1])
			if !n1 || !n2 {
				return nil, ip.memberErr("type", name)
			}
			if !i1 || !i2 {
				panic(&Unspec{"non-integer index"})
			}
			if i < 1 || i > len(r.Items) || j < 1 || j > len(r.Items) {
				return nil, ip.fault(&ZErr{Kind: "index", Msg: "out of range"})
			}
			r.Items[i-1], r.Items[j-1] = r.Items[j-1], r.Items[i-1]
			return &unspecValue{}, nil
		case "合并":
			for _, a := range args {
				if _, ok := a.(*VList); !ok {
					return nil, ip.memberErr("type", name)
				}
			}
			// concatenation of the arguments as they are at call time
			snapshot := append([]Value{}, r.Items...)
			for _, a := range args {
				src := a.(*VList).Items
				if a == rv {
					src = snapshot
				}
				for _, it := range src {
					// the merged items are stored as copies (C07: a change made through the
					// argument's name afterwards must not show through the receiver's name)
					r.Items = append(r.Items, DeepCopy(it))
				}
			}
			return &unspecValue{}, nil
		case "包含":
			if len(args) != 1 {
				return nil, ip.memberErr("arity", name)
			}
			for _, it := range r.Items {
				eq, plain := StructEq(it, args[0])
				if !plain {
					panic(&Unspec{"equality on non-plain values"})
				}
				if eq {
					return VBool(true), nil
				}
			}
			return VBool(false), nil
		case "寻找":
			if len(args) != 1 {
				return nil, ip.memberErr("arity", name)
			}
			for _, it := range r.Items {
				eq, plain := StructEq(it, args[0])
				if !plain {
					panic(&Unspec{"equality on non-plain values"})
				}
				if eq {
					return &unspecValue{}, nil // base of the index is not documented consistently (U4)
				}
			}
			return VNum(-1), nil
		case "拼接":
			if len(args) != 1 {
				return nil, ip.memberErr("arity", name)
			}
			sep, ok := args[0].(VStr)
			if !ok {
				return nil, ip.memberErr("type", name)
			}
			parts := []string{}
			for _, it := range r.Items {
				s, ok := it.(VStr)
				if !ok {
					return nil, ip.memberErr("type", name)
				}
				parts = append(parts, string(s))
			}
			return VStr(strings.Join(parts, string(sep))), nil
		case "新增", "添加":
			panic(&Unspec{"新增 index convention (U4)"})
		}
		return nil, ip.memberErr("method", name)
	case *VDict:
		switch name {
		case "写入":
			if len(args) != 2 {
				return nil, ip.memberErr("arity", name)
			}
			k, ok := args[0].(VStr)
			if !ok {
				return nil, ip.memberErr("type", name)
			}
			for _, it := range ip.iterating {
				if it == rv {
					panic(&Unspec{"mutation of a collection being iterated (U2)"})
				}
			}
			r.Set(string(k), DeepCopy(args[1]))
			return &unspecValue{}, nil
		case "移除":
			if len(args) != 1 {
				return nil, ip.memberErr("arity", name)
			}
			k, ok := args[0].(VStr)
			if !ok {
				return nil, ip.memberErr("type", name)
			}
			for _, it := range ip.iterating {
				if it == rv {
					panic(&Unspec{"mutation of a collection being iterated (U2)"})
				}
			}
			r.Del(string(k))
			return &unspecValue{}, nil
		case "读取":
			panic(&Unspec{"读取"})
		}
		return nil, ip.memberErr("method", name)
	case VStr:
		s := string(r)
		strArgs := func(n int) ([]string, error) {
			if len(args) != n {
				return nil, ip.memberErr("arity", name)
			}
			out := []string{}
			for _, a := range args {
				t, ok := a.(VStr)
				if !ok {
					return nil, ip.memberErr("type", name)
				}
				out = append(out, string(t))
			}
			return out, nil
		}
		switch name {
		case "取样":
			if len(args) != 2 {
				return nil, ip.memberErr("arity", name)
			}
			i, n1, i1 := intArg(args[0])
			j, n2, i2 := intArg(args[1])
			if !n1 || !n2 {
				return nil, ip.memberErr("type", name)
			}
			rs := []rune(s)
			if !i1 || !i2 || i < 1 || j < i || j > len(rs) {
				panic(&Unspec{"取样 outside 1<=i<=j<=length"})
			}
			return VStr(string(rs[i-1 : j])), nil
		case "替换":
			a, err := strArgs(2)
			if err != nil {
				return nil, err
			}
			if a[0] == "" {
				panic(&Unspec{"替换 of the empty text"})
			}
			return VStr(strings.ReplaceAll(s, a[0], a[1])), nil
		case "分隔":
			a, err := strArgs(1)
			if err != nil {
				return nil, err
			}
			if a[0] == "" {
				panic(&Unspec{"分隔 by the empty text"})
			}
			n := &VList{}
			for _, p := range strings.Split(s, a[0]) {
				n.Items = append(n.Items, VStr(p))
			}
			return n, nil
		case "匹配":
			a, err := strArgs(1)
			if err != nil {
				return nil, err
			}
			return VBool(strings.Contains(s, a[0])), nil
		case "匹配开头":
			a, err := strArgs(1)
			if err != nil {
				return nil, err
			}
			return VBool(strings.HasPrefix(s, a[0])), nil
		case "匹配结尾":
			a, err := strArgs(1)
			if err != nil {
				return nil, err
			}
			return VBool(strings.HasSuffix(s, a[0])), nil
		case "拼接":
			out := s
			for _, a := range args {
				t, ok := a.(VStr)
				if !ok {
					return nil, ip.memberErr("type", name)
				}
				out += string(t)
			}
			return VStr(out), nil
		case "转换数值":
			if len(args) != 0 {
				panic(&Unspec{"转换数值 with arguments"})
			}
			if !reNumeric.MatchString(s) {
				if _, err := strconv.ParseFloat(s, 64); err == nil {
					panic(&Unspec{"转换数值 of an undocumented numeric spelling"})
				}
				return nil, &Thrown{Val: &VExc{Opaque: true}, Frames: ip.snapshotFrames()}
			}
			t := strings.Replace(strings.Replace(s, "*10^", "e", 1), "*^", "e", 1)
			f, err := strconv.ParseFloat(t, 64)
			if err != nil && math.IsInf(f, 0) {
				panic(&Unspec{"转换数值 overflow"})
			}
			return VNum(f), nil
		case "去除空格", "转小写-英文", "转大写-英文", "格式化":
			panic(&Unspec{"text method " + name})
		}
		return nil, ip.memberErr("method", name)
	case VNum:
		switch name {
		case "加", "减", "乘", "除", "自增", "自减", "向下取整", "向上取整":
			panic(&Unspec{"number method " + name})
		}
		return nil, ip.memberErr("method", name)
	case *unspecValue:
		panic(&Unspec{"value of a method without 输出"})
	}
	return nil, ip.memberErr("method", name)
}

// ---------------------------------------------------------------- modules (C15)

func (ip *Interp) doImport(m *Module, root *scope, im Import) error {
	var exports map[string]Value
	var order []string
	if im.Std {
		lib, ok := ip.Libs[im.Name]
		if !ok {
			return ip.fault(&ZErr{Code: 64, Kind: "lib-missing", Msg: im.Name})
		}
		exports = lib
		for k := range lib {
			order = append(order, k)
		}
	} else {
		dep, ok := ip.modules[im.Name]
		if !ok {
			prog, ok := ip.Files[im.Name]
			if !ok {
				return ip.fault(&ZErr{Code: 60, Kind: "module-missing", Msg: im.Name})
			}
			dep = &Module{Name: im.Name, Prog: prog, Exports: map[string]Value{}}
			ip.modules[im.Name] = dep
			ip.LoadOrder = append(ip.LoadOrder, im.Name)
			if _, _, err := ip.runModule(dep, false); err != nil {
				return err
			}
		} else if dep.Running {
			return ip.fault(&ZErr{Code: 63, Kind: "cycle", Msg: im.Name})
		}
		exports = dep.Exports
		order = dep.ExportOrder
	}
	if im.Name == "" {
		panic(&Unspec{"empty module name"})
	}
	bind := func(n string, v Value) error {
		if isPredefined(n) {
			return ip.fault(&ZErr{Kind: "predefined", Msg: n})
		}
		if _, ok := root.vars[n]; ok {
			return ip.fault(&ZErr{Code: 43, Kind: "redeclared", Msg: n})
		}
		root.vars[n] = &binding{v: v, konst: true, kind: "import", owner: root.frame}
		return nil
	}
	if len(im.Items) == 0 {
		// when two exports collide with existing names, which one is reported first is not specified
		coll := 0
		for _, n := range order {
			if _, ok := root.vars[n]; ok {
				coll++
			}
		}
		for _, n := range order {
			if err := bind(n, exports[n]); err != nil {
				return err
			}
		}
		return nil
	}
	for _, n := range im.Items {
		v, ok := exports[n]
		if !ok {
			panic(&Unspec{"selective import of a name the module does not export"})
		}
		if err := bind(n, v); err != nil {
			return err
		}
	}
	return nil
}
