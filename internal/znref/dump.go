package znref

import (
	"strconv"
	"strings"
)

// DumpProgram renders the generator's tree in the same canonical S-expression form that the
// worker produces from /repo's syntax tree (see worker/dump.go): the tree the grammar prescribes.
func DumpProgram(p *Program) string {
	var sb strings.Builder
	sb.WriteString("(prog (imports")
	for _, im := range p.Imports {
		kind := "custom"
		if im.Std {
			kind = "std"
		}
		sb.WriteString(" (import " + kind + " " + strconv.Quote(im.Name) + " (items")
		for _, it := range im.Items {
			sb.WriteString(" " + dumpID(it))
		}
		sb.WriteString("))")
	}
	sb.WriteString(") ")
	if len(p.Inputs) == 0 && len(p.Body) == 0 && len(p.Catches) == 0 {
		sb.WriteString("nil)")
		return sb.String()
	}
	dumpExec(&sb, p.Inputs, p.Body, p.Catches)
	sb.WriteString(")")
	return sb.String()
}

func dumpID(n string) string { return "(id " + strconv.Quote(n) + ")" }

func dumpExec(sb *strings.Builder, inputs []string, body []Stmt, catches []Catch) {
	sb.WriteString("(exec (inputs")
	for _, in := range inputs {
		sb.WriteString(" " + dumpID(in))
	}
	sb.WriteString(") ")
	dumpBlock(sb, body)
	sb.WriteString(" (catches")
	for _, c := range catches {
		sb.WriteString(" (catch " + dumpID(c.Class) + " ")
		dumpBlock(sb, c.Body)
		sb.WriteString(")")
	}
	sb.WriteString("))")
}

func dumpBlock(sb *strings.Builder, body []Stmt) {
	sb.WriteString("(block")
	for _, s := range body {
		sb.WriteString(" ")
		dumpStmt(sb, s)
	}
	sb.WriteString(")")
}

func dumpFunc(sb *strings.Builder, f *FuncDef, getter bool) {
	kind := "func"
	if f.Ctor {
		kind = "ctor"
	}
	if getter || f.Getter {
		kind = "getter"
	}
	sb.WriteString("(" + kind + " " + dumpID(f.Name) + " ")
	dumpExec(sb, f.Params, f.Body, f.Catches)
	sb.WriteString(")")
}

func dumpStmt(sb *strings.Builder, s Stmt) {
	switch v := s.(type) {
	case Tagged:
		dumpStmt(sb, v.S)
	case Let:
		sb.WriteString("(let")
		for _, p := range v.Pairs {
			kind := "var"
			if p.Const {
				kind = "const"
			}
			sb.WriteString(" (pair " + kind + " (ids")
			for _, n := range p.Names {
				sb.WriteString(" " + dumpID(n))
			}
			sb.WriteString(") ")
			dumpExpr(sb, p.Val)
			sb.WriteString(")")
		}
		sb.WriteString(")")
	case ExprStmt:
		dumpExpr(sb, v.E)
	case Empty:
		sb.WriteString("(empty)")
	case If:
		sb.WriteString("(if ")
		dumpExpr(sb, v.Cond)
		sb.WriteString(" ")
		dumpBlock(sb, v.Then)
		for _, e := range v.Elifs {
			sb.WriteString(" (elif ")
			dumpExpr(sb, e.Cond)
			sb.WriteString(" ")
			dumpBlock(sb, e.Body)
			sb.WriteString(")")
		}
		if v.HasElse {
			sb.WriteString(" (else ")
			dumpBlock(sb, v.Else)
			sb.WriteString(")")
		}
		sb.WriteString(")")
	case While:
		sb.WriteString("(while ")
		dumpExpr(sb, v.Cond)
		sb.WriteString(" ")
		dumpBlock(sb, v.Body)
		sb.WriteString(")")
	case Iter:
		sb.WriteString("(iter (ids")
		for _, n := range v.Names {
			sb.WriteString(" " + dumpID(n))
		}
		sb.WriteString(") ")
		dumpExpr(sb, v.Over)
		sb.WriteString(" ")
		dumpBlock(sb, v.Body)
		sb.WriteString(")")
	case *FuncDef:
		dumpFunc(sb, v, false)
	case FuncDef:
		dumpFunc(sb, &v, false)
	case ClassDef:
		dumpClass(sb, &v)
	case *ClassDef:
		dumpClass(sb, v)
	case Return:
		sb.WriteString("(return ")
		dumpExpr(sb, v.E)
		sb.WriteString(")")
	case Throw:
		sb.WriteString("(throw " + dumpID(v.Class))
		for _, a := range v.Args {
			sb.WriteString(" ")
			dumpExpr(sb, a)
		}
		sb.WriteString(")")
	case Break:
		sb.WriteString("(break)")
	case Continue:
		sb.WriteString("(continue)")
	default:
		sb.WriteString("(unknown-stmt)")
	}
}

func dumpClass(sb *strings.Builder, c *ClassDef) {
	sb.WriteString("(class " + dumpID(c.Name) + " (props")
	for _, p := range c.Props {
		sb.WriteString(" (prop " + dumpID(p.Name) + " ")
		dumpExpr(sb, p.Val)
		sb.WriteString(")")
	}
	sb.WriteString(") (methods")
	for _, m := range c.Methods {
		sb.WriteString(" ")
		dumpFunc(sb, m, false)
	}
	sb.WriteString(") (getters")
	for _, g := range c.Getters {
		sb.WriteString(" ")
		dumpFunc(sb, g, true)
	}
	sb.WriteString("))")
}

var dumpOps = map[string]string{"+": "add", "-": "sub", "*": "mul", "/": "div", "|": "intdiv", "%": "mod",
	"==": "eq", "/=": "neq", ">": "gt", "<": "lt", ">=": "gte", "<=": "lte", "为": "xeq", "不为": "xneq", "且": "and", "或": "or"}

func dumpCallPart(sb *strings.Builder, c CallPart, yield string) {
	sb.WriteString("(call " + dumpID(c.Fn) + " (args")
	for _, a := range c.Args {
		sb.WriteString(" ")
		dumpExpr(sb, a)
	}
	sb.WriteString(")")
	if yield != "" {
		sb.WriteString(" (yield " + dumpID(yield) + ")")
	}
	sb.WriteString(")")
}

func dumpExpr(sb *strings.Builder, e Expr) {
	switch v := e.(type) {
	case Num:
		sb.WriteString(dumpID(v.Lit))
	case Str:
		sb.WriteString("(str " + strconv.Quote(v.S) + ")")
	case Name:
		sb.WriteString(dumpID(v.N))
	case Group:
		dumpExpr(sb, v.E)
	case Bin:
		sb.WriteString("(" + dumpOps[v.Op] + " ")
		dumpExpr(sb, v.L)
		sb.WriteString(" ")
		dumpExpr(sb, v.R)
		sb.WriteString(")")
	case ListLit:
		sb.WriteString("(list")
		for _, it := range v.Items {
			sb.WriteString(" ")
			dumpExpr(sb, it)
		}
		sb.WriteString(")")
	case DictLit:
		sb.WriteString("(dict")
		for i, k := range v.Keys {
			sb.WriteString(" (kv ")
			if v.KeyForm == nil || v.KeyForm[i] == 0 {
				sb.WriteString("(str " + strconv.Quote(k) + ")")
			} else {
				sb.WriteString(dumpID(k))
			}
			sb.WriteString(" ")
			dumpExpr(sb, v.Vals[i])
			sb.WriteString(")")
		}
		sb.WriteString(")")
	case Call:
		dumpCallPart(sb, v.CallPart, v.Yield)
	case MCall:
		sb.WriteString("(mcall ")
		dumpExpr(sb, v.Recv)
		sb.WriteString(" (chain")
		for _, c := range v.Chain {
			sb.WriteString(" ")
			dumpCallPart(sb, c, "")
		}
		sb.WriteString(")")
		if v.Yield != "" {
			sb.WriteString(" (yield " + dumpID(v.Yield) + ")")
		}
		sb.WriteString(")")
	case Member:
		sb.WriteString("(member ")
		dumpExpr(sb, v.Recv)
		sb.WriteString(" " + dumpID(v.Prop) + ")")
	case ThisProp:
		sb.WriteString("(thisprop " + dumpID(v.Prop) + ")")
	case Index:
		sb.WriteString("(index ")
		dumpExpr(sb, v.Recv)
		sb.WriteString(" ")
		dumpExpr(sb, v.Idx)
		sb.WriteString(")")
	case New:
		sb.WriteString("(new " + dumpID(v.Class))
		for _, a := range v.Args {
			sb.WriteString(" ")
			dumpExpr(sb, a)
		}
		sb.WriteString(")")
	case Assign:
		sb.WriteString("(assign ")
		dumpExpr(sb, v.Target)
		sb.WriteString(" ")
		dumpExpr(sb, v.Val)
		sb.WriteString(")")
	default:
		sb.WriteString("(unknown-expr)")
	}
}
