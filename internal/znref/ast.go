// Package znref is an independent reference model of the Zn core language: an AST that
// generators build, a renderer from that AST to Zn source (under layout choices the manual
// licenses) and an evaluator written against the manual and the property statements.
// It shares no code with /repo.
package znref

type Expr interface{}
type Stmt interface{}

type Num struct {
	Lit string  // spelling in the source
	V   float64 // value the spelling denotes
}
type Str struct{ S string }
type Name struct{ N string }
type Bin struct {
	Op   string // + - * / | % == /= > < >= <= 为 不为 且 或
	L, R Expr
}
type Group struct{ E Expr } // explicit { } around E
type ListLit struct{ Items []Expr }
type DictLit struct {
	Keys    []string
	KeyForm []int // 0: “text” key, 1: bare identifier / number key
	Vals    []Expr
}
type CallPart struct {
	Fn   string
	Args []Expr
}
type Call struct {
	CallPart
	Yield string
}
type MCall struct {
	Recv  Expr
	Chain []CallPart
	Yield string
}
type Member struct {
	Recv Expr
	Prop string
}
type ThisProp struct{ Prop string }
type Index struct {
	Recv Expr
	Idx  Expr
}
type New struct {
	Class string
	Args  []Expr
}
type Assign struct {
	Target Expr // Name, Index, Member, ThisProp
	Val    Expr
}

type LetPair struct {
	Names []string
	Const bool
	Val   Expr
}
type Let struct {
	Pairs []LetPair
	Block bool // 令： block form
}
type ExprStmt struct{ E Expr }
type Elif struct {
	Cond Expr
	Body []Stmt
}
type If struct {
	Cond    Expr
	Then    []Stmt
	Elifs   []Elif
	Else    []Stmt
	HasElse bool
}
type While struct {
	Cond Expr
	Body []Stmt
}
type Iter struct {
	Names []string
	Over  Expr
	Body  []Stmt
}
type Catch struct {
	Class string
	Body  []Stmt
}
type FuncDef struct {
	Name    string
	Params  []string
	Body    []Stmt
	Catches []Catch
	Ctor    bool
	Getter  bool
}
type PropDef struct {
	Name string
	Val  Expr
}
type ClassDef struct {
	Name    string
	Props   []PropDef
	Methods []*FuncDef
	Getters []*FuncDef
}
type Return struct{ E Expr }
type Throw struct {
	Class string
	Args  []Expr
}
// Verbatim renders the given physical lines as they are and executes S instead
// (used for multi-line literals / comments whose layout the renderer would not produce).
type Verbatim struct {
	Lines []string
	S     Stmt
}
type Break struct{}
type Continue struct{}
type Empty struct{}

// Mark is a pseudo statement: （显示：“tag”、exprs…） used as trace probe.
// It is rendered as an ordinary call of 显示.

type Import struct {
	Name  string
	Std   bool
	Items []string
}

type Program struct {
	Imports []Import
	Inputs  []string
	Body    []Stmt
	Catches []Catch
}

// helpers used by generators
func N(n string) Name { return Name{n} }
func NumLit(lit string, v float64) Num { return Num{lit, v} }
func S(s string) Str { return Str{s} }
func B(op string, l, r Expr) Bin { return Bin{op, l, r} }
func Show(args ...Expr) ExprStmt {
	return ExprStmt{Call{CallPart: CallPart{Fn: "显示", Args: args}}}
}
func CallE(fn string, args ...Expr) Call { return Call{CallPart: CallPart{Fn: fn, Args: args}} }
func LetS(name string, v Expr) Let   { return Let{Pairs: []LetPair{{Names: []string{name}, Val: v}}} }
func ConstS(name string, v Expr) Let { return Let{Pairs: []LetPair{{Names: []string{name}, Val: v, Const: true}}} }
func Set(target Expr, v Expr) ExprStmt { return ExprStmt{Assign{target, v}} }
