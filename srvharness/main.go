//go:build verif

// srvharness: drives the real HTTP handlers of pkg/server concurrently (built with -race)
// and checks at the client boundary that every response belongs to its own request.
package main

import (
	"bytes"
	"encoding/json"
	"flag"
	"fmt"
	"math/rand"
	"net/http/httptest"
	"os"
	"path/filepath"
	"sort"
	"strings"
	"sync"

	"github.com/DemoHn/Zn/pkg/common"
	"github.com/DemoHn/Zn/pkg/exec"
	r "github.com/DemoHn/Zn/pkg/runtime"
	"github.com/DemoHn/Zn/pkg/server"
	zfile "github.com/DemoHn/Zn/stdlib/file"
	zjson "github.com/DemoHn/Zn/stdlib/json"
)

type summary struct {
	Mode       string   `json:"mode"`
	Goroutines int      `json:"goroutines"`
	Requests   int      `json:"requests"`
	Crossed    int      `json:"crossed"`
	Errors     int      `json:"errors"`
	Distinct   int      `json:"distinct"`
	Samples    []string `json:"samples"`
}

func newInterp() *exec.Interpreter {
	return exec.NewInterpreter("verif").SetExternalLibs([]*r.Library{zjson.Export(), zfile.Export()})
}

// usedInterp: an interpreter object that has already run a (long) script before a handler is built
// on it - what it kept from that run must play no part in the requests served afterwards
func usedInterp() *exec.Interpreter {
	ip := newInterp()
	var sb strings.Builder
	for i := 0; i < 400; i++ {
		sb.WriteString(fmt.Sprintf("令预备变量%d = %d + 1\n", i, i))
	}
	sb.WriteString("输出 “预备完”\n")
	ip.LoadScript([]rune(sb.String())).Execute(r.ElementMap{})
	return ip
}

func main() {
	mode := flag.String("mode", "playground", "playground | http | separate | headers")
	g := flag.Int("g", 8, "goroutines")
	n := flag.Int("n", 100, "requests per goroutine")
	seed := flag.Int64("seed", 1, "seed")
	dir := flag.String("dir", "", "scratch dir")
	flag.Parse()
	sum := summary{Mode: *mode, Goroutines: *g}
	var mu sync.Mutex
	note := func(s string) {
		mu.Lock()
		if len(sum.Samples) < 8 {
			sum.Samples = append(sum.Samples, s)
		}
		mu.Unlock()
	}
	program := func(prefix string, tok string, spin int) string {
		// (every predefined / library function is called, 取随机数 several times per pass: what
		// they share process-wide is exercised by all goroutines at once)
		return fmt.Sprintf("导入《@JSON》\n%s令计 = 0\n令典 = 【“a” = 1】\n令随 = 0\n每当计 < %d：\n\t计 = 计 + 1\n\t典#“k” = 计\n\t随 = 随 +（取随机数）+（取随机数）\n令文 =（生成JSON：典）\n令回 =（解析JSON：文）\n令读 = 以典（读取：“a”）\n令读二 = 以【“x” = 【“y” = 1】】（读取：“x”、“y”）\n令片 = 以“a，b”（分隔：“，”）\n令替 = 以“aXb”（替换：“X”、“-”）\n输出“%s”\n", prefix, spin, tok)
	}
	switch *mode {
	case "playground":
		hFresh := server.NewZnPlaygroundHandler(newInterp())
		hUsed := server.NewZnPlaygroundHandler(usedInterp())
		run(*g, *n, *seed, &sum, &mu, note, func(id string, rng *rand.Rand) (string, string) {
			h := hFresh
			if rng.Intn(2) == 0 {
				h = hUsed
			}
			src := program("", id, 20+rng.Intn(200))
			varInput := ""
			if rng.Intn(2) == 0 {
				src = program("输入标\n", id, 20+rng.Intn(200))
				src = src[:strings.LastIndex(src, "输出")] + "输出标\n"
				varInput = "标 = “" + id + "”"
			}
			body, _ := json.Marshal(map[string]string{"VarInput": varInput, "SourceCode": src})
			req := httptest.NewRequest("POST", "/", bytes.NewReader(body))
			w := httptest.NewRecorder()
			h.ServeHTTP(w, req)
			return w.Body.String(), fmt.Sprint(w.Code)
		})
	case "http":
		// one entry file per token family: the handler is created per file, requests carry the token in the query
		entry := filepath.Join(*dir, "entry.zn")
		os.WriteFile(entry, []byte("输入当前请求\n令计 = 0\n每当计 < 50：\n\t计 = 计 + 1\n输出当前请求之查询参数#“t”\n"), 0o644)
		h := server.NewZnHttpHandler(newInterp(), entry)
		// a second handler on the same interpreter object with another entry file
		entry2 := filepath.Join(*dir, "entry2.zn")
		os.WriteFile(entry2, []byte("输入当前请求\n输出“二-”\n"), 0o644)
		ip := usedInterp()
		h1 := server.NewZnHttpHandler(ip, entry)
		h2 := server.NewZnHttpHandler(ip, entry2)
		run(*g, *n, *seed, &sum, &mu, note, func(id string, rng *rand.Rand) (string, string) {
			w := httptest.NewRecorder()
			switch rng.Intn(3) {
			case 0:
				h.ServeHTTP(w, httptest.NewRequest("GET", "/x?t="+id, nil))
				return w.Body.String(), fmt.Sprint(w.Code)
			case 1:
				h1.ServeHTTP(w, httptest.NewRequest("GET", "/x?t="+id, nil))
				return w.Body.String(), fmt.Sprint(w.Code)
			default:
				h2.ServeHTTP(w, httptest.NewRequest("GET", "/x?t="+id, nil))
				if w.Body.String() == "二-" {
					return id, fmt.Sprint(w.Code)
				}
				return "entry2:" + w.Body.String(), fmt.Sprint(w.Code)
			}
		})
	case "separate":
		// separate interpreter objects per execution: only process-wide state is shared
		run(*g, *n, *seed, &sum, &mu, note, func(id string, rng *rand.Rand) (string, string) {
			ip := newInterp()
			src := program("", id, 20+rng.Intn(100))
			if rng.Intn(3) == 0 {
				src = program("以数值（自增：1）\n以“1*^2”（转换数值）\n", id, 20+rng.Intn(100))
			}
			v, err := ip.LoadScript([]rune(src)).Execute(r.ElementMap{})
			if err != nil {
				return "ERR:" + err.Error(), "500"
			}
			return v.String(), "200"
		})
	case "bigfiles":
		// C17: several goroutines load and run different multi-block source files (with modules)
		// at the same time: every one must get its own program, decoded losslessly
		nfiles := *g
		paths := make([]string, nfiles)
		for k := 0; k < nfiles; k++ {
			d := filepath.Join(*dir, fmt.Sprintf("big%d", k))
			os.MkdirAll(d, 0o755)
			var sb strings.Builder
			sb.WriteString(fmt.Sprintf("导入“模%d”\n", k))
			filler := strings.Repeat(string(rune(0x4E00+k*7)), 61+k) + "é😀"
			for ln := 0; ln < 220; ln++ {
				sb.WriteString(fmt.Sprintf("注：第%d行 %s\n", ln, filler))
			}
			sb.WriteString(fmt.Sprintf("令尾 = “%s”\n输出【（取模：%d），尾之长度】\n", filler, k))
			paths[k] = filepath.Join(d, "main.zn")
			os.WriteFile(paths[k], []byte(sb.String()), 0o644)
			var mb strings.Builder
			for ln := 0; ln < 150; ln++ {
				mb.WriteString(fmt.Sprintf("注：模块%d 第%d行 %s\n", k, ln, filler))
			}
			mb.WriteString(fmt.Sprintf("如何取模？\n\t输入数\n\t输出 “模%d-{}” %% 【数】\n", k))
			os.WriteFile(filepath.Join(d, fmt.Sprintf("模%d.zn", k)), []byte(mb.String()), 0o644)
		}
		run(*g, *n, *seed, &sum, &mu, note, func(id string, rng *rand.Rand) (string, string) {
			var k int
			fmt.Sscanf(id, "tok-%d-", &k)
			if rng.Intn(3) == 0 {
				k = rng.Intn(nfiles)
			}
			want := fmt.Sprintf("[模%d-%d，%d]", k, k, 61+k+2)
			v, err := newInterp().LoadFile(paths[k]).Execute(r.ElementMap{})
			if err != nil {
				return "ERR(file " + fmt.Sprint(k) + "): " + err.Error(), "500"
			}
			if v.String() != want {
				return "file " + fmt.Sprint(k) + " yields " + v.String() + ", expected " + want, "200"
			}
			return id, "200"
		})
	case "badresp":
		// C10: a program served by ZnHttpHandler answers with an HTTP响应 object whose parts have
		// the wrong type or a status no HTTP response can carry. The host must answer (with an
		// error), never panic: Errors = requests during which ServeHTTP panicked
		httpLib := r.NewLibrary("@响应库")
		httpLib.RegisterClass("HTTP响应", common.CLASS_HttpResponse)
		mk := func() *exec.Interpreter {
			return exec.NewInterpreter("verif").SetExternalLibs([]*r.Library{zjson.Export(), zfile.Export(), httpLib})
		}
		pre := "导入《@响应库》\n输入当前请求\n"
		progs := map[string]string{
			"well-formed":          pre + "输出（新建HTTP响应：200、“ok”、【“x” = “1”】）\n",
			"header-is-number":     pre + "令应 = （新建HTTP响应：200、“ok”）\n应之头部 = 1\n输出应\n",
			"header-is-text":       pre + "令应 = （新建HTTP响应：200、“ok”）\n应之头部 = “x”\n输出应\n",
			"header-is-list":       pre + "令应 = （新建HTTP响应：200、“ok”）\n应之头部 = 【1，2】\n输出应\n",
			"header-is-null":       pre + "令应 = （新建HTTP响应：200、“ok”）\n应之头部 = 空\n输出应\n",
			"header-value-is-list": pre + "输出（新建HTTP响应：200、“ok”、【“x” = 【1，2】，“y” = 空，“z” = 3】）\n",
			"status-is-text":       pre + "令应 = （新建HTTP响应：200、“ok”）\n应之状态码 = “二百”\n输出应\n",
			"status-is-null":       pre + "令应 = （新建HTTP响应：200、“ok”）\n应之状态码 = 空\n输出应\n",
			"status-0":             pre + "输出（新建HTTP响应：0、“ok”）\n",
			"status-negative":      pre + "输出（新建HTTP响应：-1、“ok”）\n",
			"status-fraction":      pre + "输出（新建HTTP响应：2.5、“ok”）\n",
			"status-99":            pre + "输出（新建HTTP响应：99、“ok”）\n",
			"status-1000":          pre + "输出（新建HTTP响应：1000、“ok”）\n",
			"status-huge":          pre + "输出（新建HTTP响应：1*10^19、“ok”）\n",
			"status-infinite":      pre + "令大 = 1*10^308 * 10\n输出（新建HTTP响应：大、“ok”）\n",
			"status-nan":           pre + "令大 = 1*10^308 * 10\n输出（新建HTTP响应：大 - 大、“ok”）\n",
			"content-is-object":    pre + "令应 = （新建HTTP响应：200、“ok”）\n应之内容 = 应\n输出应\n",
			"content-is-null":      pre + "令应 = （新建HTTP响应：200、“ok”）\n应之内容 = 空\n输出应\n",
			"result-is-type":       pre + "输出 HTTP响应\n",
			"result-is-null":       pre + "输出 空\n",
			"result-is-bool":       pre + "输出 真\n",
		}
		names := []string{}
		for k := range progs {
			names = append(names, k)
		}
		sort.Strings(names)
		for si, name := range names {
			entry := filepath.Join(*dir, fmt.Sprintf("entry-b%d.zn", si))
			os.WriteFile(entry, []byte(progs[name]), 0o644)
			h := server.NewZnHttpHandler(mk(), entry)
			func() {
				w := httptest.NewRecorder()
				defer func() {
					if p := recover(); p != nil {
						sum.Errors++
						sum.Samples = append(sum.Samples, fmt.Sprintf("[%s] ServeHTTP panicked: %v", name, p))
					} else if len(sum.Samples) < 40 {
						sum.Samples = append(sum.Samples, fmt.Sprintf("[%s] status %d body %.40q", name, w.Code, w.Body.String()))
					}
				}()
				sum.Requests++
				h.ServeHTTP(w, httptest.NewRequest("GET", "/x", nil))
				if name == "well-formed" && (w.Code != 200 || w.Body.String() != "ok") {
					sum.Crossed++
				}
			}()
		}
	case "headers":
		// the same request served again and again must give the same response, byte for byte:
		// several request shapes, each with its own entry file
		httpLib := r.NewLibrary("@响应库")
		httpLib.RegisterClass("HTTP响应", common.CLASS_HttpResponse)
		mk := func() *exec.Interpreter {
			return exec.NewInterpreter("verif").SetExternalLibs([]*r.Library{zjson.Export(), zfile.Export(), httpLib})
		}
		type shape struct {
			name, src, target string
			hdr               map[string][]string
		}
		echo := "输入当前请求\n输出【“头” = 当前请求之头部，“查” = 当前请求之查询参数】\n"
		plain := map[string][]string{}
		for _, k := range []string{"X-A", "X-B", "X-C", "X-D", "X-E", "X-F", "Accept", "User-Agent"} {
			plain[k] = []string{"v-" + k}
		}
		shapes := []shape{
			{"distinct-names", echo, "/p?alpha=1&beta=2&gamma=3&delta=4&epsilon=5&zeta=6", plain},
			{"names-differing-in-case", echo, "/items?id=1&ID=2&Id=3&page=4&Page=5&q=6&Q=7", map[string][]string{"x-trace": {"a"}, "X-Trace": {"b"}, "X-TRACE": {"c"}, "accept": {"d"}, "Accept": {"e"}}},
			{"repeated-names", echo, "/p?a=1&a=2&b=3&b=4&c=5&A=6", plain},
			{"response-headers", "导入《@响应库》\n输入当前请求\n输出（新建HTTP响应：200、“ok”、【“x-tag” = “first”，“X-Tag” = “second”，“X-TAG” = “third”，“b” = “1”，“B” = “2”，“c” = “3”】）\n", "/r", plain},
			{"response-default-headers", "导入《@响应库》\n输入当前请求\n令应 = （新建HTTP响应：201、【“k” = 1，“j” = 2，“i” = 3】）\n应之头部#“x-a” = “1”\n应之头部#“X-A” = “2”\n输出应\n", "/r2", plain},
		}
		// hostile but possible requests: header values and query values that are not valid UTF-8
		// (obs-text is legal on the wire), empty, very long, with control characters; several
		// fields of each kind, so that "the first offending one" is a choice
		bad := map[string][]string{}
		for i, k := range []string{"X-Alpha", "X-Beta", "X-Gamma", "X-Delta", "X-Epsilon"} {
			bad[k] = []string{[]string{"\xff\xfe", "\xc3\x28", "ok", "\xe4\xb8", "caf\xe9"}[i]}
		}
		bad["X-Multi"] = []string{"fine", "\x80second"}
		odd := map[string][]string{"X-Empty": {""}, "X-Empty2": {""}, "X-Long": {strings.Repeat("长", 3000)}, "X-Ctl": {"a\tb"}, "X-Many": {"1", "2", "3", "4"}, "X-Many2": {"4", "3", "2", "1"}}
		shapes = append(shapes,
			shape{"header-values-not-utf8", echo, "/p?a=1", bad},
			shape{"header-values-not-utf8-constant-reply", "输入当前请求\n输出 “好”\n", "/p", bad},
			shape{"query-values-not-utf8", echo, "/p?a=%ff%fe&b=%c3%28&c=ok&d=%e4%b8&A=%80", plain},
			shape{"odd-header-values", echo, "/p?x=&y=&z=%00&x=2", odd},
		)
		for si, sh := range shapes {
			entry := filepath.Join(*dir, fmt.Sprintf("entry-h%d.zn", si))
			os.WriteFile(entry, []byte(sh.src), 0o644)
			h := server.NewZnHttpHandler(mk(), entry)
			seen := map[string]int{}
			for i := 0; i < *n; i++ {
				req := httptest.NewRequest("GET", sh.target, nil)
				for k, v := range sh.hdr {
					req.Header[k] = v
				}
				w := httptest.NewRecorder()
				h.ServeHTTP(w, req)
				hk := []string{}
				for k := range w.Header() {
					hk = append(hk, k)
				}
				sort.Strings(hk)
				resp := fmt.Sprint(w.Code) + " "
				for _, k := range hk {
					resp += k + "=" + strings.Join(w.Header()[k], "|") + "; "
				}
				seen[resp+w.Body.String()]++
				sum.Requests++
			}
			if len(seen) > sum.Distinct {
				sum.Distinct = len(seen)
			}
			keys := []string{}
			for k := range seen {
				keys = append(keys, k)
			}
			sort.Strings(keys)
			for i, k := range keys {
				if (len(seen) > 1 && i < 3) || (si == 0 && i == 0) {
					sum.Samples = append(sum.Samples, fmt.Sprintf("[%s] %dx %s", sh.name, seen[k], k))
				}
			}
		}
	}
	out, _ := json.Marshal(sum)
	fmt.Println(string(out))
}

func run(g, n int, seed int64, sum *summary, mu *sync.Mutex, note func(string), do func(id string, rng *rand.Rand) (string, string)) {
	var wg sync.WaitGroup
	start := make(chan struct{})
	for gi := 0; gi < g; gi++ {
		wg.Add(1)
		go func(gi int) {
			defer wg.Done()
			rng := rand.New(rand.NewSource(seed*1000 + int64(gi)))
			<-start
			for k := 0; k < n; k++ {
				id := fmt.Sprintf("tok-%d-%d", gi, k)
				body, code := do(id, rng)
				mu.Lock()
				sum.Requests++
				if code != "200" {
					sum.Errors++
				}
				if body != id {
					sum.Crossed++
				}
				mu.Unlock()
				if body != id {
					note(fmt.Sprintf("request %s got %q (status %s)", id, body, code))
				}
			}
		}(gi)
	}
	close(start)
	wg.Wait()
}
