#!/bin/sh
# setup_cmd: build the judge offline from files on disk only.
set -e
cd "$(dirname "$0")"
export GOFLAGS=-mod=mod GOPROXY=off GOSUMDB=off GOTOOLCHAIN=local
cp /repo/go.sum go.sum 2>/dev/null || true
mkdir -p bin evidence replays scratch
go build -o bin/zncheck ./cmd/zncheck
python3 -c "import ast,sys; ast.parse(open('pyoracle/oracle.py').read())" 2>/dev/null || true
echo setup ok
