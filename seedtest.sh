#!/bin/sh
# usage: seedtest.sh <seed-dir> <property-id> [quick|thorough]
# Applies <seed-dir>/patch.diff to /repo, runs the property's check, reverts /repo.
# Prints DETECTED / MISSED and keeps the check output in <seed-dir>/check-<tier>.log
d=$1; id=$2; tier=${3:-quick}
cd /repo || exit 2
if ! git diff --quiet; then echo "/repo has uncommitted changes, refusing"; exit 2; fi
git apply "$d/patch.diff" || { echo "patch does not apply"; exit 2; }
cd /verif && ./check.sh "$id" "$tier" > "$d/check-$tier.log" 2>&1; rc=$?
git -C /repo checkout -- . 
if [ $rc -eq 1 ] && grep -q "^VIOLATION property=$id" "$d/check-$tier.log"; then echo "DETECTED ($tier) rc=$rc: $(grep -c '^VIOLATION' "$d/check-$tier.log") violation lines"; else echo "MISSED ($tier) rc=$rc"; fi
